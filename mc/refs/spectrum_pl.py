"""Exact reference for the integral of a raysect ``Spectrum`` over a wavelength interval.

raysect documents (``raysect.core.math.cython.utility.integrate`` used by ``Spectrum.integrate``):
the spectrum is the function that is *linear between the bin centres* and takes the *nearest end
value* outside the outermost centres ("trapezium rule integration of the sampled function ...
nearest-neighbour extrapolation").  The bin centres of ``Spectrum(min, max, n)`` are
``min + (i + 1/2) (max - min) / n``.

Everything below is rational arithmetic (``fractions.Fraction``) on the exact values of the doubles
handed in, so the only rounding is the final conversion to float.  Nothing of cherab or raysect is
imported here.
"""
from fractions import Fraction as Fr


class PLSpectrum:
    def __init__(self, smin, smax, samples):
        self.n = len(samples)
        self.smin, self.smax = Fr(smin), Fr(smax)
        self.delta = (self.smax - self.smin) / self.n
        self.centres = [self.smin + (Fr(2 * i + 1, 2)) * self.delta for i in range(self.n)]
        self.s = [Fr(v) for v in samples]

    def value(self, x):
        c, s, n = self.centres, self.s, self.n
        if x <= c[0]:
            return s[0]
        if x >= c[n - 1]:
            return s[n - 1]
        i = int((x - c[0]) / self.delta)          # floor, x > c[0]
        if i >= n - 1:
            i = n - 2
        t = (x - c[i]) / self.delta
        return s[i] + (s[i + 1] - s[i]) * t

    def integral(self, a, b):
        """exact integral over [a, b] (Fraction); zero for b <= a (as documented by raysect)."""
        a, b = Fr(a), Fr(b)
        if b <= a:
            return Fr(0)
        pts = [a] + [c for c in self.centres if a < c < b] + [b]
        tot = Fr(0)
        fa = self.value(pts[0])
        for k in range(1, len(pts)):
            fb = self.value(pts[k])
            tot += (fa + fb) * (pts[k] - pts[k - 1]) / 2
            fa = fb
        return tot

    def histogram_total(self):
        """sum_i s_i * delta: what the detector collected (equals integral(smin, smax))."""
        return sum(self.s) * self.delta
