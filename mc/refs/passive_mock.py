"""Harness side of C03: mock AtomicData provider, recording line shape, plasma builder.

The provider hands out rate objects that evaluate passive_ref.coef() with the key *the model asked for*; the
reference evaluates the same function with the key the documentation says should be used.
cherab / raysect are imported lazily (this module is imported inside worker functions only).
"""
from . import passive_ref as R

_CACHE = {}


def element(name):
    from cherab.core.atomic import elements
    return getattr(elements, name)


def lib():
    """Build (once per process) the mock classes."""
    if _CACHE:
        return _CACHE
    from raysect.core.math.function.float import Arg3D
    from raysect.optical import Vector3D
    from cherab.core.atomic import AtomicData, FreeFreeGauntFactor
    from cherab.core.atomic import ImpactExcitationPEC, RecombinationPEC, ThermalCXPEC
    from cherab.core.atomic import LineRadiationPower, ContinuumPower, CXRadiationPower
    from cherab.core.model.lineshape import LineShapeModel

    class ExcPEC(ImpactExcitationPEC):
        def __init__(self, key):
            self.key = key

        def evaluate(self, density, temperature):
            return R.coef(self.key, density, temperature)

    class RecPEC(RecombinationPEC):
        def __init__(self, key):
            self.key = key

        def evaluate(self, density, temperature):
            return R.coef(self.key, density, temperature)

    class CXPEC(ThermalCXPEC):
        def __init__(self, key):
            self.key = key

        def evaluate(self, electron_density, electron_temperature, donor_temperature):
            return R.coef(self.key, electron_density, electron_temperature, donor_temperature)

    def power(base):
        class Power(base):
            def __init__(self, key, el, charge):
                super().__init__(el, charge)
                self.key = key

            def evaluate(self, electron_density, electron_temperature):
                return R.coef(self.key, electron_density, electron_temperature)
        Power.__name__ = "Mock" + base.__name__
        return Power

    PLT, PRB, PRC = power(LineRadiationPower), power(ContinuumPower), power(CXRadiationPower)

    class MockGaunt(FreeFreeGauntFactor):
        def evaluate(self, z, temperature, wavelength):
            return R.mock_gaunt(z, temperature, wavelength)

    class ConstGaunt(FreeFreeGauntFactor):
        def __init__(self, value):
            self.value = value

        def evaluate(self, z, temperature, wavelength):
            return self.value

    class Provider(AtomicData):
        """gaunt: 'mock' -> MockGaunt from free_free_gaunt_factor(); 'default' -> inherit AtomicData's (Maxwellian table)."""

        def __init__(self, gaunt="mock"):
            super().__init__()
            self.gaunt = gaunt
            self.log = []

        def wavelength(self, ion, charge, transition):
            self.log.append(("wavelength", ion.name, charge, transition))
            return R.wavelength(ion.name, charge, transition)

        def impact_excitation_pec(self, ion, charge, transition):
            self.log.append(("exc", ion.name, charge, transition))
            return ExcPEC(("exc", ion.name, charge, R.tr_key(transition)))

        def recombination_pec(self, ion, charge, transition):
            self.log.append(("rec", ion.name, charge, transition))
            return RecPEC(("rec", ion.name, charge, R.tr_key(transition)))

        def thermal_cx_pec(self, donor_ion, donor_charge, receiver_ion, receiver_charge, transition):
            self.log.append(("cx", donor_ion.name, donor_charge, receiver_ion.name, receiver_charge, transition))
            return CXPEC(("cx", donor_ion.name, donor_charge, receiver_ion.name, receiver_charge, R.tr_key(transition)))

        def line_radiated_power_rate(self, el, charge):
            self.log.append(("plt", el.name, charge))
            return PLT(("plt", el.name, charge), el, charge)

        def continuum_radiated_power_rate(self, el, charge):
            self.log.append(("prb", el.name, charge))
            return PRB(("prb", el.name, charge), el, charge)

        def cx_radiated_power_rate(self, el, charge):
            self.log.append(("prc", el.name, charge))
            return PRC(("prc", el.name, charge), el, charge)

        def free_free_gaunt_factor(self):
            self.log.append(("gaunt",))
            if self.gaunt == "mock":
                return MockGaunt()
            return super().free_free_gaunt_factor()

    class RecorderLine(LineShapeModel):
        """A line shape that spreads the radiance uniformly over the window and remembers what it was given."""
        instances = []

        def __init__(self, line, wavelength, target_species, plasma, atomic_data, *args, **kwargs):
            super().__init__(line, wavelength, target_species, plasma, atomic_data)
            self.info = {"line": line, "wavelength": wavelength, "target_species": target_species, "plasma": plasma,
                         "atomic_data": atomic_data, "args": args, "kwargs": kwargs}
            self.calls = []
            RecorderLine.instances.append(self)

        def add_line(self, radiance, point, direction, spectrum):
            self.calls.append((radiance, (point.x, point.y, point.z), (direction.x, direction.y, direction.z)))
            per_bin = radiance / (spectrum.max_wavelength - spectrum.min_wavelength)
            s = spectrum.samples
            for i in range(spectrum.bins):
                s[i] += per_bin
            return spectrum

    x, y, z = Arg3D("x"), Arg3D("y"), Arg3D("z")
    _CACHE.update(
        Provider=Provider, RecorderLine=RecorderLine, MockGaunt=MockGaunt, ConstGaunt=ConstGaunt,
        PROFILE=1.0 + 0.5 * x + 0.25 * y + 0.125 * z, PROFILE_YZ=1.0 + 0.25 * y + 0.125 * z, ZERO_V=Vector3D(0, 0, 0),
    )
    return _CACHE


def build_plasma(ne, te, species, xdep=True, parent=None, transform=None):
    """species: list of (label, n0, T0) in composition order.  Every quantity is v0 * profile(x, y, z)."""
    from scipy.constants import atomic_mass, electron_mass
    from cherab.core import Plasma, Species, Maxwellian
    L = lib()
    prof = L["PROFILE"] if xdep else L["PROFILE_YZ"]
    zero = L["ZERO_V"]
    plasma = Plasma(parent=parent, transform=transform)
    plasma.b_field = zero
    plasma.electron_distribution = Maxwellian(ne * prof, te * prof, zero, electron_mass)
    sp = []
    for label, n0, t0 in species:
        el_name, q = R.parse_label(label)
        el = element(el_name)
        sp.append(Species(el, q, Maxwellian(n0 * prof, t0 * prof, zero, el.atomic_weight * atomic_mass)))
    plasma.composition = sp
    return plasma
