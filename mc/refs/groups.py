"""Reference model for C15 (observer groups): a list of dicts.

Written from the documented semantics of the group classes (class docstrings of
cherab.tools.observers.group.* and BolometerCamera, and the statement of property C15):

* a group is an ordered list of members; every member is a dict {id, name, <attr>: value, ...};
* ``group.<attr> = scalar``            -> every member gets the value;
* ``group.<attr> = sequence`` (len n)  -> element-wise, in member order;
* ``group.<attr> = sequence`` (len!=n) -> ValueError, nothing changes;
* ``group.<attr>``                     -> [member[attr] for member in members];
* ``names`` and ``pipelines`` are element-wise only (no scalar broadcast);
* ``add`` appends, ``observers = seq`` replaces the list by ``seq`` (all elements must be of the
  group's observer type, otherwise the assignment is rejected as a whole);
* the deprecated spectroscopic observers expose ``display_progress`` / ``accumulate`` which are
  *pipeline* settings: the value of a member is the list over its pipelines of the pipeline's
  own flag (``None`` where the pipeline has no such flag: mono pipelines have no display_progress).

Nothing here imports cherab or raysect.  Values are plain python (numbers, bools, label strings
for engine/pipeline/target objects, 3-tuples for points/vectors); the driver in checks/c15.py turns
them into real objects and back.
"""

# ---------------------------------------------------------------------------------------------
# hand list of the group-level attributes (the introspected list is cross-checked against it)
# ---------------------------------------------------------------------------------------------
# type: int | float | bool | engine | pipelines | targets | point | vector | pflag (pipeline flag)
# nd:   the documented setter accepts a numpy array for this attribute (property C15 restricts the
#       ndarray value kind to those)
# scalar: a single value is broadcast (False for 'pipelines': element-wise only)
# The pools of same-typed attributes are pairwise disjoint so that a setter writing the neighbouring
# attribute is visible whatever the current state is.
ATTR = {
    "render_engine":             dict(type="engine", nd=False, pool=["eng0", "eng1", "eng2", "eng3", "eng4"]),
    "spectral_bins":             dict(type="int", nd=True, pool=[8, 16, 24, 32, 40]),
    "spectral_rays":             dict(type="int", nd=True, pool=[1, 2, 3, 4, 5]),
    "max_wavelength":            dict(type="float", nd=True, pool=[700.0, 710.0, 720.0, 730.0, 745.5]),
    "min_wavelength":            dict(type="float", nd=True, pool=[300.0, 310.0, 320.5, 330.0, 340.0]),
    "ray_extinction_prob":       dict(type="float", nd=True, pool=[0.0, 0.05, 0.1, 0.25, 1.0]),
    "ray_max_depth":             dict(type="int", nd=True, pool=[111, 121, 131, 141, 151]),
    "ray_extinction_min_depth":  dict(type="int", nd=True, pool=[6, 7, 9, 12, 13]),
    "ray_importance_sampling":   dict(type="bool", nd=True, pool=[True, False]),
    "ray_important_path_weight": dict(type="float", nd=True, pool=[0.15, 0.3, 0.45, 0.6, 0.9]),
    "quiet":                     dict(type="bool", nd=True, pool=[False, True]),
    "pixel_samples":             dict(type="int", nd=True, pool=[100, 200, 300, 400, 500]),
    "samples_per_task":          dict(type="int", nd=True, pool=[15, 25, 35, 45, 55]),
    "pipelines":                 dict(type="pipelines", nd=False, scalar=False, pool=None),
    "sensitivity":               dict(type="float", nd=True, pool=[0.5, 1.5, 2.5, 3.5, 4.5]),
    "acceptance_angle":          dict(type="float", nd=True, pool=[1.0, 2.0, 3.0, 4.0, 6.0]),
    "radius":                    dict(type="float", nd=True, pool=[0.002, 0.003, 0.004, 0.005, 0.006]),
    "x_width":                   dict(type="float", nd=True, pool=[0.011, 0.012, 0.013, 0.014, 0.016]),
    "y_width":                   dict(type="float", nd=True, pool=[0.021, 0.022, 0.023, 0.024, 0.026]),
    "targets":                   dict(type="targets", nd=False, pool=None),
    "targetted_path_prob":       dict(type="float", nd=False, pool=[0.55, 0.65, 0.75, 0.85, 0.95]),
    "origin":                    dict(type="point", nd=False, pool=[(1.0, 2.0, 3.0), (4.0, 5.0, 6.0), (-1.0, 0.0, 2.0), (0.5, 0.25, 8.0), (3.0, 0.0, 0.0)]),
    "direction":                 dict(type="vector", nd=False, pool=[(1.0, 0.0, 0.0), (0.0, 1.0, 0.0), (0.0, 0.0, 1.0), (-1.0, 0.0, 0.0), (0.0, -1.0, 0.0)]),
    "display_progress":          dict(type="pflag", nd=True, pool=[True, False]),
    "accumulate":                dict(type="pflag", nd=True, pool=[False, True]),
}
TARGET_SCALAR = {"a": ("tgt0",), "b": ("tgt1", "tgt2")}
N_TARGETS = 5

BASE = ["render_engine", "spectral_bins", "spectral_rays", "max_wavelength", "min_wavelength", "ray_extinction_prob",
        "ray_max_depth", "ray_extinction_min_depth", "ray_importance_sampling", "ray_important_path_weight", "quiet",
        "pixel_samples", "samples_per_task", "pipelines"]
SPECTRO = ["origin", "direction", "display_progress", "accumulate"]

# member: the observer type the group accepts; wrong: an observer type it must reject (the nearest
# relative that is not an instance of `member`); structural: properties that are membership
# operations, not broadcast attributes; members_attr: name of the member-list property
CLASSES = {
    "SightLineGroup":               dict(member="SightLine", wrong="Pixel", attrs=BASE + ["sensitivity"],
                                         structural=["observers", "names"], members_attr="observers", add="add_observer"),
    "FibreOpticGroup":              dict(member="FibreOptic", wrong="SightLine", attrs=BASE + ["acceptance_angle", "radius"],
                                         structural=["observers", "names"], members_attr="observers", add="add_observer"),
    "PixelGroup":                   dict(member="Pixel", wrong="TargettedPixel", attrs=BASE + ["x_width", "y_width"],
                                         structural=["observers", "names"], members_attr="observers", add="add_observer"),
    "TargettedPixelGroup":          dict(member="TargettedPixel", wrong="Pixel",
                                         attrs=BASE + ["x_width", "y_width", "targets", "targetted_path_prob"],
                                         structural=["observers", "names"], members_attr="observers", add="add_observer"),
    "SpectroscopicSightLineGroup":  dict(member="SpectroscopicSightLine", wrong="SightLine", attrs=BASE + SPECTRO + ["sensitivity"],
                                         structural=["observers", "names", "sight_lines"], members_attr="observers",
                                         add="add_observer", alias=("sight_lines", "add_sight_line")),
    "SpectroscopicFibreOpticGroup": dict(member="SpectroscopicFibreOptic", wrong="FibreOptic",
                                         attrs=BASE + SPECTRO + ["acceptance_angle", "radius"],
                                         structural=["observers", "names", "sight_lines"], members_attr="observers",
                                         add="add_observer", alias=("sight_lines", "add_sight_line")),
    "BolometerCamera":              dict(member="BolometerFoil", wrong="TargettedPixel", attrs=[],
                                         structural=["foil_detectors"], members_attr="foil_detectors", add="add_foil_detector",
                                         readonly=["slits"]),
}
CLASS_ORDER = ["SightLineGroup", "FibreOpticGroup", "PixelGroup", "TargettedPixelGroup",
               "SpectroscopicSightLineGroup", "SpectroscopicFibreOpticGroup", "BolometerCamera"]

SET_KINDS = ["a", "b", "list", "tuple", "nd", "list+1", "list-1", "empty", "nd+1"]


def kinds_for(attr):
    """Value kinds of the alphabet for one attribute (ndarray only where the setter names it,
    scalars only where a scalar is broadcast)."""
    s = ATTR[attr]
    out = []
    for k in SET_KINDS:
        if k in ("a", "b") and not s.get("scalar", True):
            continue
        if k in ("nd", "nd+1") and not s["nd"]:
            continue
        out.append(k)
    return out


def kind_class(kind, n):
    """Class label of a value kind (used in signatures): scalar | seq | ndarray | wronglen."""
    if kind in ("a", "b"):
        return "scalar"
    if kind in ("list", "tuple"):
        return "seq"
    if kind == "nd":
        return "ndarray"
    if kind == "empty":
        return "seq" if n == 0 else "wronglen"
    return "wronglen"


def op_label(op, cls, n):
    """Float/counter-free label of an operation (used in signatures and class counts)."""
    c = CLASSES[cls]
    if op[0] == "set":
        return "%s=%s" % (op[1], kind_class(op[2], n))
    if op[0] == "add":
        return c["add"]
    if op[0] == "add_alias":
        return c["alias"][1]
    if op[0] == "add_wrong":
        return "%s(wrong-type:%s)" % (c["add"], op[1])
    if op[0] == "obs":
        return "%s=%s" % (c["members_attr"], op[1])
    if op[0] == "obs_alias":
        return "%s=%s" % (c["alias"][0], op[1])
    if op[0] == "names":
        return "names=%s" % {"list": "seq", "tuple": "seq", "swap": "seq", "dup": "seq", "+1": "wronglen", "-1": "wronglen"}[op[1]]
    if op[0] == "rename":
        return "member.name="
    if op[0] == "mset":
        return "member.%s=" % op[1]
    raise ValueError(op)


class Model:
    """The list-of-dicts reference model of one group."""

    def __init__(self, cls):
        self.cls = cls
        self.spec = CLASSES[cls]
        self.attrs = [a for a in self.spec["attrs"] if ATTR[a]["type"] != "pflag"]   # stored per member
        self.pflags = [a for a in self.spec["attrs"] if ATTR[a]["type"] == "pflag"]  # stored per pipeline
        self.members = []      # THE list of dicts
        self.created = 0       # members ever created
        self.everyone = []     # every member dict ever created (ex-members must stay untouched / unobserved)
        self.pipes = {}        # pipeline label -> {"spectral": bool, "display_progress": bool|None, "accumulate": bool}
        self.ctr = 0           # op counter (only used to make fresh names unique)

    # ---- construction of plain values -------------------------------------------------------
    def new_pipe(self, spectral, dp, acc):
        lab = "pl%d" % len(self.pipes)
        self.pipes[lab] = {"spectral": spectral, "display_progress": (dp if spectral else None), "accumulate": acc}
        return lab

    def pipe_set(self, i, salt):
        """A fresh tuple of pipeline labels for member position i (alternating layouts)."""
        if (i + salt) % 2 == 0:
            return (self.new_pipe(True, bool((i + salt) % 4 == 0), bool(i % 2)),)
        return (self.new_pipe(False, None, bool(i % 2 == 0)), self.new_pipe(True, bool(i % 3 == 0), bool(salt % 2)))

    def new_member(self):
        k = self.created
        self.created += 1
        m = {"id": k, "name": "m%d" % k}
        for a in self.attrs:
            s = ATTR[a]
            if s["type"] == "pipelines":
                m[a] = self.pipe_set(k, 0)
            elif s["type"] == "targets":
                m[a] = ("tgt%d" % ((k + 1) % N_TARGETS),)
            else:
                m[a] = s["pool"][(k + 1) % len(s["pool"])]
        self.everyone.append(m)
        return m

    def value_plan(self, attr, kind):
        """-> (is_scalar, plain value or list of plain values, container) for group.<attr> = ..."""
        s = ATTR[attr]
        n = len(self.members)
        pool = s["pool"]
        length = {"list+1": n + 1, "nd+1": n + 1, "list-1": n - 1, "empty": 0}.get(kind, n)
        container = {"list": "list", "tuple": "tuple", "nd": "nd", "list+1": "list", "list-1": "list", "empty": "list", "nd+1": "nd"}.get(kind)
        if s["type"] == "pipelines":
            salt = {"list": 1, "tuple": 2}.get(kind, 3)
            return False, [self.pipe_set(i, salt) for i in range(length)], container
        if s["type"] == "targets":
            if kind in ("a", "b"):
                return True, TARGET_SCALAR[kind], None
            if kind == "tuple":
                return False, [("tgt%d" % ((2 * i + 3) % N_TARGETS), "tgt%d" % ((2 * i + 4) % N_TARGETS)) for i in range(length)], container
            return False, [("tgt%d" % ((i + 2) % N_TARGETS),) for i in range(length)], container
        P = len(pool)
        if kind == "a":
            return True, pool[0], None
        if kind == "b":
            return True, pool[1], None
        if kind == "list":
            return False, [pool[(i + 2) % P] for i in range(length)], container
        if kind == "tuple":
            return False, [pool[(2 * i + 3) % P] for i in range(length)], container
        if kind == "nd":
            return False, [pool[(3 * i + 4) % P] for i in range(length)], container
        return False, [pool[(i + 1) % P] for i in range(length)], container

    # ---- reading -------------------------------------------------------------------------------
    def member_value(self, m, attr):
        if ATTR[attr]["type"] == "pflag":
            return [self.pipes[p][attr] for p in m["pipelines"]]
        return m[attr]

    def column(self, attr):
        return [self.member_value(m, attr) for m in self.members]

    def names(self):
        return [m["name"] for m in self.members]

    def state(self):
        """Canonical hashable model state."""
        mem = tuple(tuple(m.values()) for m in self.members)   # insertion order of the keys is fixed by new_member
        if self.pflags:
            used = set()
            for m in self.members:
                used.update(m["pipelines"])
            pf = tuple((p, d["display_progress"], d["accumulate"]) for p, d in self.pipes.items() if p in used)
        else:
            pf = ()
        return (self.cls, mem, pf)

    # ---- operations ------------------------------------------------------------------------------
    def _assign_member(self, m, attr, v):
        if ATTR[attr]["type"] == "pflag":
            for p in m["pipelines"]:
                if attr == "accumulate" or self.pipes[p]["spectral"]:
                    self.pipes[p][attr] = v
        else:
            m[attr] = v

    def apply(self, op):
        """Apply `op` to the model.  Returns a plan dict:
             expect: 'ok' | 'ValueError' (wrong length: property says ValueError, nothing changes)
                     | 'reject' (wrong type: any exception, nothing changes) | 'n/a' (op not applicable in this state)
             plus what the driver needs to perform the same operation on the live object."""
        self.ctr += 1
        n = len(self.members)
        kind = op[0]
        if kind == "set":
            attr, vk = op[1], op[2]
            if vk == "list-1" and n == 0:
                return {"expect": "n/a"}
            is_scalar, val, container = self.value_plan(attr, vk)
            plan = {"expect": "ok", "attr": attr, "scalar": is_scalar, "value": val, "container": container}
            if is_scalar:
                for m in self.members:
                    self._assign_member(m, attr, val)
            elif len(val) == n:
                for m, v in zip(self.members, val):
                    self._assign_member(m, attr, v)
            else:
                plan["expect"] = "ValueError"
            return plan
        if kind in ("add", "add_alias"):
            m = self.new_member()
            self.members.append(m)
            return {"expect": "ok", "new": [m]}
        if kind == "add_wrong":
            return {"expect": "reject", "wrong": op[1]}
        if kind in ("obs", "obs_alias"):
            v = op[1]
            cur = list(self.members)
            if v == "rev":
                new, cont = cur[::-1], "list"
            elif v == "rot_tuple":
                new, cont = cur[1:] + cur[:1], "tuple"
            elif v == "drop":
                if n == 0:
                    return {"expect": "n/a"}
                new, cont = cur[:-1], "list"
            elif v == "new":
                m = self.new_member()
                new, cont = [m] + cur[:1], "list"
            elif v == "empty":
                new, cont = [], "list"
            elif v == "badtype":
                return {"expect": "reject", "members": [m["id"] for m in cur] + ["WRONG"], "container": "list"}
            else:
                raise ValueError(op)
            self.members = new
            return {"expect": "ok", "members": [m["id"] for m in new], "container": cont,
                    "new": [m for m in new if m not in cur]}
        if kind == "names":
            v = op[1]
            if v in ("list", "tuple"):
                val, cont = ["r%d_%d" % (self.ctr, i) for i in range(n)], v
            elif v == "swap":
                val, cont = self.names()[::-1], "list"
            elif v == "dup":
                val, cont = ["dup"] * n, "list"
            elif v == "+1":
                val, cont = ["w%d_%d" % (self.ctr, i) for i in range(n + 1)], "list"
            elif v == "-1":
                if n == 0:
                    return {"expect": "n/a"}
                val, cont = ["w%d_%d" % (self.ctr, i) for i in range(n - 1)], "list"
            else:
                raise ValueError(op)
            plan = {"expect": "ok", "value": val, "container": cont}
            if len(val) == n:
                for m, x in zip(self.members, val):
                    m["name"] = x
            else:
                plan["expect"] = "ValueError"
            return plan
        if kind == "rename":
            if n == 0:
                return {"expect": "n/a"}
            idx = 0 if op[1] == "first" else -1
            new = "dup" if op[2] == "dup" else "q%d" % self.ctr
            self.members[idx]["name"] = new
            return {"expect": "ok", "index": idx, "value": new}
        if kind == "mset":
            # the first member is modified directly, not through the group ("members' *current* values")
            if n == 0:
                return {"expect": "n/a"}
            attr = op[1]
            s = ATTR[attr]
            if s["type"] == "pipelines":
                v = self.pipe_set(0, 5)
            elif s["type"] == "targets":
                v = ("tgt4", "tgt0")
            else:
                v = s["pool"][-1]
            self._assign_member(self.members[0], attr, v)
            return {"expect": "ok", "attr": attr, "value": v}
        raise ValueError(op)


# ---------------------------------------------------------------------------------------------
# alphabets
# ---------------------------------------------------------------------------------------------
def membership_alphabet(cls, full=True):
    c = CLASSES[cls]
    if cls == "BolometerCamera":
        ops = [["add"], ["add_wrong", "observer"], ["add_wrong", "node"], ["add_wrong", "object"],
               ["obs", "rev"], ["obs", "drop"], ["obs", "new"], ["obs", "empty"], ["obs", "badtype"],
               ["rename", "first", "dup"], ["rename", "last", "fresh"], ["rename", "last", "dup"]]
        core = [["add"], ["add_wrong", "observer"], ["obs", "rev"], ["obs", "drop"], ["obs", "new"], ["obs", "badtype"],
                ["rename", "first", "dup"], ["rename", "last", "dup"]]
        return ops if full else core
    rep = "pixel_samples"
    ops = [["add"], ["add_wrong", "observer"], ["add_wrong", "node"], ["add_wrong", "object"],
           ["obs", "rev"], ["obs", "rot_tuple"], ["obs", "drop"], ["obs", "new"], ["obs", "empty"], ["obs", "badtype"],
           ["names", "list"], ["names", "tuple"], ["names", "swap"], ["names", "dup"], ["names", "+1"], ["names", "-1"],
           ["rename", "first", "dup"], ["rename", "last", "fresh"], ["rename", "last", "dup"],
           ["set", rep, "a"], ["set", rep, "list"]]
    core = [["add"], ["add_wrong", "observer"], ["obs", "rev"], ["obs", "drop"], ["obs", "new"],
            ["names", "swap"], ["names", "dup"], ["rename", "first", "dup"], ["set", rep, "list"]]
    if "alias" in c:
        ops += [["add_alias"], ["obs_alias", "rev"]]
        core += [["obs_alias", "rev"]]
    return ops if full else core


def attribute_alphabet(attr):
    return [["set", attr, k] for k in kinds_for(attr)] + [["mset", attr], ["add"], ["obs", "rev"], ["obs", "drop"]]


def pair_alphabet(a1, a2):
    def pick(a, want):
        ks = kinds_for(a)
        return [k for k in want if k in ks]
    ops = [["set", a1, k] for k in pick(a1, ["a", "list", "list+1"])]
    ops += [["set", a2, k] for k in pick(a2, ["b", "tuple", "list+1"])]
    return ops + [["add"]]
