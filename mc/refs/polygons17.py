"""Exhaustive simple lattice polygons and exact rational polygon geometry (reference model for C17).

Nothing here imports cherab or raysect.  Everything is integer / fractions.Fraction arithmetic.

Polygons
--------
A polygon is a tuple of k distinct points of the n x n integer lattice {0..n-1}^2, read cyclically.
It is *simple* when
  * no two non-adjacent edges have a point in common (crossing or touching), and
  * two adjacent edges have only their shared vertex in common (no 0-degree spike).
A 180-degree vertex (a "collinear extra vertex" on a straight side) is allowed.

Canonical form (one representative per polygon up to cyclic rotation and direction): the vertex with
the smallest lattice index comes first and the index of the second vertex is smaller than the index
of the last one.  `buckets(n, k)` splits the canonical family by (first, second) index so that the
enumeration can be distributed; `enumerate_bucket` yields the simple members of one bucket.

Exact geometry
--------------
`fan_area_centroid(P)` : signed area (counter-clockwise positive) and centroid of a polygon given by
exact (Fraction) vertices, from the fan decomposition about vertex 0: the polygon is the signed sum of
the triangles (P0, Pi, Pi+1), each with area cross/2 and centroid (P0+Pi+Pi+1)/3.
"""
from fractions import Fraction
from itertools import permutations


def lattice(n):
    return [(i % n, i // n) for i in range(n * n)]


def _cross(o, a, b):
    return (a[0] - o[0]) * (b[1] - o[1]) - (a[1] - o[1]) * (b[0] - o[0])


def _dot(o, a, b):
    return (a[0] - o[0]) * (b[0] - o[0]) + (a[1] - o[1]) * (b[1] - o[1])


def _sgn(v):
    return (v > 0) - (v < 0)


def _on_segment(a, b, p):
    """p collinear with ab assumed; is p within the closed segment ab"""
    return min(a[0], b[0]) <= p[0] <= max(a[0], b[0]) and min(a[1], b[1]) <= p[1] <= max(a[1], b[1])


def segments_touch(a, b, c, d):
    """closed segments ab and cd have at least one common point (exact)"""
    d1 = _sgn(_cross(a, b, c))
    d2 = _sgn(_cross(a, b, d))
    d3 = _sgn(_cross(c, d, a))
    d4 = _sgn(_cross(c, d, b))
    if d1 * d2 < 0 and d3 * d4 < 0:
        return True
    if d1 == 0 and _on_segment(a, b, c):
        return True
    if d2 == 0 and _on_segment(a, b, d):
        return True
    if d3 == 0 and _on_segment(c, d, a):
        return True
    if d4 == 0 and _on_segment(c, d, b):
        return True
    return False


def is_simple(P):
    k = len(P)
    if k < 3 or len(set(P)) != k:
        return False
    # adjacent edges: no zero-degree spike (prev and next on the same ray from the vertex)
    for i in range(k):
        p, v, q = P[i - 1], P[i], P[(i + 1) % k]
        if _cross(v, p, q) == 0 and _dot(v, p, q) > 0:
            return False
    if k == 3:
        return _cross(P[0], P[1], P[2]) != 0
    for i in range(k):
        a, b = P[i], P[(i + 1) % k]
        for j in range(i + 2, k):
            if i == 0 and j == k - 1:
                continue  # adjacent through the closing edge
            c, d = P[j], P[(j + 1) % k]
            if segments_touch(a, b, c, d):
                return False
    return True


def buckets(n, k):
    """(first, second) lattice-index pairs of the canonical family"""
    N = n * n
    out = []
    for f in range(N - k + 1):
        for s in range(f + 1, N - 1):  # second < last, so second cannot be the largest index
            out.append((f, s))
    return out


def enumerate_bucket(n, k, first, second):
    """simple polygons (tuples of lattice points) whose canonical index sequence starts first, second"""
    L = lattice(n)
    N = n * n
    rest = [i for i in range(first + 1, N) if i != second]
    if k == 3:
        for last in rest:
            if last > second:
                P = (L[first], L[second], L[last])
                if is_simple(P):
                    yield P
        return
    for mid in permutations(rest, k - 2):
        if mid[-1] < second:
            continue
        P = (L[first], L[second]) + tuple(L[i] for i in mid)
        if is_simple(P):
            yield P


def enumerate_all(n, k):
    for f, s in buckets(n, k):
        yield from enumerate_bucket(n, k, f, s)


def count_candidates(n, k):
    """size of the canonical family before the simplicity filter: sum_f P(N-1-f, k-1) / 2"""
    N = n * n
    tot = 0
    for f in range(N - k + 1):
        m = N - 1 - f
        p = 1
        for t in range(k - 1):
            p *= (m - t)
        tot += p // 2
    return tot


# ----------------------------------------------------------------------------- exact geometry

def F(x):
    return x if isinstance(x, Fraction) else Fraction(x)


def tri_signed_area(a, b, c):
    return ((b[0] - a[0]) * (c[1] - a[1]) - (b[1] - a[1]) * (c[0] - a[0])) / 2


def fan_area_centroid(P):
    """signed area (ccw > 0) and centroid, exact, by the fan decomposition about P[0]"""
    P = [(F(x), F(y)) for x, y in P]
    A = Fraction(0)
    mx = Fraction(0)
    my = Fraction(0)
    o = P[0]
    for i in range(1, len(P) - 1):
        a = tri_signed_area(o, P[i], P[i + 1])
        A += a
        mx += a * (o[0] + P[i][0] + P[i + 1][0]) / 3
        my += a * (o[1] + P[i][1] + P[i + 1][1]) / 3
    if A == 0:
        return A, None
    return A, (mx / A, my / A)


def is_convex(P):
    """all turns have the same sign (180-degree vertices allowed)"""
    k = len(P)
    s = {_sgn(_cross(P[i], P[(i + 1) % k], P[(i + 2) % k])) for i in range(k)}
    s.discard(0)
    return len(s) <= 1


def has_straight_vertex(P):
    k = len(P)
    return any(_cross(P[i], P[(i + 1) % k], P[(i + 2) % k]) == 0 for i in range(k))


def is_axis_rectangle(P):
    if len(P) != 4:
        return False
    xs = sorted({p[0] for p in P})
    ys = sorted({p[1] for p in P})
    if len(xs) != 2 or len(ys) != 2:
        return False
    return set(P) == {(x, y) for x in xs for y in ys} and all(
        (P[i][0] == P[(i + 1) % 4][0]) != (P[i][1] == P[(i + 1) % 4][1]) for i in range(4))


def bary(a, b, c, p):
    """exact barycentric coordinates of p in triangle abc (Fractions); None for a degenerate triangle"""
    d = (b[0] - a[0]) * (c[1] - a[1]) - (b[1] - a[1]) * (c[0] - a[0])
    if d == 0:
        return None
    l1 = ((b[0] - p[0]) * (c[1] - p[1]) - (b[1] - p[1]) * (c[0] - p[0])) / d
    l2 = ((c[0] - p[0]) * (a[1] - p[1]) - (c[1] - p[1]) * (a[0] - p[0])) / d
    return l1, l2, 1 - l1 - l2


def shape_class(P):
    """class label of a lattice polygon (used in signatures and vacuity classes)"""
    k = len(P)
    if k == 3:
        base = "triangle"
    elif is_axis_rectangle(P):
        base = "rectangle"
    elif is_convex(P):
        base = "convex"
    else:
        base = "concave"
    if has_straight_vertex(P):
        base += "+straight-vertex"
    return "n=%d:%s" % (k, base)
