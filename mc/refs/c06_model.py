"""C06 - reference model of the atomic-data repository as a key-value store, the operation alphabet,
the payload generator and a few tiny fixed ADF files for the install_* front-ends.

Nothing here imports cherab.  The model is derived from the *statement* of C06 and from the docstrings of
cherab.openadas.repository (argument order of add_*, nesting order of the update_* dictionaries, names of the
entries of the returned dictionaries), not from the bodies of the functions:

  * a slot is (family, key) with key = the documented key fields; transition levels are compared by
    str(level).lower();
  * a write replaces the slot's content (beam CX: the content of one donor metastable of the slot);
  * everything else keeps its content, a slot never written reads as RuntimeError.
"""
import itertools
import struct

import numpy as np

# ---------------------------------------------------------------------------------------------------------
# key universe
# ---------------------------------------------------------------------------------------------------------
SPECIES = ("h", "c", "d")           # hydrogen, carbon, deuterium (an Isotope of hydrogen)
TI = [3, 2]                         # integer transition
TS = ["2s1 3P4.0", "2S1 3s1"]       # string transition, mixed case
TU = ["2S1 3P4.0", "2S1 3S1"]       # its upper-cased twin: the same key by the statement of C06
TI_STR = ["3", "2"]                 # str form of the integer transition: the same key as TI
T_NEVER = [5, 4]                    # never written by any operation


def norm_tr(tr):
    return (str(tr[0]).lower(), str(tr[1]).lower())


# family -> description.  key = documented key fields; 'tr' index of the transition in the key (or None);
# 'infile' = number of trailing key fields that the docstrings place *inside* one json file (only used to
# label the relation between a clobbered key and the written key); 'kind' = payload layout.
FAMILIES = {
    "ion":  dict(kind="2d", inkey="rates", key=("sp", "q"), tr=None, infile=1, group="adf11",
                 add="add_ionisation_rate", upd="update_ionisation_rates", get="get_ionisation_rate"),
    "rec":  dict(kind="2d", inkey="rates", key=("sp", "q"), tr=None, infile=1, group="adf11",
                 add="add_recombination_rate", upd="update_recombination_rates", get="get_recombination_rate"),
    "tcx":  dict(kind="2d", inkey="rates", key=("donor", "dq", "recv", "rq"), tr=None, infile=1, group="adf11",
                 add="add_thermal_cx_rate", upd="update_thermal_cx_rates", get="get_thermal_cx_rate"),
    "line": dict(kind="2d", inkey="rates", key=("sp", "q"), tr=None, infile=1, group="power",
                 add="add_line_power_rate", upd="update_line_power_rates", get="get_line_radiated_power_rate"),
    "cont": dict(kind="2d", inkey="rates", key=("sp", "q"), tr=None, infile=1, group="power",
                 add="add_continuum_power_rate", upd="update_continuum_power_rates", get="get_continuum_radiated_power_rate"),
    "cxp":  dict(kind="2d", inkey="rates", key=("sp", "q"), tr=None, infile=1, group="power",
                 add="add_cx_power_rate", upd="update_cx_power_rates", get="get_cx_radiated_power_rate"),
    "pexc": dict(kind="2d", inkey="rate", key=("sp", "q", "tr"), tr=2, infile=1, group="pec",
                 add="add_pec_excitation_rate", upd="update_pec_rates", get="get_pec_excitation_rate"),
    "prec": dict(kind="2d", inkey="rate", key=("sp", "q", "tr"), tr=2, infile=1, group="pec",
                 add="add_pec_recombination_rate", upd="update_pec_rates", get="get_pec_recombination_rate"),
    "ptcx": dict(kind="3d", key=("donor", "dq", "recv", "rq", "tr"), tr=4, infile=1, group="pec",
                 add="add_pec_thermal_cx_rate", upd="update_pec_thermal_cx_rates", get="get_pec_thermal_cx_rate"),
    "wl":   dict(kind="wl", key=("sp", "q", "tr"), tr=2, infile=1, group="pec",
                 add="add_wavelength", upd="update_wavelengths", get="get_wavelength"),
    # beam CX: the documented key has a donor metastable, but get_beam_cx_rates returns all metastables of
    # (donor, receiver, charge, transition): slot = those four, sub-key = metastable
    "bcx":  dict(kind="bcx", key=("donor", "recv", "rq", "tr"), tr=3, infile=1, group="beam",
                 add="add_beam_cx_rate", upd="update_beam_cx_rates", get="get_beam_cx_rates"),
    "bst":  dict(kind="b2x", key=("beam", "target", "q"), tr=None, infile=0, group="beam",
                 add="add_beam_stopping_rate", upd="update_beam_stopping_rates", get="get_beam_stopping_rate"),
    "bpop": dict(kind="b2x", key=("beam", "m", "target", "q"), tr=None, infile=0, group="beam",
                 add="add_beam_population_rate", upd="update_beam_population_rates", get="get_beam_population_rate"),
    "bem":  dict(kind="b2x", key=("beam", "target", "q", "tr"), tr=3, infile=1, group="beam",
                 add="add_beam_emission_rate", upd="update_beam_emission_rates", get="get_beam_emission_rate"),
}
FAMILY_ORDER = list(FAMILIES)
GROUPS = ("adf11", "power", "pec", "beam")

# entries of the dictionaries returned by get_* (docstrings)
OUT_FIELDS = {
    "2d": (("ne", 1), ("te", 1), ("rate", 2)),
    "3d": (("ne", 1), ("te", 1), ("td", 1), ("rate", 3)),
    "bcx": (("eb", 1), ("ti", 1), ("ni", 1), ("z", 1), ("b", 1), ("qeb", 1), ("qti", 1), ("qni", 1), ("qz", 1), ("qb", 1), ("qref", 0)),
    "b2x": (("e", 1), ("n", 1), ("t", 1), ("sen", 2), ("st", 1), ("eref", 0), ("nref", 0), ("tref", 0), ("sref", 0)),
    "wl": (("wavelength", 0),),
}


def slot_of(fam, key):
    """Model slot of a documented key (list from the JSON case): transitions normalised."""
    f = FAMILIES[fam]
    k = list(key)
    if f["tr"] is not None:
        k[f["tr"]] = norm_tr(k[f["tr"]])
    return (fam, tuple(k))


# ---------------------------------------------------------------------------------------------------------
# payloads.  pay = [variant, salt]; variant 1: lists, 2x3 tables; variant 2: numpy arrays, 3x2 tables with
# awkward float64 values (bit-exact round trip is what the property demands); variant 3: single-point tables;
# variant "bad": array shapes inconsistent (the repository documents a ValueError for that).
# salt makes every written table unique so that a table that surfaces under another key is recognised.
# ---------------------------------------------------------------------------------------------------------
AWK = [0.1 + 0.2, 1.0 / 3.0, 5e-324, 1.7976931348623157e308, -0.0, 2.2250738585072014e-308, 1e-310,
       123456789.12345679, 6.02214076e23, 2.0 ** -1074 * 3, 1.0000000000000002, 9007199254740993.0]


def _vals(n, variant, salt, scale):
    if variant == 2:
        v = [AWK[(salt + i) % len(AWK)] for i in range(n)]
        v[0] = (salt + 0.1) * scale * 1e-3 / 3.0
        return v
    if variant == 3:
        return [(salt + 0.7) * scale * (i + 1) for i in range(n)]
    return [(salt + 1) * scale * (i + 1) for i in range(n)]


def _axis(n, lo, variant):
    if variant == 2:
        return [lo * (0.1 + 0.2) * 10.0 / 3.0 * (1.0 + 1.0 / 3.0) ** i for i in range(n)]
    return [lo * 10.0 ** i for i in range(n)]


def _shape(kind, variant):
    if kind == "2d":
        return {1: (2, 3), 2: (3, 2), 3: (1, 1)}[variant]
    if kind == "3d":
        return {1: (2, 3, 2), 2: (3, 2, 3), 3: (1, 1, 1)}[variant]
    if kind == "bcx":
        return {1: (2, 3, 2, 1, 2), 2: (3, 2, 1, 2, 3), 3: (1, 1, 1, 1, 1)}[variant]
    if kind == "b2x":
        return {1: (2, 3, 2), 2: (3, 2, 4), 3: (1, 1, 1)}[variant]   # e, n, t
    raise KeyError(kind)


def _wrap(x, variant):
    return np.array(x, dtype=np.float64) if variant == 2 else x


def _resh(vals, shape):
    a = np.array(vals, dtype=np.float64).reshape(shape)
    return a.tolist()


def make_payload(fam, pay):
    """-> (object passed to the repository, expected content as {field: ndarray|float} or None if invalid)"""
    kind = FAMILIES[fam]["kind"]
    variant, salt = pay
    bad = variant == "bad"
    v = 1 if bad else variant
    fi = FAMILY_ORDER.index(fam)
    scale = 1e-16 * (fi + 1)
    if kind == "wl":
        if bad:
            return "not-a-number", None
        w = {1: 400.0 + salt + 0.1 + 0.2, 2: (salt + 1) * 1000.0 / 3.0, 3: float(100 + salt)}[variant]
        return w, {"wavelength": float(w)}
    shp = _shape(kind, v)
    if kind in ("2d", "3d"):
        names = ("ne", "te") if kind == "2d" else ("ne", "te", "td")
        los = (1e18, 1.0, 0.5)
        d = {nm: _wrap(_axis(n, lo, v), v) for nm, n, lo in zip(names, shp, los)}
        tshape = shp
        if bad:
            tshape = (shp[0], shp[1] - 1) + tuple(shp[2:])
        n = int(np.prod(tshape))
        table = _resh(_vals(n, v, salt, scale), tshape)
        inkey = FAMILIES[fam].get("inkey", "rate")
        d[inkey] = _wrap(table, v)
        if bad:
            return d, None
        exp = {nm: np.array(d[nm], dtype=np.float64) for nm in names}
        exp["rate"] = np.array(table, dtype=np.float64)
        return d, exp
    if kind == "bcx":
        xs = ("eb", "ti", "ni", "z", "b")
        los = (1e3, 10.0, 1e18, 1.0, 0.5)
        d = {}
        for j, (nm, n, lo) in enumerate(zip(xs, shp, los)):
            d[nm] = _wrap(_axis(n, lo, v), v)
            m = n + 1 if (bad and nm == "eb") else n
            d["q" + nm] = _wrap(_vals(m, v, salt + 17 * j, scale), v)
        d["qref"] = (salt + 1) * scale * 0.5
        if bad:
            return d, None
        exp = {k: (np.array(x, dtype=np.float64) if k != "qref" else float(x)) for k, x in d.items()}
        return d, exp
    if kind == "b2x":
        ne_, nn_, nt_ = shp
        d = {"e": _wrap(_axis(ne_, 1e3, v), v), "n": _wrap(_axis(nn_, 1e18, v), v), "t": _wrap(_axis(nt_, 10.0, v), v)}
        sshape = (ne_, nn_ + 1) if bad else (ne_, nn_)
        d["sen"] = _wrap(_resh(_vals(int(np.prod(sshape)), v, salt, scale), sshape), v)
        d["st"] = _wrap(_vals(nt_, v, salt + 31, scale), v)
        d["eref"] = 5e4 + salt
        d["nref"] = 1e19 * (1 + salt)
        d["tref"] = 100.0 + salt / 3.0
        d["sref"] = (salt + 1) * scale * 0.25
        if bad:
            return d, None
        exp = {k: (np.array(x, dtype=np.float64) if k in ("e", "n", "t", "sen", "st") else float(x)) for k, x in d.items()}
        return d, exp
    raise KeyError(kind)


def payload_numbers(obj):
    """Numbers described by a caller-side payload object (for the 'caller's dict unchanged' oracle)."""
    if isinstance(obj, dict):
        out = {}
        for k, x in obj.items():
            try:
                a = np.array(x, dtype=np.float64)
                out[k] = (a.shape, a.tobytes())
            except Exception:  # ragged / non numeric
                out[k] = ("raw", repr(x))
        return out
    return repr(obj)


# ---------------------------------------------------------------------------------------------------------
# comparing contents
# ---------------------------------------------------------------------------------------------------------
def extract(ret, kind):
    """Content of a dictionary returned by get_* reduced to the documented entries.
    Arrays must be float64 ndarrays, scalars Python floats; anything else becomes a sentinel string."""
    if kind == "wl":
        return {"wavelength": ret if type(ret) is float else "TYPE:" + type(ret).__name__}
    out = {}
    if not isinstance(ret, dict):
        return {"<return>": "TYPE:" + type(ret).__name__}
    for name, ndim in OUT_FIELDS[kind]:
        if name not in ret:
            out[name] = "MISSING"
            continue
        x = ret[name]
        if ndim == 0:
            out[name] = x if type(x) is float else "TYPE:" + type(x).__name__
        else:
            if isinstance(x, np.ndarray) and x.dtype == np.float64:
                out[name] = x
            else:
                out[name] = "TYPE:" + type(x).__name__
    return out


RTOL_INSTALL = 1e-12   # install_* convert units (x 1e6, x 1e-6, 10**x): a couple of roundings, not bit exact


def same_field(a, b, approx):
    if isinstance(a, str) or isinstance(b, str):
        return isinstance(a, str) and isinstance(b, str) and a == b
    if isinstance(a, float) and isinstance(b, float):
        if approx:
            return abs(a - b) <= RTOL_INSTALL * max(abs(a), abs(b))
        return struct.pack("<d", a) == struct.pack("<d", b)
    if isinstance(a, np.ndarray) and isinstance(b, np.ndarray):
        if a.shape != b.shape or a.dtype != b.dtype:
            return False
        if approx:
            return bool(np.all(np.abs(a - b) <= RTOL_INSTALL * np.maximum(np.abs(a), np.abs(b))))
        return a.tobytes() == b.tobytes()
    return False


def same_content(a, b, approx):
    """a, b: {field: value}"""
    if a.keys() != b.keys():
        return False
    return all(same_field(a[k], b[k], approx) for k in a)


def show(vd):
    if vd is None:
        return None
    return {k: (v.tolist() if isinstance(v, np.ndarray) else v) for k, v in vd.items()}


# ---------------------------------------------------------------------------------------------------------
# tiny fixed ADF files (layouts of DESIGN.md appendix A; expected numbers = float(printed text) followed by the
# documented unit conversion cm^-3 -> m^-3 (x 1e6), cm^3 -> m^3 (x 1e-6), log10 -> linear)
# ---------------------------------------------------------------------------------------------------------
def _f105(vals, per=8):
    return ["".join("%10.5f" % v for v in vals[i:i + per]) for i in range(0, len(vals), per)]


def _e93(vals, per=8):
    return ["".join(" %9.3E" % v for v in vals[i:i + per]) for i in range(0, len(vals), per)]


def _e82(vals, per=8):
    return ["".join(" %8.2E" % v for v in vals[i:i + per]) for i in range(0, len(vals), per)]


def _e102(vals, per=6):
    return ["".join("%10.2E" % v for v in vals[i:i + per]) for i in range(0, len(vals), per)]


def _rt(fmt, v):
    return float(fmt % v)


def adf11_file(variant):
    """carbon, Z1 = 1..2.  -> text, {z1: {'ne','te','rates'} in cherab units}"""
    if variant == "A":
        logne = [13.0, 14.5]
        logte = [0.5, 1.0, 2.25]
        off = 0.0
    else:
        logne = [12.25, 13.5, 14.75]
        logte = [0.75, 1.5]
        off = 0.31
    blocks = {}
    for z1 in (1, 2):
        blocks[z1] = [[-8.0 - 0.25 * i - 0.125 * j - z1 - off for j in range(len(logte))] for i in range(len(logne))]
    L = ["%5d%5d%5d%5d%5d     /%-19s/%s" % (6, len(logne), len(logte), 1, 2, "CARBON", "GCR PROJECT        "), "-" * 80]
    L += _f105(logne)
    L += _f105(logte)
    for z1 in (1, 2):
        L.append("-" * 20 + "/ IPRT=%2d  / IGRD=%2d  /" % (1, 1) + "-" * 8 + "/ Z1=%2d   / DATE= 13/10/99" % z1)
        for it in range(len(logte)):
            L += _f105([blocks[z1][i][it] for i in range(len(logne))])
    L += ["C" + "-" * 79, "C", "C  tiny fixed ADF11 file for C06"]
    exp = {}
    for z1 in (1, 2):
        exp[z1] = {
            "ne": np.array([10.0 ** _rt("%10.5f", x) * 1e6 for x in logne]),
            "te": np.array([10.0 ** _rt("%10.5f", x) for x in logte]),
            "rate": np.array([[10.0 ** _rt("%10.5f", x) * 1e-6 for x in row] for row in blocks[z1]]),
        }
    return "\n".join(L) + "\n", exp


def adf2x_file(variant, norm):
    """ADF21 / ADF22 layout.  norm = 1e-6 (stopping, emission) or 1 (population)."""
    if variant == "A":
        eb, dt, tt = [5e3, 4e4], [1e12, 1e13, 1e14], [1e1, 1e3]
        k = 1.0
    else:
        eb, dt, tt = [1e4, 3e4, 9e4], [2e12, 5e13], [2e1, 2e2, 2e3, 2e4]
        k = 2.5
    sv = [[k * 1e-7 * (1 + i + 10 * j) for j in range(len(dt))] for i in range(len(eb))]
    svt = [k * 1e-7 * (2 + n) for n in range(len(tt))]
    svref, tref, eref, nref = k * 9.734e-8, 2000.0, 6.5e4, 6e13
    L = ["%5d /SVREF=%9.3E /SPEC=%-2s   /DATE=%8s /CODE=%s" % (1, svref, "H", "23/10/97", "ADAS310"), "-" * 80,
         "%5d%5d /TREF=%9.3E" % (len(eb), len(dt), tref), "-" * 80]
    L += _e93(eb) + _e93(dt)
    L.append("-" * 80)
    for j in range(len(dt)):
        L += _e93([sv[i][j] for i in range(len(eb))])
    L.append("-" * 80)
    L.append("%5d /EREF=%9.3E /NREF=%9.3E" % (len(tt), eref, nref))
    L.append("-" * 80)
    L += _e93(tt)
    L.append("-" * 80)
    L += _e93(svt)
    f = lambda x: _rt("%9.3E", x)
    exp = {
        "e": np.array([f(x) for x in eb]), "n": np.array([f(x) * 1e6 for x in dt]), "t": np.array([f(x) for x in tt]),
        "sen": np.array([[f(x) * norm for x in row] for row in sv]), "st": np.array([f(x) * norm for x in svt]),
        "eref": f(eref), "nref": f(nref) * 1e6, "tref": f(tref), "sref": f(svref) * norm,
    }
    return "\n".join(L) + "\n", exp


def adf15_file(variant):
    """hydrogen-style ADF15 for H0.  A: EXCIT 3-2, RECOM 3-2, EXCIT 4-2;  B: adds CHEXC 2-1, other numbers."""
    if variant == "A":
        ne, te, k = [1e10, 1e12, 1e14], [1.0, 10.0], 1.0
        blocks = [(6561.9, 3, 2, "EXCIT"), (6561.9, 3, 2, "RECOM"), (4860.0, 4, 2, "EXCIT")]
    else:
        ne, te, k = [5e9, 5e13], [0.5, 5.0, 50.0], 3.5
        blocks = [(6562.8, 3, 2, "EXCIT"), (6562.8, 3, 2, "RECOM"), (4861.3, 4, 2, "EXCIT"), (1215.2, 2, 1, "CHEXC")]
    L = ["%5d    /H 0 PHOTON EMISSIVITY COEFFICIENTS/" % len(blocks)]
    tabs = []
    for b, (wl, up, lo, typ) in enumerate(blocks, 1):
        pec = [[k * 1e-9 * (b + i + 100 * j) for j in range(len(te))] for i in range(len(ne))]
        tabs.append(pec)
        L.append("%8.1fA%5d%5d /FILMEM = bndlfl  /TYPE = %-5s /INDM = T /ISEL = %4d" % (wl, len(ne), len(te), typ, b))
        L += _e82(ne) + _e82(te)
        for i in range(len(ne)):
            L += _e82(pec[i])
    L += ["C" + "-" * 79, "C", "C  ISEL  WAVELENGTH      TRANSITION       TYPE", "C  ----  ----------  ----------------   -----"]
    for b, (wl, up, lo, typ) in enumerate(blocks, 1):
        L.append("C  %3d.  %9.1f      N=%2d - N=%2d      %-5s" % (b, wl, up, lo, typ))
    L += ["C", "C" + "-" * 79]
    f = lambda x: _rt("%8.2E", x)
    exp = []
    for (wl, up, lo, typ), pec in zip(blocks, tabs):
        exp.append({"type": typ, "tr": [up, lo], "wl": _rt("%.1f", wl) / 10.0,
                    "ne": np.array([f(x) * 1e6 for x in ne]), "te": np.array([f(x) for x in te]),
                    "rate": np.array([[f(x) * 1e-6 for x in row] for row in pec])})
    return "\n".join(L) + "\n", exp


def adf12_file(variant):
    """two blocks (n=3-2 and n=4-2)."""
    if variant == "A":
        k, shp = 1.0, (2, 3, 2, 1, 2)
    else:
        k, shp = 4.0, (3, 1, 2, 2, 1)
    trs = [(3, 2), (4, 2)]
    L = ["%5d" % len(trs)]
    exp = []
    for b, (up, lo) in enumerate(trs, 1):
        hdr = list(" " * 60)
        txt = " C+6 + H(1S)  RECEIVER=C DONOR=H   N="
        hdr[:len(txt)] = txt
        hdr[38:40] = "%2d" % up
        hdr[40] = "-"
        hdr[41:43] = "%2d" % lo
        L.append("".join(hdr).rstrip())
        qref = k * 1.5e-9 * b
        refs = [4e4, 1e3, 2.5e13, 2.0, 3.0]
        ener = [1e3 * (1 + i) for i in range(shp[0])]
        tiev = [1e2 * (1 + i) for i in range(shp[1])]
        dens = [1e12 * (1 + i) for i in range(shp[2])]
        zeff = [1.0 + i for i in range(shp[3])]
        bmag = [1.0 + 2 * i for i in range(shp[4])]
        q = lambda n, s: [k * 1e-9 * (b + s + 0.5 * i) for i in range(n)]
        qs = [q(shp[0], 1), q(shp[1], 2), q(shp[2], 3), q(shp[3], 4), q(shp[4], 5)]
        pad = lambda v, n: list(v) + [0.0] * (n - len(v))
        L += _e102([qref])
        L += _e102(refs)
        L.append("".join("%10d" % n for n in shp))
        for v, n in ((ener, 24), (qs[0], 24), (tiev, 12), (qs[1], 12), (dens, 24), (qs[2], 24), (zeff, 12), (qs[3], 12), (bmag, 12), (qs[4], 12)):
            L += _e102(pad(v, n))
        f = lambda x: _rt("%10.2E", x)
        exp.append({"tr": [up, lo], "content": {
            "eb": np.array([f(x) for x in ener]), "ti": np.array([f(x) for x in tiev]), "ni": np.array([f(x) * 1e6 for x in dens]),
            "z": np.array([f(x) for x in zeff]), "b": np.array([f(x) for x in bmag]),
            "qeb": np.array([f(x) * 1e-6 for x in qs[0]]), "qti": np.array([f(x) * 1e-6 for x in qs[1]]),
            "qni": np.array([f(x) * 1e-6 for x in qs[2]]), "qz": np.array([f(x) * 1e-6 for x in qs[3]]),
            "qb": np.array([f(x) * 1e-6 for x in qs[4]]), "qref": f(qref) * 1e-6}})
    return "\n".join(L) + "\n", exp


def adas_files():
    """-> {relative path: text}, {file id: expected}"""
    files, exp = {}, {}
    for v in ("A", "B"):
        for cls in ("scd", "acd", "ccd", "plt", "prb", "prc"):
            t, e = adf11_file(v)
            files["adf11/%s96/%s96_c_%s.dat" % (cls, cls, v)] = t
        exp["adf11" + v] = adf11_file(v)[1]
        t, e = adf2x_file(v, 1e-6)
        files["adf21/bms97#h/bms97#h_c6_%s.dat" % v] = t
        exp["adf21" + v] = e
        files["adf22/bme97#h/bme97#h_c6_%s.dat" % v] = t
        exp["bme" + v] = e
        t, e = adf2x_file(v, 1.0)
        files["adf22/bmp97#h/bmp97#h_2_c6_%s.dat" % v] = t
        exp["bmp" + v] = e
        t, e = adf15_file(v)
        files["adf15/pec12#h/pec12#h_pju#h0_%s.dat" % v] = t
        exp["adf15" + v] = e
        t, e = adf12_file(v)
        files["adf12/qef93#h/qef93#h_c6_%s.dat" % v] = t
        exp["adf12" + v] = e
    return files, exp


# ---------------------------------------------------------------------------------------------------------
# the operation alphabet
# ---------------------------------------------------------------------------------------------------------
def build_alphabet():
    """Deterministic list of operations.  op = {fn, mode, items:[[fam,key,pay,sub]], valid, icls, core, group[, args]}.
    sub = donor metastable for beam CX, else None.  pay = [variant, salt] | ["bad", salt] | ["file", id, ...]"""
    ops = []
    salt = itertools.count(1)

    def P(v):
        return [v, next(salt)]

    def op(fn, mode, items, valid=True, icls="single", core=False, **kw):
        fams = {it[0] for it in items}
        group = kw.pop("group", None) or FAMILIES[sorted(fams)[0]]["group"]
        d = {"fn": fn, "mode": mode, "items": items, "valid": valid, "icls": icls, "core": core, "group": group}
        d.update(kw)
        ops.append(d)

    def add(fam, key, v, **kw):
        sub = kw.pop("sub", None)
        op(FAMILIES[fam]["add"], "add", [[fam, key, P(v), sub]], **kw)

    def upd(fam, entries, **kw):
        fn = kw.pop("fn", FAMILIES[fam]["upd"])
        op(fn, "upd", [[e[0], e[1], P(e[2]), (e[3] if len(e) > 3 else None)] for e in entries], **kw)

    # --- (species, charge) families
    for fam in ("ion", "rec", "line", "cont", "cxp"):
        add(fam, ["c", 0], 1, core=True)
        add(fam, ["c", 0], 2, core=True)
        add(fam, ["c", 1], 1, core=True)
        add(fam, ["c", 1], 2)
        add(fam, ["h", 0], 1)
        add(fam, ["d", 0], 2)
        add(fam, ["d", 1], 3)
        upd(fam, [[fam, ["c", 0], 1], [fam, ["c", 1], 2]], icls="same-file", core=True)
        upd(fam, [[fam, ["c", 1], 2], [fam, ["h", 0], 1], [fam, ["d", 0], 1]], icls="multi-file")
        add(fam, ["c", 0], "bad", valid=False, icls="bad-shape", core=True)
        add(fam, ["h", 2], 1, valid=False, icls="bad-charge")
        upd(fam, [[fam, ["c", 1], 2], [fam, ["c", 0], "bad"]], valid=False, icls="partial-bad", core=True)

    fam = "tcx"
    add(fam, ["h", 0, "c", 1], 1, core=True)
    add(fam, ["h", 0, "c", 1], 2, core=True)
    add(fam, ["h", 0, "c", 0], 1)
    add(fam, ["d", 0, "c", 1], 2)
    add(fam, ["h", 0, "h", 1], 1)
    upd(fam, [[fam, ["h", 0, "c", 0], 2], [fam, ["h", 0, "c", 1], 1]], icls="same-file", core=True)
    upd(fam, [[fam, ["h", 0, "c", 1], 2], [fam, ["h", 0, "h", 1], 1], [fam, ["d", 0, "c", 1], 1]], icls="multi-file")
    add(fam, ["h", 0, "c", 1], "bad", valid=False, icls="bad-shape")
    upd(fam, [[fam, ["h", 0, "c", 1], "bad"]], valid=False, icls="bad-shape", core=True)
    upd(fam, [[fam, ["h", 0, "h", 2], 1]], valid=False, icls="bad-charge")
    upd(fam, [[fam, ["h", 0, "c", 1], 2], [fam, ["h", 0, "c", 0], "bad"]], valid=False, icls="partial-bad", core=True)

    # --- PEC excitation / recombination (one update function for both classes)
    for fam in ("pexc", "prec"):
        add(fam, ["c", 1, TI], 1, core=True)
        add(fam, ["c", 1, TI], 2, core=True)
        add(fam, ["c", 1, TS], 1, core=True)
        add(fam, ["c", 1, TU], 2, icls="twin")
        add(fam, ["c", 0, TI], 1)
        add(fam, ["h", 0, TI], 2)
        add(fam, ["d", 0, TI], 3)
        add(fam, ["c", 1, TI], "bad", valid=False, icls="bad-shape", core=True)
        add(fam, ["h", 2, TI], 1, valid=False, icls="bad-charge")
    for fam in ("pexc", "prec"):
        upd(fam, [[fam, ["c", 1, TI], 2], [fam, ["c", 1, TS], 1]], icls="same-file", core=True)
        upd(fam, [[fam, ["c", 1, TS], 1], [fam, ["c", 1, TU], 2]], icls="twins-in-one-call")
        upd(fam, [[fam, ["c", 1, TI], 2], [fam, ["c", 1, TS], "bad"]], valid=False, icls="partial-bad", core=True)
    upd("pexc", [["pexc", ["c", 1, TI], 1], ["prec", ["c", 1, TI], 2], ["prec", ["h", 0, TI], 1]], icls="both-classes", core=True)
    upd("pexc", [["prec", ["c", 1, TS], 2], ["pexc", ["c", 0, TI], 1], ["pexc", ["d", 0, TI], 1]], icls="both-classes")

    fam = "ptcx"
    add(fam, ["h", 0, "c", 1, TI], 1, core=True)
    add(fam, ["h", 0, "c", 1, TI], 2, core=True)
    add(fam, ["h", 0, "c", 1, TS], 1, core=True)
    add(fam, ["h", 0, "c", 1, TU], 2, icls="twin")
    add(fam, ["d", 0, "c", 1, TI], 1)
    add(fam, ["h", 0, "c", 0, TI], 2)
    add(fam, ["h", 0, "h", 1, TI], 3)
    upd(fam, [[fam, ["h", 0, "c", 1, TI], 2], [fam, ["h", 0, "c", 1, TS], 1]], icls="same-file", core=True)
    upd(fam, [[fam, ["h", 0, "c", 1, TS], 1], [fam, ["h", 0, "c", 1, TU], 2]], icls="twins-in-one-call")
    upd(fam, [[fam, ["h", 0, "c", 1, TI], 1], [fam, ["d", 0, "c", 1, TI], 2], [fam, ["h", 0, "h", 1, TI], 1]], icls="multi-file")
    add(fam, ["h", 0, "c", 1, TI], "bad", valid=False, icls="bad-shape", core=True)
    add(fam, ["h", 0, "c", 7, TI], 1, valid=False, icls="bad-charge")
    add(fam, ["h", 1, "c", 1, TI], 1, valid=False, icls="bad-donor-charge")
    upd(fam, [[fam, ["h", 0, "c", 1, TI], 2], [fam, ["h", 0, "c", 1, TS], "bad"]], valid=False, icls="partial-bad", core=True)

    fam = "wl"
    add(fam, ["c", 1, TI], 1, core=True)
    add(fam, ["c", 1, TI], 2, core=True)
    add(fam, ["c", 1, TS], 1, core=True)
    add(fam, ["c", 1, TU], 2, icls="twin")
    add(fam, ["c", 0, TI], 1)
    add(fam, ["h", 0, TI], 2)
    add(fam, ["d", 0, TI], 3)
    upd(fam, [[fam, ["c", 1, TI], 2], [fam, ["c", 1, TS], 1]], icls="same-file", core=True)
    upd(fam, [[fam, ["c", 1, TS], 1], [fam, ["c", 1, TU], 2]], icls="twins-in-one-call")
    upd(fam, [[fam, ["c", 1, TI], 1], [fam, ["h", 0, TI], 1], [fam, ["d", 0, TI], 2]], icls="multi-file")
    add(fam, ["c", 1, TI], "bad", valid=False, icls="bad-value", core=True)
    add(fam, ["h", 2, TI], 1, valid=False, icls="bad-charge")
    upd(fam, [[fam, ["c", 1, TI], 2], [fam, ["c", 1, TS], "bad"]], valid=False, icls="partial-bad", core=True)

    # --- beam families
    fam = "bcx"
    add(fam, ["d", "c", 1, TI], 1, sub=1, core=True)
    add(fam, ["d", "c", 1, TI], 2, sub=1, core=True)
    add(fam, ["d", "c", 1, TI], 1, sub=2, core=True, icls="other-metastable")
    add(fam, ["d", "c", 1, TS], 2, sub=1)
    add(fam, ["d", "c", 1, TU], 1, sub=2, icls="twin")
    add(fam, ["h", "c", 1, TI], 1, sub=1)
    add(fam, ["d", "c", 0, TI], 2, sub=1)
    add(fam, ["d", "h", 1, TI], 3, sub=1)
    upd(fam, [[fam, ["d", "c", 1, TI], 2, 1], [fam, ["d", "c", 1, TI], 1, 2]], icls="same-file", core=True)
    upd(fam, [[fam, ["d", "c", 1, TS], 1, 1], [fam, ["d", "c", 1, TU], 2, 2]], icls="twins-in-one-call")
    upd(fam, [[fam, ["d", "c", 1, TI], 1, 1], [fam, ["h", "c", 1, TI], 2, 1], [fam, ["d", "h", 1, TI], 1, 2]], icls="multi-file")
    add(fam, ["d", "c", 1, TI], "bad", sub=1, valid=False, icls="bad-shape", core=True)
    add(fam, ["d", "c", 1, TI], 1, sub=-1, valid=False, icls="bad-metastable")
    add(fam, ["d", "h", 2, TI], 1, sub=1, valid=False, icls="bad-charge")
    upd(fam, [[fam, ["d", "c", 1, TI], 2, 2], [fam, ["d", "c", 1, TS], "bad", 1]], valid=False, icls="partial-bad", core=True)

    fam = "bst"
    add(fam, ["d", "c", 1], 1, core=True)
    add(fam, ["d", "c", 1], 2, core=True)
    add(fam, ["d", "c", 0], 1, core=True)
    add(fam, ["h", "c", 1], 2)
    add(fam, ["d", "h", 1], 1)
    add(fam, ["d", "d", 1], 3)
    upd(fam, [[fam, ["d", "c", 0], 2], [fam, ["d", "c", 1], 1], [fam, ["d", "h", 1], 2], [fam, ["h", "c", 1], 1]], icls="multi-file", core=True)
    add(fam, ["d", "c", 1], "bad", valid=False, icls="bad-shape", core=True)
    add(fam, ["d", "h", 2], 1, valid=False, icls="bad-charge")
    upd(fam, [[fam, ["d", "c", 1], 2], [fam, ["d", "c", 0], "bad"]], valid=False, icls="partial-bad", core=True)

    fam = "bpop"
    add(fam, ["d", 1, "c", 1], 1, core=True)
    add(fam, ["d", 1, "c", 1], 2, core=True)
    add(fam, ["d", 2, "c", 1], 1, core=True, icls="other-metastable")
    add(fam, ["d", 1, "c", 0], 2)
    add(fam, ["h", 1, "c", 1], 1)
    add(fam, ["d", 1, "h", 1], 3)
    upd(fam, [[fam, ["d", 1, "c", 1], 2], [fam, ["d", 2, "c", 1], 1], [fam, ["d", 1, "c", 0], 1], [fam, ["h", 1, "c", 1], 2]], icls="multi-file", core=True)
    add(fam, ["d", 1, "c", 1], "bad", valid=False, icls="bad-shape", core=True)
    add(fam, ["d", -1, "c", 1], 1, valid=False, icls="bad-metastable")
    add(fam, ["d", 1, "h", 2], 1, valid=False, icls="bad-charge")
    upd(fam, [[fam, ["d", 1, "c", 1], 2], [fam, ["d", 2, "c", 1], "bad"]], valid=False, icls="partial-bad", core=True)

    fam = "bem"
    add(fam, ["d", "c", 1, TI], 1, core=True)
    add(fam, ["d", "c", 1, TI], 2, core=True)
    add(fam, ["d", "c", 1, TS], 1, core=True)
    add(fam, ["d", "c", 1, TU], 2, icls="twin")
    add(fam, ["d", "c", 0, TI], 1)
    add(fam, ["h", "c", 1, TI], 2)
    add(fam, ["d", "h", 1, TI], 3)
    upd(fam, [[fam, ["d", "c", 1, TI], 2], [fam, ["d", "c", 1, TS], 1]], icls="same-file", core=True)
    upd(fam, [[fam, ["d", "c", 1, TS], 1], [fam, ["d", "c", 1, TU], 2]], icls="twins-in-one-call")
    upd(fam, [[fam, ["d", "c", 1, TI], 1], [fam, ["h", "c", 1, TI], 1], [fam, ["d", "h", 1, TI], 2]], icls="multi-file")
    add(fam, ["d", "c", 1, TI], "bad", valid=False, icls="bad-shape", core=True)
    add(fam, ["d", "h", 2, TI], 1, valid=False, icls="bad-charge")
    upd(fam, [[fam, ["d", "c", 1, TI], 2], [fam, ["d", "c", 1, TS], "bad"]], valid=False, icls="partial-bad", core=True)

    # --- install_* front-ends (two files each)
    def inst(fn, args, rel, items, group, core=False):
        ops.append({"fn": fn, "mode": "inst", "items": items, "valid": True, "icls": "file", "core": core, "group": group,
                    "args": args, "file": rel})

    for v in ("A", "B"):
        core = v == "A"
        fid = "adf11" + v
        for cls, fam, dz in (("scd", "ion", -1), ("acd", "rec", 0), ("plt", "line", -1), ("prb", "cont", 0), ("prc", "cxp", 0)):
            inst("install_adf11" + cls, ["c"], "adf11/%s96/%s96_c_%s.dat" % (cls, cls, v),
                 [[fam, ["c", z1 + dz], ["file", fid, z1], None] for z1 in (1, 2)], FAMILIES[fam]["group"], core)
        inst("install_adf11ccd", ["h", 0, "c"], "adf11/ccd96/ccd96_c_%s.dat" % v,
             [["tcx", ["h", 0, "c", z1], ["file", fid, z1], None] for z1 in (1, 2)], "adf11", core)
        m = 1 if v == "A" else 2
        inst("install_adf12", ["d", m, "c", 1], "adf12/qef93#h/qef93#h_c6_%s.dat" % v,
             [["bcx", ["d", "c", 1, [3, 2]], ["file", "adf12" + v, 0], m], ["bcx", ["d", "c", 1, [4, 2]], ["file", "adf12" + v, 1], m]], "beam", core)
        items = []
        nblk = 3 if v == "A" else 4
        for b in range(nblk):
            typ = ("EXCIT", "RECOM", "EXCIT", "CHEXC")[b]
            tr = ([3, 2], [3, 2], [4, 2], [2, 1])[b]
            if typ == "EXCIT":
                items.append(["pexc", ["h", 0, tr], ["file", "adf15" + v, b], None])
            elif typ == "RECOM":
                items.append(["prec", ["h", 0, tr], ["file", "adf15" + v, b], None])
            else:
                items.append(["ptcx", ["h", 0, "h", 1, tr], ["file", "adf15" + v, b, "cx3d"], None])
        seen = []
        for b in range(nblk):
            tr = ([3, 2], [3, 2], [4, 2], [2, 1])[b]
            if tr not in seen:
                seen.append(tr)
                items.append(["wl", ["h", 0, tr], ["file", "adf15" + v, b, "wl"], None])
        inst("install_adf15", ["h", 0], "adf15/pec12#h/pec12#h_pju#h0_%s.dat" % v, items, "pec", True)
        inst("install_adf21", ["d", "c", 1], "adf21/bms97#h/bms97#h_c6_%s.dat" % v,
             [["bst", ["d", "c", 1], ["file", "adf21" + v], None]], "beam", core)
        inst("install_adf22bmp", ["d", m, "c", 1], "adf22/bmp97#h/bmp97#h_2_c6_%s.dat" % v,
             [["bpop", ["d", m, "c", 1], ["file", "bmp" + v], None]], "beam", core)
        tr = TI if v == "A" else TS
        inst("install_adf22bme", ["d", "c", 1, tr], "adf22/bme97#h/bme97#h_c6_%s.dat" % v,
             [["bem", ["d", "c", 1, tr], ["file", "bme" + v], None]], "beam", core)
    for i, o in enumerate(ops):
        o["i"] = i
    # "repeat + new": a multi-group update whose FIRST group repeats exactly (same payload, same numbers) what an
    # earlier add of the same key stores, followed by groups carrying new data - an update function that skips work
    # for unchanged content must still write the rest of the call
    import copy as _copy
    first_add = {}
    for o in ops:
        if o["mode"] == "add" and o["valid"] and len(o["items"]) == 1:
            it = o["items"][0]
            first_add.setdefault((it[0], repr(it[1]), it[3]), it[2])
    for o in list(ops):
        if o["mode"] == "upd" and o["valid"] and o["icls"] == "multi-file":
            it0 = o["items"][0]
            pay = first_add.get((it0[0], repr(it0[1]), it0[3]))
            if pay is None:
                continue
            c = _copy.deepcopy(o)
            c["items"][0][2] = list(pay)
            for it in c["items"][1:]:
                it[2] = P(it[2][0])
            c["icls"] = "repeat+new"
            c["core"] = True
            c["i"] = len(ops)
            ops.append(c)
    return ops


def file_content(pay, file_exp):
    """Expected content of an install item."""
    fid = pay[1]
    e = file_exp[fid]
    if fid.startswith("adf11"):
        return dict(e[pay[2]])
    if fid.startswith("adf12"):
        return dict(e[pay[2]]["content"])
    if fid.startswith("adf15"):
        blk = e[pay[2]]
        if len(pay) > 3 and pay[3] == "wl":
            return {"wavelength": blk["wl"]}
        if len(pay) > 3 and pay[3] == "cx3d":
            # documented in install.py: "CX rates for Tdon = Trec ... converting to 3D function of Ne, Te, Tdon"
            r = np.repeat(blk["rate"][:, :, None], 2, axis=2)
            return {"ne": blk["ne"], "te": blk["te"], "td": np.array([0.01, 10000.0]), "rate": r}
        return {"ne": blk["ne"], "te": blk["te"], "rate": blk["rate"]}
    return dict(e)


def read_universe(ops):
    """Every slot any operation can touch, plus aliases and never-written keys, per family (deterministic order)."""
    slots = []
    seen = set()

    def push(fam, key):
        s = (fam, repr(key))        # distinct spellings of one slot (transition twins) are read separately
        if s not in seen:
            seen.add(s)
            slots.append((fam, list(key)))

    for o in ops:
        for fam, key, pay, sub in o["items"]:
            push(fam, key)
    # aliases and never written keys
    for fam, f in FAMILIES.items():
        base = {"sp": "c", "q": 1, "donor": "h" if fam in ("tcx", "ptcx") else "d", "dq": 0, "recv": "c", "rq": 1,
                "beam": "d", "target": "c", "m": 1}
        if f["tr"] is not None:
            for tr in (TI_STR, T_NEVER):
                push(fam, [tr if n == "tr" else base[n] for n in f["key"]])
        # a species / charge that no operation writes
        alt = dict(base, sp="d", recv="d", target="d", q=2, rq=2)
        push(fam, [TI if n == "tr" else alt[n] for n in f["key"]])
    return slots
