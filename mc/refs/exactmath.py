"""Exact / high-precision scalar references used by the lattice checks (C13).

Nothing here calls libm for a *decision*: remainders and square-root enclosures are done in rational
arithmetic on the exact values of the doubles, the arctangent in 60-digit decimal arithmetic.
"""
import math
from decimal import Decimal, getcontext, localcontext
from fractions import Fraction

_PREC = 60


def mod_exact(x, p):
    """The mathematical x mod p in [0, p) for doubles x, p (p > 0), as a Fraction (exact)."""
    fx, fp = Fraction(x), Fraction(p)
    return fx - fp * (fx // fp)  # floor division of Fractions is exact


def circular_distance(a, b, p):
    """Distance between a and b on the circle of circumference p (all Fractions)."""
    d = abs(a - b) % p
    return min(d, p - d)


def sqrt_within_ulps(r_obs, q, k):
    """Is the double r_obs within k ulp(r_obs) of sqrt(q), q a non-negative Fraction?  Decided exactly by
    squaring the end points of the enclosure."""
    if not (r_obs >= 0.0) or math.isinf(r_obs):
        return False
    u = Fraction(math.ulp(r_obs))
    r = Fraction(r_obs)
    lo = r - k * u
    hi = r + k * u
    if lo < 0:
        lo = Fraction(0)
    return lo * lo <= q <= hi * hi


def _atan_small(t):
    """atan(t) for Decimal 0 <= t <= 1 in the current context: halve the angle until t < 0.05, then Taylor."""
    n = 0
    one = Decimal(1)
    while t > Decimal("0.05"):
        t = t / (one + (one + t * t).sqrt())
        n += 1
    t2 = t * t
    term = t
    s = t
    k = 1
    eps = Decimal(10) ** (-(getcontext().prec + 5))
    while True:
        term = -term * t2
        k += 2
        d = term / k
        s += d
        if abs(d) <= eps * abs(s) or d == 0:
            break
    return s * (2 ** n)


def _pi():
    # Machin: pi = 16 atan(1/5) - 4 atan(1/239)
    return 16 * _atan_small(Decimal(1) / 5) - 4 * _atan_small(Decimal(1) / 239)


with localcontext() as _c:
    _c.prec = _PREC + 10
    PI = +_pi()


def atan2_ref(y, x):
    """The mathematical polar angle of the point (x, y) in (-pi, pi] as a 60-digit Decimal, or None at the
    origin.  Signed zeros are plain zeros here: (x < 0, y = -0.0) has angle +pi."""
    with localcontext() as c:
        c.prec = _PREC
        dx, dy = Decimal(x), Decimal(y)  # exact
        ax, ay = abs(dx), abs(dy)
        if ax == 0 and ay == 0:
            return None
        if ay == 0:
            a = Decimal(0)
        elif ax == 0:
            a = PI / 2
        elif ax >= ay:
            a = _atan_small(ay / ax)
        else:
            a = PI / 2 - _atan_small(ax / ay)
        if dx < 0:
            a = PI - a
        if dy < 0:
            a = -a
        return +a


def angle_within_ulps(phi_obs, y, x, k):
    """Is the double phi_obs within k ulp of the exact polar angle of (x, y)?  (ulp taken at the exact angle
    rounded to double; at the origin any phi in (-pi, pi] is accepted).  Returns (ok, reference as float)."""
    ref = atan2_ref(y, x)
    if ref is None:
        return (-math.pi < phi_obs <= math.pi), None
    rf = float(ref)
    u = Decimal(math.ulp(rf))
    with localcontext() as c:
        c.prec = _PREC
        ok = abs(Decimal(phi_obs) - ref) <= k * u
    return ok, rf


def unit_direction(x, y):
    """(cos, sin) of the polar angle of (x, y) computed without any inverse trigonometric function
    (scaled by the larger magnitude so that subnormals and 1e150 are handled); None at the origin."""
    m = max(abs(x), abs(y))
    if m == 0:
        return None
    xs, ys = x / m, y / m
    h = math.sqrt(xs * xs + ys * ys)  # in [1, sqrt 2]: no overflow / underflow
    return xs / h, ys / h
