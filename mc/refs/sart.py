"""Reference SART / constrained SART: a numpy transcription of the *documented* update rule.

Source of every line: the docstrings of ``invert_sart`` and ``invert_constrained_sart`` (and property C11).

    x_l^(i+1) = x_l^(i) + omega / W_(+,l) * sum_k  W_(k,l) / W_(k,+) * (Phi_k - Phihat_k),      Phihat = W x^(i)
    W_(k,+) = sum_l W_(k,l)   (length of ray k),     W_(+,l) = sum_k W_(k,l)   (ray density of cell l)
    constrained:   x_l^(i+1) = f_sart(x_l^(i)) - beta_L * (L x^(i))_l          (L = supplied Laplacian matrix)
    the new iterate is clipped at zero (C11: "clipped at zero", "the solution is never negative")
    convergence_i = (|Phi|^2 - |W x^(i+1)|^2) / |Phi|^2      ("normalised squared difference between the measurement
                     and solution vectors", read as the normalised difference of the squared norms)
    stop after iteration i >= 2 when |convergence_i - convergence_(i-1)| < conv_tol, or after max_iterations.

Conventions for the 0/0 forms of the formula (geometry matrices of real sight lines have empty rows/columns):
a ray of zero length contributes nothing (all its W_(k,l) are 0), a cell crossed by no ray (W_(+,l) = 0)
receives no SART correction (it keeps its value, apart from the Laplacian term).

All functions are *batched over measurement vectors*: ``B`` has shape (N_d, nb) (one measurement vector per
column) and ``X`` has shape (N_s, nb); the update rule acts on every column independently.  Nothing here stops
the iteration: ``trajectory`` returns the unstopped iterates so that the caller can compare the implementation
step by step and decide the stopping index itself (``allowed_lengths``).
"""
import numpy as np


def sart_step(W, B, X, relaxation, lap=None, beta=0.0):
    """One documented update x^(i) -> x^(i+1) for every column; returns (new iterates, per-column 'clip active')."""
    ray_len = W.sum(axis=1)
    density = W.sum(axis=0)
    resid = B - W @ X                                                              # Phi - Phihat
    frac = np.zeros_like(W)
    np.divide(W, ray_len[:, None], out=frac, where=(ray_len[:, None] != 0))        # W_kl / W_k+ ; 0 for empty rays
    corr = frac.T @ resid                                                         # sum_k W_kl/W_k+ (Phi_k - Phihat_k)
    upd = np.zeros_like(X)
    np.divide(relaxation * corr, density[:, None], out=upd, where=(density[:, None] > 0))   # omega / W_+l
    new = X + upd
    if lap is not None:
        new = new - beta * (lap @ X)
    neg = new < 0
    return np.where(neg, 0.0, new), neg.any(axis=0)


def convergence_measure(W, B, X):
    """(|b|^2 - |W x|^2) / |b|^2 per column; NaN where |b| = 0 (the documented normalisation is undefined there)."""
    m2 = (B * B).sum(axis=0)
    Y = W @ X
    y2 = (Y * Y).sum(axis=0)
    out = np.full(m2.shape, np.nan)
    np.divide(m2 - y2, m2, out=out, where=(m2 != 0))
    return out


def trajectory(W, B, X0, relaxation, n_iter, lap=None, beta=0.0):
    """Unstopped iterates Xs[0..n_iter] (Xs[0] = X0), convergence values C (n_iter, nb) (row i = after iteration
    i+1) and 'clip active' flags (n_iter, nb)."""
    W = np.asarray(W, dtype=float)
    B = np.asarray(B, dtype=float)
    X = np.array(X0, dtype=float)
    Xs, C, clips = [X], [], []
    for _ in range(n_iter):
        X, cl = sart_step(W, B, X, relaxation, lap, beta)
        Xs.append(X)
        C.append(convergence_measure(W, B, X))
        clips.append(cl)
    return Xs, np.array(C), np.array(clips)


def allowed_lengths(conv, max_iterations, conv_tol, band_rel=1e-9, band_abs=4e-14):
    """Set of iteration counts the documented stopping rule allows for one measurement vector (``conv`` = its
    column of C).  Normally one element.  When |c_k - c_(k-1)| is within rounding distance of conv_tol (band), both
    'stop' and 'continue' are accepted.  Returns (allowed set, ambiguous flag).  NaN entries (|b| = 0) never stop
    the iteration."""
    allowed, ambiguous = set(), False
    for k in range(2, max_iterations + 1):        # k = number of iterations performed so far
        a, b = conv[k - 1], conv[k - 2]
        d = abs(a - b)
        if d != d:
            continue
        band = band_rel * conv_tol + band_abs * (1.0 + abs(a) + abs(b))
        if abs(d - conv_tol) <= band:
            ambiguous = True
            allowed.add(k)
            continue
        if d < conv_tol:
            allowed.add(k)
            return allowed, ambiguous
    allowed.add(max_iterations)
    return allowed, ambiguous
