"""Reference model for C02: line shapes written as lists of normalised components.

Everything here is derived from the *documented* formulae (class docstrings of cherab.core.model.lineshape,
Lomanowski et al. NF 55 (2015) 123028 for the Stark shape, Blom & Jupen PPCF 44 (2002) 1229 for the
parametrised Zeeman triplet) and evaluated with closed forms (erf, Gauss hypergeometric function).  Nothing is
imported from cherab.

A *sub-component* is a tuple  (name, pol, kind, centre, width, weight)
    pol    'pi' | 'sigma' | None (not polarisation resolved)
    kind   'G' (Gaussian, width = standard deviation)  |  'L' (modified Lorentzian, width = FWHM)
    weight fraction of the radiance carried by this sub-component in the unpolarised spectrum
The weights of a line sum to one.

Numerical values of the physical constants and the MSE Stark-splitting factor are *inputs* of the line-shape
models (they fix where a component sits, not how much radiance it carries); they are the values documented in
cherab/core/utility/constants.pyx and beam/mse.pyx.  (HC_EV_NM and BOHR_MAGNETON there are the CODATA-2014
numbers, 8e-9 away from CODATA-2018; immaterial to normalisation.)
"""
import math

import numpy as np
from scipy.special import erf, hyp2f1

ATOMIC_MASS = 1.66053906660e-27
ELEMENTARY_CHARGE = 1.602176634e-19
SPEED_OF_LIGHT = 299792458.0
HC_EV_NM = 1239.8419738620933
BOHR_MAGNETON = 5.78838180123e-5   # eV / T
MSE_STARK_SPLITTING = 2.77e-8      # nm per (V/m), documented constant of BeamEmissionMultiplet

GAUSS_CUT = 10.0       # documented: Gaussian evaluated inside +-10 sigma
LORENTZ_CUT = 50.0     # documented: modified Lorentzian truncated (and normalised) at +-50 FWHM
SIGMA2FWHM = 2.0 * math.sqrt(2.0 * math.log(2.0))


# ---------------------------------------------------------------------------------------------- vectors
def dot(a, b):
    return a[0] * b[0] + a[1] * b[1] + a[2] * b[2]


def norm(a):
    return math.sqrt(dot(a, a))


def unit(a):
    n = norm(a)
    return (a[0] / n, a[1] / n, a[2] / n)


def cross(a, b):
    return (a[1] * b[2] - a[2] * b[1], a[2] * b[0] - a[0] * b[2], a[0] * b[1] - a[1] * b[0])


# ---------------------------------------------------------------------------------------------- physics
def doppler(wavelength, direction, velocity):
    """lambda (1 + v.n / c), n = unit observation direction."""
    return wavelength * (1.0 + dot(velocity, unit(direction)) / SPEED_OF_LIGHT)


def thermal_sigma(wavelength, temperature, atomic_weight):
    """Doppler standard deviation  lambda/c sqrt(kT / m)."""
    return math.sqrt(temperature * ELEMENTARY_CHARGE / (atomic_weight * ATOMIC_MASS)) * wavelength / SPEED_OF_LIGHT


def zeeman_weights(b, direction):
    """(pi weight, weight of *each* sigma group).  Emission of a classical dipole triplet observed at angle theta to
    B: pi ~ sin^2/2, sigma+ = sigma- ~ (1 + cos^2)/4 = sin^2/4 + cos^2/2;  pi + 2 sigma = 1."""
    c2 = (dot(b, unit(direction)) / norm(b)) ** 2
    s2 = 1.0 - c2
    return 0.5 * s2, 0.25 * s2 + 0.5 * c2, c2


def gaussian_line(p):
    ts = p["ts"]
    if ts <= 0:
        return []
    return [("line", None, "G", doppler(p["wl"], p["dir"], p["vel"]), thermal_sigma(p["wl"], ts, p["mass"]), 1.0)]


def multiplet_line(p):
    """Every component keeps the thermal width evaluated at the rest wavelength of the (unresolved) line."""
    ts = p["ts"]
    if ts <= 0:
        return []
    sig = thermal_sigma(p["wl"], ts, p["mass"])
    return [("m%d" % i, None, "G", doppler(w, p["dir"], p["vel"]), sig, r)
            for i, (w, r) in enumerate(zip(p["multiplet"][0], p["multiplet"][1]))]


def _triplet(p, sig, wl_plus, wl_minus):
    b = p["b"]
    c0 = doppler(p["wl"], p["dir"], p["vel"])
    if norm(b) == 0:
        # no splitting; an ideal polariser (pi or sigma) passes half of the unpolarised light
        return [("line:pi-half", "pi", "G", c0, sig, 0.5), ("line:sigma-half", "sigma", "G", c0, sig, 0.5)]
    wpi, wsig, _ = zeeman_weights(b, p["dir"])
    return [("pi", "pi", "G", c0, sig, wpi),
            ("sigma+", "sigma", "G", doppler(wl_plus, p["dir"], p["vel"]), sig, wsig),
            ("sigma-", "sigma", "G", doppler(wl_minus, p["dir"], p["vel"]), sig, wsig)]


def zeeman_triplet(p):
    ts = p["ts"]
    if ts <= 0:
        return []
    sig = thermal_sigma(p["wl"], ts, p["mass"])
    bm = norm(p["b"])
    e0 = HC_EV_NM / p["wl"]
    return _triplet(p, sig, HC_EV_NM / (e0 - BOHR_MAGNETON * bm), HC_EV_NM / (e0 + BOHR_MAGNETON * bm))


def parametrised_zeeman_triplet(p):
    ts = p["ts"]
    if ts <= 0:
        return []
    alpha, beta, gamma = p["abg"]
    # W_Zeeman / W_Doppler = beta T^gamma, widths add in quadrature
    sig = thermal_sigma(p["wl"], ts, p["mass"]) * math.sqrt(1.0 + (beta * ts ** gamma) ** 2)
    bm = norm(p["b"])
    return _triplet(p, sig, p["wl"] + 0.5 * alpha * bm, p["wl"] - 0.5 * alpha * bm)


def zeeman_multiplet(p):
    """p['structure'] = {'pi': [(wl0, dwl_dB, r0, dr_dB), ...], 'sigma+': [...], 'sigma-': [...]}: wavelength and
    (unnormalised) ratio of every component are affine functions of |B|; ratios are normalised inside each group."""
    ts = p["ts"]
    if ts <= 0:
        return []
    sig = thermal_sigma(p["wl"], ts, p["mass"])
    b = p["b"]
    bm = norm(b)
    if bm == 0:
        c0 = doppler(p["wl"], p["dir"], p["vel"])
        return [("line:pi-half", "pi", "G", c0, sig, 0.5), ("line:sigma-half", "sigma", "G", c0, sig, 0.5)]
    wpi, wsig, _ = zeeman_weights(b, p["dir"])
    out = []
    for group, pol, wgt in (("pi", "pi", wpi), ("sigma+", "sigma", wsig), ("sigma-", "sigma", wsig)):
        comps = p["structure"][group]
        ratios = [r0 + dr * bm for (_, _, r0, dr) in comps]
        tot = math.fsum(ratios)
        for i, ((w0, dw, _, _), r) in enumerate(zip(comps, ratios)):
            out.append(("%s[%d]" % (group, i), pol, "G", doppler(w0 + dw * bm, p["dir"], p["vel"]), sig, wgt * r / tot))
    return out


A_POLY = [1., 0.15882, 1.04388, -1.38281, 0.46251, 0.82325, -0.58026]    # L/G <= 1, in powers of L/G, times G
B_POLY = [1., 0, 0.57575, 0.37902, -0.42519, -0.31525, 0.31718]          # L/G > 1, in powers of G/L, times L
C_POLY = [5.14820e-04, 1.38821e+00, -9.60424e-02, -3.83995e-02, -7.40042e-03, -5.47626e-04]


def stark_widths(p):
    """(FWHM of the pseudo-Voigt, Lorentzian weight eta, branch label) or None for a line without width."""
    cij, aij, bij = p["stark"]
    ne, te, ts = p["ne"], p["te"], p["ts"]
    fl = cij * ne ** aij / te ** bij if (ne > 0 and te > 0) else 0.0
    fg = SIGMA2FWHM * thermal_sigma(p["wl"], ts, p["mass"]) if ts > 0 else 0.0
    if fl == 0 and fg == 0:
        return None
    if fg == 0:
        fv = fl
    elif fl == 0:
        fv = fg
    elif fl <= fg:
        x = fl / fg
        fv = fg * sum(a * x ** n for n, a in enumerate(A_POLY))
    else:
        x = fg / fl
        fv = fl * sum(b * x ** n for n, b in enumerate(B_POLY))
    q = fl / fv
    if q < 0.01:
        return fv, 0.0, "gauss"
    if q > 0.999:
        return fv, 1.0, "lorentz"
    lq = math.log(q)
    return fv, math.exp(sum(c * lq ** n for n, c in enumerate(C_POLY))), "voigt"


def stark_broadened_line(p):
    w = stark_widths(p)
    if w is None:
        return []
    fv, eta, _ = w
    b = p["b"]
    bm = norm(b)
    c0 = doppler(p["wl"], p["dir"], p["vel"])
    if bm == 0:
        groups = [("line:pi-half", "pi", c0, 0.5), ("line:sigma-half", "sigma", c0, 0.5)]
    else:
        wpi, wsig, _ = zeeman_weights(b, p["dir"])
        e0 = HC_EV_NM / p["wl"]
        groups = [("pi", "pi", c0, wpi),
                  ("sigma+", "sigma", doppler(HC_EV_NM / (e0 - BOHR_MAGNETON * bm), p["dir"], p["vel"]), wsig),
                  ("sigma-", "sigma", doppler(HC_EV_NM / (e0 + BOHR_MAGNETON * bm), p["dir"], p["vel"]), wsig)]
    out = []
    for name, pol, c, wgt in groups:
        if eta < 1.0:
            out.append((name + ":G", pol, "G", c, fv / SIGMA2FWHM, wgt * (1.0 - eta)))
        if eta > 0.0:
            out.append((name + ":L", pol, "L", c, fv, wgt * eta))
    return out


def beam_emission_multiplet(p):
    """Motional Stark multiplet of a Balmer-alpha-like line: sigma0, sigma+-1, pi+-2, pi+-3, pi+-4 spaced by the
    Stark splitting.  sigma_to_pi = (sum of sigma lines)/(sum of pi lines); sigma1_to_sigma0 = (sigma+1 + sigma-1)/sigma0
    (= 2*1936/5490 = 0.705 for the Schroedinger intensities, the value used in cherab's demos);
    pi2_to_pi3, pi4_to_pi3 = line-to-line ratios."""
    tb = p["beam_temperature"]
    if tb <= 0 or p["te"] <= 0 or p["ne"] <= 0:
        return []
    speed = math.sqrt(2.0 * p["beam_energy"] * ELEMENTARY_CHARGE / ATOMIC_MASS)      # energy in eV/amu
    v = tuple(speed * x for x in unit(p["beam_dir"]))
    split = MSE_STARK_SPLITTING * norm(cross(v, p["b"]))
    c0 = doppler(p["wl"], p["dir"], v)
    sig = thermal_sigma(p["wl"], tb, p["beam_mass"])
    s2p, s10, p23, p43 = p["ratios"]
    sig_tot = s2p / (1.0 + s2p)
    pi_tot = 1.0 / (1.0 + s2p)
    s0 = sig_tot / (1.0 + s10)
    s1 = 0.5 * (sig_tot - s0)
    p3 = 0.5 * pi_tot / (1.0 + p23 + p43)
    out = [("sigma0", None, "G", c0, sig, s0)]
    for sgn, nm in ((1, "+"), (-1, "-")):
        out.append(("sigma%s1" % nm, None, "G", c0 + sgn * split, sig, s1))
        out.append(("pi%s2" % nm, None, "G", c0 + sgn * 2 * split, sig, p23 * p3))
        out.append(("pi%s3" % nm, None, "G", c0 + sgn * 3 * split, sig, p3))
        out.append(("pi%s4" % nm, None, "G", c0 + sgn * 4 * split, sig, p43 * p3))
    return out


MODELS = {
    "GaussianLine": gaussian_line,
    "MultipletLineShape": multiplet_line,
    "ZeemanTriplet": zeeman_triplet,
    "ParametrisedZeemanTriplet": parametrised_zeeman_triplet,
    "ZeemanMultiplet": zeeman_multiplet,
    "StarkBroadenedLine": stark_broadened_line,
    "BeamEmissionMultiplet": beam_emission_multiplet,
    "add_gaussian_line": lambda p: [("line", None, "G", p["centre"], p["width"], 1.0)] if p["width"] > 0 else [],
    "add_lorentzian_line": lambda p: [("line", None, "L", p["centre"], p["width"], 1.0)] if p["width"] > 0 else [],
}


# ---------------------------------------------------------------------------------------------- profiles
def stark_cdf(x, fwhm):
    """int_0^x du / (|u|^2.5 + (fwhm/2)^2.5)  (odd in x)  =  x/a 2F1(1, 2/5; 7/5; -|x|^2.5 / a)."""
    a = (0.5 * fwhm) ** 2.5
    ax = np.abs(x)
    return np.sign(x) * ax / a * hyp2f1(1.0, 0.4, 1.4, -ax ** 2.5 / a)


def edges(lo, hi, bins):
    """Bin edges of raysect's Spectrum(lo, hi, bins): lo + i * delta, delta = (hi - lo) / bins."""
    delta = (hi - lo) / bins
    return lo + delta * np.arange(bins + 1, dtype=np.float64), delta


def bin_average(kind, centre, width, e, delta):
    """Average over every bin of the unit-area profile (documented truncation applied)."""
    if kind == "G":
        # the +-10 sigma truncation removes 1.5e-23 of the area: far below every tolerance, not modelled
        c = 0.5 * erf((e - centre) / (math.sqrt(2.0) * width))
        return (c[1:] - c[:-1]) / delta
    k = LORENTZ_CUT * width
    x = np.clip(e - centre, -k, k)
    c = stark_cdf(x, width)
    tot = 2.0 * float(stark_cdf(np.array([k]), width)[0])
    return (c[1:] - c[:-1]) / (tot * delta)


def peak_density(kind, width):
    if kind == "G":
        return 1.0 / (width * math.sqrt(2.0 * math.pi))
    a = (0.5 * width) ** 2.5
    tot = 2.0 * float(stark_cdf(np.array([LORENTZ_CUT * width]), width)[0])
    return 1.0 / (a * tot)


def half_support(kind, width):
    return (GAUSS_CUT if kind == "G" else LORENTZ_CUT) * width


def core_halfwidth(kind, width):
    return width if kind == "G" else 0.5 * width


def select(comps, pol):
    """Sub-components seen through a polariser."""
    if pol == "no":
        return comps
    return [c for c in comps if c[1] == pol]


def spectrum(comps, radiance, lo, hi, bins):
    e, delta = edges(lo, hi, bins)
    out = np.zeros(bins)
    for (_, _, kind, c, w, wgt) in comps:
        out += radiance * wgt * bin_average(kind, c, w, e, delta)
    return out, delta


def scale(comps, radiance, delta):
    """Upper bound of any bin value of this line on a grid of this bin width: the comparison scale ('peak bin')."""
    return radiance * sum(wgt * min(peak_density(kind, w), 1.0 / delta) for (_, _, kind, _, w, wgt) in comps)
