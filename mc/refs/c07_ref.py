"""Reference model for C07 (OpenADAS provider): table generators, documented unit conversions and the
evaluation lattice.  Nothing here imports cherab; the numbers come from closed forms only.

Documented conversions (docstrings of cherab.openadas.rates.* and repository.*):
    photon coefficient [photon m^3/s] -> [W m^3]:  x * h c / lambda      (lambda in nm)
    beam coefficients:                             s = sen * st / sref
    beam CX:                                       q = qeb * qti * qni * qz * qb / qref^4
"""
import itertools
import math

# exact SI (2019) values
PLANCK = 6.62607015e-34
LIGHTSPEED = 299792458.0


def photon_to_watt(wavelength_nm):
    return PLANCK * LIGHTSPEED / (wavelength_nm * 1e-9)


# ---------------------------------------------------------------- axes
# strictly increasing, positive; 'awk' = awkward mantissas (log10 not representable, so that any
# libm-vs-numpy log10 disagreement at a node would show), 'dec' = exact decades.
_AXES = {
    "awk": {
        "ne": [2.3e17, 7.1e18, 5.9e19, 3.3e20, 8.7e20],
        "te": [0.37, 2.9, 41.0, 530.0, 6100.0],
        "td": [0.83, 5.3, 77.0, 910.0],
        "e": [4.7e3, 2.3e4, 6.1e4, 1.3e5, 4.9e5],
        "n": [3.1e17, 6.7e18, 2.9e19, 7.3e19, 5.1e20],
        "t": [0.53, 7.9, 130.0, 2100.0],
        "eb": [5.3e3, 1.9e4, 7.7e4, 2.1e5],
        "ti": [55.0, 310.0, 2900.0, 11000.0],
        "ni": [3.1e18, 2.7e19, 4.4e20, 9.1e20],
        "z": [1.0, 2.3, 4.1, 6.0],
        "b": [0.7, 2.9, 5.3, 8.1],
    },
    "dec": {
        "ne": [1e17, 1e18, 1e19, 1e20, 1e21],
        "te": [0.1, 1.0, 10.0, 100.0, 1000.0],
        "td": [1.0, 10.0, 100.0, 1000.0],
        "e": [1e3, 1e4, 1e5, 1e6, 1e7],
        "n": [1e17, 1e18, 1e19, 1e20, 1e21],
        "t": [1.0, 10.0, 100.0, 1000.0],
        "eb": [1e3, 1e4, 1e5, 1e6],
        "ti": [100.0, 1000.0, 2000.0, 10000.0],
        "ni": [1e18, 1e19, 1e20, 1e21],
        "z": [1.0, 2.0, 3.0, 4.0],
        "b": [1.0, 2.0, 3.0, 4.0],
    },
    # closely spaced nodes (ratio 1.0005 < the 'just outside' factor is NOT allowed: keep ratio >= 1.01)
    "tight": {
        "ne": [1.00e19, 1.02e19, 1.05e19, 1.07e19, 1.10e19],
        "te": [10.0, 10.3, 10.5, 10.9, 11.4],
        "td": [5.0, 5.1, 5.3, 5.6],
        "e": [5.00e4, 5.10e4, 5.25e4, 5.40e4, 5.60e4],
        "n": [2.00e19, 2.05e19, 2.11e19, 2.20e19, 2.30e19],
        "t": [100.0, 102.0, 105.0, 109.0],
        "eb": [4.0e4, 4.1e4, 4.3e4, 4.6e4],
        "ti": [1000.0, 1020.0, 1050.0, 1090.0],
        "ni": [5.0e19, 5.1e19, 5.3e19, 5.6e19],
        "z": [2.0, 2.05, 2.1, 2.2],
        "b": [3.0, 3.05, 3.1, 3.2],
    },
}


def log10_class(x):
    """How numpy's log10 (used for the spline knots of a table) compares with the C library's log10 (what a scalar
    evaluation uses) for this node: 'np>libm', 'np<libm' or 'same'.  Platform dependent; both are correctly
    rounded to within 1 ulp, they simply need not agree."""
    import numpy as np
    a = float(np.log10(np.array([x], dtype=np.float64))[0])
    b = math.log10(x)
    return "np>libm" if a > b else ("np<libm" if a < b else "same")


_ULP_CACHE = {}
_LOG_AXES = ("ne", "te", "td", "e", "n", "t", "eb")     # axes documented as interpolated in log space


def _ulp_node(x0, want, lo_limit, hi_limit):
    """first x = x0*(1 + k/1000), k = 0..9000, inside (lo_limit, hi_limit) whose log10_class is `want`; x0 if none"""
    key = (x0, want, lo_limit, hi_limit)
    if key not in _ULP_CACHE:
        found = x0
        for k in range(0, 9001):
            x = float("%.6g" % (x0 * (1.0 + 0.001 * k)))
            if lo_limit < x < hi_limit and log10_class(x) == want:
                found = x
                break
        _ULP_CACHE[key] = found
    return _ULP_CACHE[key]


def axis(name, n, variant):
    """variant 'ulp' = the 'awk' nodes with the first node moved (upwards, staying below the second node) to a value whose numpy log10 lies ABOVE
    the libm log10 and the last node to one whose numpy log10 lies BELOW it (when such values exist on this platform):
    the coincidence 'scalar log10 of the end node falls 1 ulp outside the knot range'."""
    g = _AXES["awk" if variant == "ulp" else variant][name]
    if n > len(g):
        raise ValueError("axis %s has only %d nodes" % (name, len(g)))
    g = list(g[:n])
    if variant == "ulp" and name in _LOG_AXES:
        if n >= 2:
            g[0] = _ulp_node(g[0], "np>libm", 0.0, g[1])
            g[-1] = _ulp_node(g[-1], "np<libm", g[-2], float("inf"))
        else:
            g[0] = _ulp_node(g[0], "np>libm", 0.0, float("inf"))
    return g


def _v(scale, idx, salt):
    """positive, pairwise distinct, asymmetric in the indices; spans ~3 decades"""
    i, j, k = (list(idx) + [0, 0, 0])[:3]
    return scale * (1.0 + 0.61 * i + 0.23 * j + 0.071 * k + 0.13 * i * j + 0.017 * salt) * 10.0 ** (0.9 * i - 0.55 * j + 0.3 * k)


def table(shape, scale, salt=0):
    """nested list of the given shape (1-, 2- or 3-D)"""
    if len(shape) == 1:
        return [_v(scale, (i,), salt) for i in range(shape[0])]
    if len(shape) == 2:
        return [[_v(scale, (i, j), salt) for j in range(shape[1])] for i in range(shape[0])]
    return [[[_v(scale, (i, j, k), salt) for k in range(shape[2])] for j in range(shape[1])] for i in range(shape[0])]


def at(tab, idx):
    for i in idx:
        tab = tab[i]
    return tab


# ---------------------------------------------------------------- payloads (plain python lists / floats)
def payload_2d(shape, variant, scale, factor=1.0, salt=0):
    ne, te = axis("ne", shape[0], variant), axis("te", shape[1], variant)
    t = [[factor * x for x in row] for row in table(shape, scale, salt)]
    return {"ne": ne, "te": te, "rate": t}


def payload_3d(shape, variant, scale, factor=1.0, salt=0):
    ne, te, td = axis("ne", shape[0], variant), axis("te", shape[1], variant), axis("td", shape[2], variant)
    t = [[[factor * x for x in r2] for r2 in r1] for r1 in table(shape, scale, salt)]
    return {"ne": ne, "te": te, "td": td, "rate": t}


def payload_beam(shape, variant, scale, factor=1.0, salt=0):
    """shape = (len e, len n, len t)"""
    e, n, t = axis("e", shape[0], variant), axis("n", shape[1], variant), axis("t", shape[2], variant)
    sen = [[factor * x for x in row] for row in table(shape[:2], scale, salt)]
    st = [x for x in table((shape[2],), scale * 1.7, salt + 5)]
    return {"e": e, "n": n, "t": t, "sen": sen, "st": st, "sref": scale * 2.3,
            "eref": e[0], "nref": n[0], "tref": t[0]}


def payload_beamcx(shape, variant, scale, factor=1.0, salt=0):
    """shape = (len eb, len ti, len ni, len z, len b)"""
    names = ("eb", "ti", "ni", "z", "b")
    d = {}
    for pos, (nm, ln) in enumerate(zip(names, shape)):
        d[nm] = axis(nm, ln, variant)
        f = factor if pos == 0 else 1.0
        d["q" + nm] = [f * x for x in table((ln,), scale * (1.0 + 0.3 * pos), salt + pos)]
    d["qref"] = scale * 1.9
    return d


# ---------------------------------------------------------------- expected values at nodes
def expected_2d(p, idx, conv=1.0):
    return at(p["rate"], idx) * conv


def expected_beam(p, idx, conv=1.0):
    i, j, k = idx
    return p["sen"][i][j] * p["st"][k] / p["sref"] * conv


def expected_beamcx(p, idx, conv=1.0):
    i, j, k, l, m = idx
    return p["qeb"][i] * p["qti"][j] * p["qni"][k] * p["qz"][l] * p["qb"][m] / p["qref"] ** 4 * conv


# ---------------------------------------------------------------- evaluation lattice
NEAR, FAR = 1.001, 10.0


def lattice(grids, positive_args):
    """grids: list of node lists in call-argument order; positive_args: indices of the arguments that are a
    density, a temperature or an energy.  Yields (kind, label, args, idx) with
        kind 'grid'   : every node (idx = node indices)
        kind 'inside' : geometric cell midpoints on every multi-point axis (single-point axes stay on the node)
        kind 'nonpos' : one positive_args argument in {0, -1}, the others on the first / last node;  label = arg index
        kind 'outside': one multi-point axis at min/10, min/1.001, max*1.001, max*10, others on a node;
                        label = (axis index, 'lo'|'hi', 'near'|'far')
        kind 'offnode': a single-point axis evaluated a decade away from its only node; label = axis index
    """
    nax = len(grids)
    for idx in itertools.product(*[range(len(g)) for g in grids]):
        yield "grid", None, tuple(g[i] for g, i in zip(grids, idx)), idx
    mids = []
    for g in grids:
        if len(g) > 1:
            mids.append([math.sqrt(a * b) for a, b in zip(g[:-1], g[1:])])
        else:
            mids.append([g[0]])
    if any(len(g) > 1 for g in grids):
        for pt in itertools.product(*mids):
            yield "inside", None, tuple(pt), None
    first = tuple(g[0] for g in grids)
    last = tuple(g[-1] for g in grids)
    for a in positive_args:
        for base in ((first,) if first == last else (first, last)):
            for bad in (0.0, -1.0):
                pt = list(base)
                pt[a] = bad
                yield "nonpos", a, tuple(pt), None
    centre = tuple(g[len(g) // 2] for g in grids)
    for a in range(nax):
        g = grids[a]
        if len(g) > 1:
            for side, dist, x in (("lo", "far", g[0] / FAR), ("lo", "near", g[0] / NEAR),
                                  ("hi", "near", g[-1] * NEAR), ("hi", "far", g[-1] * FAR)):
                for base in (centre, first):
                    pt = list(base)
                    pt[a] = x
                    yield "outside", (a, side, dist), tuple(pt), None
        else:
            for x in (g[0] / FAR, g[0] * FAR):
                pt = list(centre)
                pt[a] = x
                yield "offnode", a, tuple(pt), None


def shape_class(shape):
    """'NxM' for multi-point axes, '1' for single-point ones: (3,4)->'NxN', (1,3)->'1xN', (1,1)->'1x1'"""
    return "x".join("1" if s == 1 else "N" for s in shape)
