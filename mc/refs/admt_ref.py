"""Reference model for C20 (grid derivative operators and the ADMT regularisation operator).

Everything here is written from the mathematics, not from cherab/tools/inversions/admt_utils.py:

* `Poly2`     polynomials in (x, y) with exact power-rule differentiation (flux maps and test fields);
* `build_grid` rectangular grids of equal voxels: vertices, both index maps (three 1-D orderings), centres;
* `ref_operators` tensor-product finite-difference operators (only used to decide which flux maps have a
  non-vanishing *discrete* gradient, to check the precondition of the coefficient oracles and as fall-back
  operators handed to calculate_admt when the generated ones are not exact on quadratics);
* `coef_ref`  the coefficients of  div(D grad f)  in cylindrical geometry (axisymmetric, x = R, y = Z),

      div(D grad f) = (1/R) d/dR ( R (D grad f)_R ) + d/dZ (D grad f)_Z
                    = D_xx f_xx + 2 D_xy f_xy + D_yy f_yy + g_x f_x + g_y f_y ,
      g_i = d_j D_ij + D_ix / R ,

  with  D = D_perp n n^T + D_par b b^T = D_perp I + (D_par - D_perp) t t^T / |grad psi|^2 ,
  n = grad psi / |grad psi| , t = J grad psi = (-psi_y, psi_x)  (n n^T + b b^T = I).  Because t is divergence
  free (d_j t_j = -psi_yx + psi_xy = 0) and d_j t_i = (J H)_ij  (H = Hessian of psi),

      d_j D_ij = (D_par - D_perp) [ (J H t)_i / N  -  2 t_i (t^T H grad psi) / N^2 ] ,   N = |grad psi|^2 .

  `selftest` validates this closed form against 4th-order numerical differentiation of the flux form.
"""
import itertools
import math

import numpy as np

EPS = float(np.finfo(float).eps)


# ------------------------------------------------------------------------------------------- polynomials
class Poly2:
    """sum c[p,q] x^p y^q"""

    def __init__(self, terms):
        t = {}
        for (p, q), c in dict(terms).items():
            if c != 0:
                t[(int(p), int(q))] = t.get((int(p), int(q)), 0.0) + float(c)
        self.t = {k: v for k, v in t.items() if v != 0}

    def __add__(self, o):
        o = o if isinstance(o, Poly2) else Poly2({(0, 0): o})
        t = dict(self.t)
        for k, v in o.t.items():
            t[k] = t.get(k, 0.0) + v
        return Poly2(t)

    __radd__ = __add__

    def __mul__(self, o):
        if not isinstance(o, Poly2):
            return Poly2({k: v * o for k, v in self.t.items()})
        t = {}
        for (p, q), a in self.t.items():
            for (r, s), b in o.t.items():
                t[(p + r, q + s)] = t.get((p + r, q + s), 0.0) + a * b
        return Poly2(t)

    __rmul__ = __mul__

    def __sub__(self, o):
        return self + (-1.0) * o

    def __pow__(self, n):
        r = Poly2({(0, 0): 1.0})
        for _ in range(n):
            r = r * self
        return r

    def d(self, axis):
        t = {}
        for (p, q), c in self.t.items():
            if axis == 0 and p > 0:
                t[(p - 1, q)] = t.get((p - 1, q), 0.0) + c * p
            if axis == 1 and q > 0:
                t[(p, q - 1)] = t.get((p, q - 1), 0.0) + c * q
        return Poly2(t)

    def __call__(self, x, y):
        x = np.asarray(x, dtype=float)
        y = np.asarray(y, dtype=float)
        r = np.zeros(np.broadcast(x, y).shape)
        for (p, q), c in sorted(self.t.items()):
            r = r + c * x ** p * y ** q
        return r

    @property
    def degree(self):
        return max([p + q for (p, q) in self.t] or [0])

    def derivs(self, x, y):
        """psi_x, psi_y, psi_xx, psi_xy, psi_yy at the points"""
        px, py = self.d(0), self.d(1)
        return px(x, y), py(x, y), px.d(0)(x, y), px.d(1)(x, y), py.d(1)(x, y)


X = Poly2({(1, 0): 1.0})
Y = Poly2({(0, 1): 1.0})
ONE = Poly2({(0, 0): 1.0})


def quadratic(a, b, c, d, e):
    return Poly2({(1, 0): a, (0, 1): b, (2, 0): c, (1, 1): d, (0, 2): e})


def quadratic_family(values=(-1, 0, 1, 2)):
    """All (a, b, c, d, e) != 0 with entries in `values`, one representative per projective class
    (the operator is invariant under psi -> lambda psi, lambda != 0): primitive vector, first non-zero entry > 0."""
    seen, out = set(), []
    for v in itertools.product(values, repeat=5):
        if not any(v):
            continue
        g = 0
        for c in v:
            g = math.gcd(g, abs(c))
        w = tuple(c // g for c in v)
        first = next(c for c in w if c)
        if first < 0:
            w = tuple(-c for c in w)
        if w not in seen:
            seen.add(w)
            out.append(w)
    return out


def solovev_like(r0, kappa, y0):
    """kappa x^2 (y-y0)^2 + (x^2 - r0^2)^2 / 4 : nested surfaces around the axis (r0, y0)"""
    return kappa * (X ** 2) * ((Y - y0) ** 2) + 0.25 * ((X ** 2 - r0 * r0) ** 2)


def higher_family(tier):
    fam = [
        ("solovev:r0=1,k=1,y0=0", solovev_like(1.0, 1.0, 0.0)),
        ("solovev:r0=2,k=0.5,y0=-1", solovev_like(2.0, 0.5, -1.0)),
    ]
    if tier == "thorough":
        fam += [
            ("solovev:r0=1,k=2,y0=-1.5", solovev_like(1.0, 2.0, -1.5)),
            ("solovev:r0=2,k=1,y0=0.5", solovev_like(2.0, 1.0, 0.5)),
            ("solovev:r0=0.5,k=0.5,y0=0", solovev_like(0.5, 0.5, 0.0)),
            ("solovev:r0=3,k=2,y0=-2.5", solovev_like(3.0, 2.0, -2.5)),
            ("cubic:x^3/3-xy^2+2y", (1 / 3.0) * X ** 3 - X * Y ** 2 + 2.0 * Y),
            ("cubic:x^2y+y^3+x", X ** 2 * Y + Y ** 3 + X),
            ("quartic:x^4+y^4+xy", X ** 4 + Y ** 4 + X * Y),
            ("quartic:x^3y-xy^3+x-y", X ** 3 * Y - X * Y ** 3 + X - Y),
        ]
    return fam


# ------------------------------------------------------------------------------------------------ grids
ORDERS = ("col", "row", "snake")


def build_grid(nx, ny, dx, dy, x0, y0, order="col", vrot=0):
    """Rectangular grid of nx x ny equal voxels, lower-left corner (x0, y0).
    2-D index (ix, iy): ix grows with x, iy grows as y DEcreases (row 0 on top), the convention documented in
    admt_utils ('voxels are ordered from top left to bottom right') and used by its unit test.
    order: 'col' iy fastest (documented layout), 'row' ix fastest, 'snake' column-major boustrophedon."""
    seq = []
    if order == "col":
        seq = [(ix, iy) for ix in range(nx) for iy in range(ny)]
    elif order == "row":
        seq = [(ix, iy) for iy in range(ny) for ix in range(nx)]
    elif order == "snake":
        for ix in range(nx):
            col = [(ix, iy) for iy in range(ny)]
            seq += col if ix % 2 == 0 else col[::-1]
    else:
        raise ValueError(order)
    m12, m21 = {}, {}
    n = nx * ny
    IX = np.zeros(n, dtype=int)
    IY = np.zeros(n, dtype=int)
    XC = np.zeros(n)
    YC = np.zeros(n)
    verts = np.zeros((n, 4, 2))
    corner = [(+1, +1), (+1, -1), (-1, -1), (-1, +1)]
    corner = corner[vrot % 4:] + corner[:vrot % 4]
    for i, (ix, iy) in enumerate(seq):
        m12[i] = (ix, iy)
        m21[(ix, iy)] = i
        IX[i], IY[i] = ix, iy
        xc = x0 + (ix + 0.5) * dx
        yc = y0 + (ny - 1 - iy + 0.5) * dy
        XC[i], YC[i] = xc, yc
        for k, (sx, sy) in enumerate(corner):
            verts[i, k, 0] = xc + sx * dx / 2
            verts[i, k, 1] = yc + sy * dy / 2
    if vrot % 2:
        # the same two maps with their entries inserted in another order (equal dicts: 1-D index and (ix, iy) are the KEYS, the
        # position of an entry in the dict means nothing)
        m12 = dict(sorted(m12.items(), key=lambda kv: (-(kv[0] % 3), -kv[0])))
        m21 = dict(sorted(m21.items(), key=lambda kv: (kv[0][1], -kv[0][0])))
    interior = (IX > 0) & (IX < nx - 1) & (IY > 0) & (IY < ny - 1)
    colcls = np.where(IX == 0, "left-col", np.where(IX == nx - 1, "right-col", "inner-col"))
    rowcls = np.where(IY == 0, "top-row", np.where(IY == ny - 1, "bottom-row", "inner-row"))
    return dict(nx=nx, ny=ny, dx=dx, dy=dy, x0=x0, y0=y0, order=order, n=n, verts=verts, m12=m12, m21=m21,
                IX=IX, IY=IY, X=XC, Y=YC, interior=interior, colcls=colcls, rowcls=rowcls,
                L=float(max(np.abs(XC).max() + dx, np.abs(YC).max() + dy)), h=float(min(dx, dy)))


def cell_class(g, i):
    c, r = str(g["colcls"][i]), str(g["rowcls"][i])
    if c == "inner-col" and r == "inner-row":
        return "interior"
    if c == "inner-col":
        return r.replace("-row", "-edge")
    if r == "inner-row":
        return c.replace("-col", "-edge")
    return r.replace("-row", "") + "-" + c.replace("-col", "") + "-corner"


def _d1(n, h):
    """first difference along an index direction: central inside, one-sided at both ends"""
    m = np.zeros((n, n))
    for i in range(n):
        if i == 0:
            m[i, 0], m[i, 1] = -1 / h, 1 / h
        elif i == n - 1:
            m[i, n - 2], m[i, n - 1] = -1 / h, 1 / h
        else:
            m[i, i - 1], m[i, i + 1] = -0.5 / h, 0.5 / h
    return m


def _d2(n, h):
    """second difference: 3-point inside; at the ends the one-sided 3-point formula (n >= 3) or zero (n == 2)"""
    m = np.zeros((n, n))
    for i in range(n):
        j = min(max(i, 1), n - 2) if n >= 3 else None
        if j is None:
            continue
        m[i, j - 1], m[i, j], m[i, j + 1] = 1 / h ** 2, -2 / h ** 2, 1 / h ** 2
    return m


def ref_operators(g):
    """Tensor-product operators on the grid (y index runs downwards => minus sign for d/dy)."""
    nx, ny, dx, dy = g["nx"], g["ny"], g["dx"], g["dy"]
    IX, IY = g["IX"], g["IY"]

    def lift(a, b):
        return a[IX[:, None], IX[None, :]] * b[IY[:, None], IY[None, :]]

    ix_, iy_ = np.eye(nx), np.eye(ny)
    d1x, d1y = _d1(nx, dx), -_d1(ny, dy)
    return dict(Dx=lift(d1x, iy_), Dy=lift(ix_, d1y), Dxx=lift(_d2(nx, dx), iy_), Dyy=lift(ix_, _d2(ny, dy)),
                Dxy=lift(d1x, d1y))


OPS = ("Dx", "Dy", "Dxx", "Dxy", "Dyy")
TERMS = ("cx", "cy", "cxx", "cxy", "cyy")          # coefficient multiplying the operator of the same index
MONO = ("x", "y", "x^2", "xy", "y^2")


def local_monomials(g):
    """M[k][i, j] = k-th monomial of (x_j - x_i, y_j - y_i)"""
    ddx = g["X"][None, :] - g["X"][:, None]
    ddy = g["Y"][None, :] - g["Y"][:, None]
    return [ddx, ddy, ddx * ddx, ddx * ddy, ddy * ddy]


# expected response of operator k to local monomial m at a cell where the operator is exact on quadratics
EXACT_RESPONSE = np.diag([1.0, 1.0, 2.0, 1.0, 2.0])


def ops_exact_on_quadratics(ops, g, mono):
    """precondition of the coefficient oracles: at interior cells all five operators are exact on quadratics"""
    it = g["interior"]
    if not it.any():
        return True
    scale = 64 * EPS * (1 + g["L"] / g["h"])
    for k, name in enumerate(OPS):
        o = ops[name][it]
        if np.abs(o.sum(axis=1)).max() > scale * np.abs(o).sum(axis=1).max():
            return False
        for m in range(5):
            r = (o * mono[m][it]).sum(axis=1)
            bound = scale * (np.abs(o) * np.abs(mono[m][it])).sum(axis=1).max() + 1e-12
            if np.abs(r - EXACT_RESPONSE[k, m]).max() > bound:
                return False
    return True


# ------------------------------------------------------------------------------------- the continuous operator
def coef_ref(px, py, pxx, pxy, pyy, R, aniso):
    """coefficients (g_x, g_y, D_xx, D_xy, D_yy) of div(D grad f), D_par = 1, D_perp = 1/aniso"""
    dpar = 1.0
    dperp = 1.0 / aniso
    delta = dpar - dperp
    N = px * px + py * py
    tx, ty = -py, px
    Dxx = dperp + delta * tx * tx / N
    Dxy = delta * tx * ty / N
    Dyy = dperp + delta * ty * ty / N
    Htx = pxx * tx + pxy * ty
    Hty = pxy * tx + pyy * ty
    JHtx, JHty = -Hty, Htx
    tHg = tx * (pxx * px + pxy * py) + ty * (pxy * px + pyy * py)
    gx = delta * (JHtx / N - 2 * tx * tHg / N ** 2) + Dxx / R
    gy = delta * (JHty / N - 2 * ty * tHg / N ** 2) + Dxy / R
    return np.array([gx, gy, Dxx, Dxy, Dyy])


def _flux_div_numeric(psi, f, x, y, aniso, h=2e-3):
    """div(D grad f) from the flux form with 4th-order central differences of the analytic flux"""
    psx, psy, fx, fy = psi.d(0), psi.d(1), f.d(0), f.d(1)

    def flux(xx, yy):
        gx_, gy_ = psx(xx, yy), psy(xx, yy)
        N = gx_ * gx_ + gy_ * gy_
        nx_, ny_ = gx_ / np.sqrt(N), gy_ / np.sqrt(N)
        bx_, by_ = -ny_, nx_
        a, b = fx(xx, yy), fy(xx, yy)
        dn = nx_ * a + ny_ * b
        db = bx_ * a + by_ * b
        return (1.0 / aniso) * dn * nx_ + 1.0 * db * bx_, (1.0 / aniso) * dn * ny_ + 1.0 * db * by_

    def d4(fun, t):
        return (-fun(t + 2 * h) + 8 * fun(t + h) - 8 * fun(t - h) + fun(t - 2 * h)) / (12 * h)

    ddx = d4(lambda t: t * flux(t, y)[0], x)
    ddy = d4(lambda t: flux(x, t)[1], y)
    return ddx / x + ddy


def selftest():
    """closed-form coefficients == numerically differentiated flux form, on a few polynomials/points"""
    psis = [quadratic(1, 2, -1, 1, 2), solovev_like(1.0, 1.0, 0.0), X ** 3 * Y - X * Y ** 3 + X - Y]
    fs = [X, Y, X * X, X * Y, Y * Y, X ** 3 - 2 * X * Y * Y + Y, X * X * Y * Y]
    pts = [(1.4, 0.3), (0.6, -0.5), (2.2, 1.1)]
    for psi in psis:
        for (x, y) in pts:
            d = psi.derivs(x, y)
            if d[0] ** 2 + d[1] ** 2 < 1e-2:
                continue
            for a in (1.0, 3.0, 1e3):
                c = coef_ref(*d, x, a)
                for f in fs:
                    fx, fy, fxx, fxy, fyy = f.derivs(x, y)
                    closed = c[0] * fx + c[1] * fy + c[2] * fxx + 2 * c[3] * fxy + c[4] * fyy
                    num = _flux_div_numeric(psi, f, x, y, a)
                    if abs(closed - num) > 1e-6 * (1 + abs(closed)):
                        raise AssertionError("reference self-test failed: closed %r numeric %r" % (closed, num))
    # anisotropy one: the cylindrical Laplacian whatever psi
    c = coef_ref(0.3, -1.2, 0.7, 2.0, -0.4, 1.7, 1.0)
    if np.abs(c - np.array([1 / 1.7, 0, 1, 0, 1])).max() > 1e-14:
        raise AssertionError("reference self-test failed: anisotropy one is not the Laplacian")
    return True


# ------------------------------------------------------------------------------------ row decomposition
class RowDecomposer:
    """Writes row mismatches as sum_k coef_k * (row of operator k), k in TERMS order, to name the coefficient
    that is off.  Rows that are parallel to an earlier one (at left/right boundary cells the generated Dxx row is a
    multiple of the Dx row, at top/bottom Dyy of Dy) are attributed to the earlier, lower-order term.  The
    pseudo-inverses are prepared once per grid so that labelling thousands of rows is a pair of einsums."""

    def __init__(self, ops):
        rows = [np.asarray(ops[k], dtype=float) for k in OPS]
        n = rows[0].shape[0]
        self.S = np.zeros((n, 5, n))
        self.P = np.zeros((n, 5, n))
        self.rmax = np.zeros((n, 5))
        for i in range(n):
            reps, idx = [], []
            for k in range(5):
                row = rows[k][i]
                nr = np.linalg.norm(row)
                if nr == 0:
                    continue
                if any(abs(np.dot(r, row)) > (1 - 1e-12) * np.linalg.norm(r) * nr for r in reps):
                    continue
                reps.append(row)
                idx.append(k)
            if not reps:
                continue
            Si = np.array(reps)
            self.S[i, idx] = Si
            self.P[i, idx] = np.linalg.pinv(Si.T)
            self.rmax[i, idx] = np.abs(Si).max(axis=1)

    def label_codes(self, delta, rows, tol):
        """delta: (m, n) mismatching rows, rows: their indices, tol: (m,) absolute resolution.
        Returns integer codes: bit k = term k significant, bit 5 = residual not explained by the five operators."""
        coef = np.einsum("mkj,mj->mk", self.P[rows], delta)
        res = delta - np.einsum("mk,mkj->mj", coef, self.S[rows])
        sig = np.abs(coef) * self.rmax[rows] > tol[:, None]
        code = (sig * (1 << np.arange(5))[None, :]).sum(axis=1) + 32 * (np.abs(res).max(axis=1) > tol)
        return code.astype(int)

    @staticmethod
    def code_label(code):
        labels = [TERMS[k] for k in range(5) if code & (1 << k)]
        if code & 32:
            labels.append("unstructured")
        return "+".join(labels or ["below-resolution"])
