"""Independent reference model for C04 (beam density of Beam + SingleRayAttenuator).

Everything here is closed-form / numpy; nothing is imported from cherab.  The *inputs* of the lattice
(plasma profiles, mock stopping-rate functions, placements) are defined here once, in a form that
evaluates both on python floats (m = math; these are handed to cherab as python callables) and on
numpy arrays (m = numpy; used by the reference).

Documented formulae used (docstring of SingleRayAttenuator.density, Beam.direction):

    n(x,y,z)  = lambda(z) * exp(-(x^2/sx^2 + y^2/sy^2)/2) / (2 pi sx sy)
    lambda(z) = R / v0 * exp(-int_0^z S/v0)            R = P/(E m) [1/s],  v0 = sqrt(2 E / amu)
    sx(z)     = sqrt(sigma^2 + (z tan ax)^2)           (same for y)
    S(p)      = sum_i Z_i n_i S_i(E_int,i ; (1/Z_i) sum_j Z_j^2 n_j ; T_i)
    E_int,i   = amu |v0 d - u_i|^2 / (2 e)             (energy per amu in the frame of species i)
    direction ~ (x (z tx)^2/sx^2, y (z ty)^2/sy^2, z)  for z > 0, (0,0,1) for z <= 0

Discretisation documented in the code/docstrings: stopping coefficient sampled on
linspace(0, length, max(1 + ceil(length/step), 4)), cumulative trapezoid, linear interpolation of the
line density between the samples.
"""
import math

import numpy as np
from scipy.constants import atomic_mass as AMU
from scipy.constants import elementary_charge as QE

DEG = math.pi / 180.0


# ----------------------------------------------------------------------------- kinematics
def speed(energy):
    """m/s for an energy in eV/amu."""
    return math.sqrt(2.0 * QE * energy / AMU)


def energy_of_speed(v):
    """eV/amu for a speed in m/s (numpy ok)."""
    return AMU * v * v / (2.0 * QE)


def particle_rate(power, energy, weight):
    """particles/s: beam power / kinetic energy of one particle (energy in eV/amu, weight in amu)."""
    return power / (QE * energy * weight)


def source_line_density(power, energy, weight):
    return particle_rate(power, energy, weight) / speed(energy)


def sigmas(sigma, divx, divy, z):
    sx = math.sqrt(sigma * sigma + (z * math.tan(divx * DEG)) ** 2)
    sy = math.sqrt(sigma * sigma + (z * math.tan(divy * DEG)) ** 2)
    return sx, sy


def direction(sigma, divx, divy, x, y, z):
    """Unit tangent of the curve x/sx(z) = const, y/sy(z) = const (d/dz of x0 sx(z)/sx(z0))."""
    if z <= 0:
        return (0.0, 0.0, 1.0)
    tx, ty = math.tan(divx * DEG), math.tan(divy * DEG)
    sx2 = sigma * sigma + (z * tx) ** 2
    sy2 = sigma * sigma + (z * ty) ** 2
    # dx/dz = x * z tx^2 / sx^2
    dx = x * z * tx * tx / sx2
    dy = y * z * ty * ty / sy2
    n = math.sqrt(dx * dx + dy * dy + 1.0)
    return (dx / n, dy / n, 1.0 / n)


# ----------------------------------------------------------------------------- transforms (4x4, right handed)
def _t(x, y, z):
    m = np.eye(4)
    m[:3, 3] = (x, y, z)
    return m


def _rx(a):
    c, s = math.cos(a * DEG), math.sin(a * DEG)
    m = np.eye(4)
    m[1, 1], m[1, 2], m[2, 1], m[2, 2] = c, -s, s, c
    return m


def _ry(a):
    c, s = math.cos(a * DEG), math.sin(a * DEG)
    m = np.eye(4)
    m[0, 0], m[0, 2], m[2, 0], m[2, 2] = c, s, -s, c
    return m


def _rz(a):
    c, s = math.cos(a * DEG), math.sin(a * DEG)
    m = np.eye(4)
    m[0, 0], m[0, 1], m[1, 0], m[1, 1] = c, -s, s, c
    return m


_OPS = {"t": _t, "rx": _rx, "ry": _ry, "rz": _rz}


def matrix(ops):
    """ops: list like [('t', x, y, z), ('ry', 90)] multiplied left to right."""
    m = np.eye(4)
    for op in ops:
        m = m @ _OPS[op[0]](*op[1:])
    return m


# plasma node: fixed, deliberately not the identity so that beam->plasma differs from beam->world
PLASMA_PARENT_OPS = [("t", 0.0, 0.3, 0.0)]
PLASMA_OPS = [("t", 0.1, -0.35, 0.2), ("rz", 20.0)]

# beam placements: (ops of an intermediate parent node or None, ops of the beam's own transform)
PLACEMENTS = {
    "identity": (None, []),
    "translated": (None, [("t", 0.4, 0.1, -1.0)]),
    "rot90": (None, [("t", -1.2, 0.15, 0.25), ("ry", 90.0)]),            # beam axis along world +x
    "oblique": (None, [("t", -0.6, -0.4, -0.9), ("rx", 35.0), ("ry", 50.0)]),
    "nested": ([("t", 0.2, 0.0, -0.5), ("rz", -40.0)], [("t", -0.3, 0.1, 0.0), ("rx", -60.0)]),
}


def beam_to_plasma(place):
    parent_ops, ops = PLACEMENTS[place]
    b = matrix(ops)
    if parent_ops is not None:
        b = matrix(parent_ops) @ b
    p = matrix(PLASMA_PARENT_OPS) @ matrix(PLASMA_OPS)
    return np.linalg.inv(p) @ b


# ----------------------------------------------------------------------------- plasma inputs
class Sp:
    """One plasma species: element name, charge, mass number, n/T/u profiles in the plasma frame."""

    def __init__(self, element, charge, mass, n, T, u):
        self.element, self.charge, self.mass, self.n, self.T, self.u = element, charge, mass, n, T, u


def _c(v):
    return lambda x, y, z, m: v + 0.0 * x


def _cv(a, b, c):
    return lambda x, y, z, m: (a + 0.0 * x, b + 0.0 * x, c + 0.0 * x)


def _slab(x, y, z):
    # 1 inside |x-0.2|<0.7 and |z-0.3|<0.8, exactly 0 outside (works for floats and arrays)
    return (abs(x - 0.2) < 0.7) * (abs(z - 0.3) < 0.8) * 1.0


_NONUNIFORM = [
    Sp("deuterium", 1, 2,
       lambda x, y, z, m: 4e19 * m.exp(-(x - 0.1) ** 2) * (1.0 + 0.25 * m.cos(1.3 * z + 0.4 * y)),
       lambda x, y, z, m: 1500.0 * (1.0 + 0.5 * m.exp(-0.5 * z * z)),
       lambda x, y, z, m: (2e4 + 3e4 * x, -1e4 * y, 8e4 + 2e4 * z)),
    Sp("helium", 2, 4,
       lambda x, y, z, m: 2e18 * m.exp(-0.7 * x * x) * (1.0 + 0.2 * m.sin(0.9 * z)),
       lambda x, y, z, m: 1200.0 * (1.0 + 0.3 * m.exp(-x * x)),
       lambda x, y, z, m: (-5e4 + 0.0 * x, 1e4 + 2e4 * x, 3e4 + 0.0 * x)),
    Sp("carbon", 6, 12,
       lambda x, y, z, m: 6e17 * m.exp(-1.2 * (x + 0.1) ** 2),
       lambda x, y, z, m: 900.0 + 200.0 * m.cos(z),
       lambda x, y, z, m: (0.0 * x, 0.0 * x, -1.2e5 * m.exp(-x * x))),
]

# kind -> (species list, rate mode, smooth?)   rate mode in {'const', 'func', 'zero'}
PLASMAS = {
    "none": ([], "const", True),
    "uniform": ([Sp("deuterium", 1, 2, _c(4e19), _c(1200.0), _cv(0.0, 0.0, 0.0)),
                 Sp("carbon", 6, 12, _c(1e18), _c(900.0), _cv(0.0, 0.0, 0.0))], "const", True),
    "uniform-flow": ([Sp("deuterium", 1, 2, _c(3e19), _c(2000.0), _cv(1.5e5, -4e4, 9e4)),
                      Sp("carbon", 6, 12, _c(1.5e18), _c(700.0), _cv(-8e4, 0.0, -1.1e5))], "func", True),
    "nonuniform": (_NONUNIFORM, "func", True),
    "slab": ([Sp("deuterium", 1, 2, lambda x, y, z, m: 5e19 * _slab(x, y, z), _c(1000.0), _cv(3e4, 0.0, -6e4)),
              Sp("carbon", 6, 12, lambda x, y, z, m: 8e17 * _slab(x, y, z), _c(800.0), _cv(0.0, 2e4, 5e4))], "func", False),
    "charge-states": ([Sp("deuterium", 1, 2, _c(3e19), _c(1500.0), _cv(0.0, 0.0, 0.0)),       # two charge states of one element
                       Sp("carbon", 5, 12, _c(6e17), _c(700.0), _cv(0.0, 0.0, 0.0)),
                       Sp("carbon", 6, 12, _c(1.2e18), _c(900.0), _cv(0.0, 0.0, 0.0))], "func", True),
    "zero-rate": (_NONUNIFORM, "zero", True),
    "neutral": (_NONUNIFORM + [Sp("deuterium", 0, 2,
                                  lambda x, y, z, m: 3e18 * m.exp(-0.5 * x * x),
                                  _c(5.0), _cv(0.0, 0.0, 0.0))], "func", True),
}

_BEAM_K = {"hydrogen": 1.0, "deuterium": 1.3}
_TARGET_K = {"deuterium": 1.0, "helium": 0.8, "carbon": 0.55}


def rate_k(beam_element, target_element, charge):
    """Prefactor that is different for every (beam element, target element, charge) the lattice uses."""
    return 1e-13 * _BEAM_K[beam_element] * _TARGET_K[target_element] * (1.0 + 0.25 * charge)


def rate_eval(k, mode, charge, energy, density, temperature):
    """Mock stopping coefficient S_i(E_int, n_eq, T) in m^3/s.  Works on floats and arrays."""
    if mode == "zero":
        return 0.0 * energy
    if mode == "const" or charge == 0:
        # a neutral target is given a bounded rate (the documented sum runs over ions only; the
        # implementation hands n_eq = inf to the provider for Z = 0)
        return k + 0.0 * energy
    return k * (energy / 1e4) ** 0.2 * (1.0 + density / 1e20) ** 0.3 * (1.0 + temperature / 2e3) ** 0.4


# ----------------------------------------------------------------------------- stopping coefficient
def stopping(kind, beam_element, energy, m_bp, zs):
    """Composite stopping coefficient S [1/s] at the beam-axis points z in zs (beam frame)."""
    species, mode, _ = PLASMAS[kind]
    zs = np.asarray(zs, dtype=float)
    pts = m_bp[:3, 2][None, :] * zs[:, None] + m_bp[:3, 3][None, :]
    x, y, z = pts[:, 0], pts[:, 1], pts[:, 2]
    d = m_bp[:3, 2]
    d = d / np.linalg.norm(d)
    v0 = speed(energy)
    out = np.zeros_like(zs)
    if not species:
        return out
    dens = [sp.n(x, y, z, np) + 0.0 * x for sp in species]
    z2n = sum(sp.charge ** 2 * n for sp, n in zip(species, dens))
    for sp, n in zip(species, dens):
        if sp.charge == 0:
            continue            # Z_i n_i S_i = 0 : neutrals are not in the documented sum
        ux, uy, uz = sp.u(x, y, z, np)
        rel2 = (v0 * d[0] - ux) ** 2 + (v0 * d[1] - uy) ** 2 + (v0 * d[2] - uz) ** 2
        e_int = energy_of_speed(np.sqrt(rel2))
        n_eq = z2n / sp.charge
        k = rate_k(beam_element, sp.element, sp.charge)
        out = out + sp.charge * n * rate_eval(k, mode, sp.charge, e_int, n_eq, sp.T(x, y, z, np) + 0.0 * x)
    return out


def nodes(length, step):
    n = max(1 + int(math.ceil(length / step)), 4)
    return np.linspace(0.0, length, n)


_GL_X, _GL_W = np.polynomial.legendre.leggauss(8)


def axis_reference(kind, place, beam_element, energy, length, step):
    """Reference attenuation along the axis.

    Returns dict with
       z        axial nodes of the documented discretisation
       a_trap   exponent int_0^z S/v by trapezoid on these nodes
       a_fine   exponent by composite 8-point Gauss-Legendre on sub-panels <= 0.02 m (None if S is not smooth)
       tol_fine bound on |a_trap - a_exact| at each node: z h^2/12 max|S''|/v   (composite trapezoid error)
       S        stopping coefficient at the nodes
    """
    m_bp = beam_to_plasma(place)
    v0 = speed(energy)
    z = nodes(length, step)
    s = stopping(kind, beam_element, energy, m_bp, z)
    h = np.diff(z)
    a_trap = np.concatenate(([0.0], np.cumsum(0.5 * h * (s[1:] + s[:-1])))) / v0
    smooth = PLASMAS[kind][2]
    a_fine = tol = None
    if smooth:
        sub = max(1, int(math.ceil(h.max() / 0.02)))
        edges = np.linspace(0.0, length, (len(z) - 1) * sub + 1)
        lo, hi = edges[:-1], edges[1:]
        zz = 0.5 * (lo + hi)[:, None] + 0.5 * (hi - lo)[:, None] * _GL_X[None, :]
        ss = stopping(kind, beam_element, energy, m_bp, zz.ravel()).reshape(zz.shape)
        panel = 0.5 * (hi - lo) * (ss @ _GL_W)
        cum = np.concatenate(([0.0], np.cumsum(panel)))[::sub]
        a_fine = cum / v0
        # bound on |S''| from central second differences on a fine grid (factor 1.25 for the grid)
        g = np.linspace(0.0, length, 6001)
        sg = stopping(kind, beam_element, energy, m_bp, g)
        dg = g[1] - g[0]
        s2 = np.abs(sg[2:] - 2.0 * sg[1:-1] + sg[:-2]) / (dg * dg)
        s2max = 1.25 * float(s2.max()) if len(s2) else 0.0
        if float(np.ptp(sg)) <= 1e-9 * float(np.abs(sg).max() + 1e-300):
            s2max = 0.0        # constant S: second differences are rounding noise
        tol = z * float(h.max()) ** 2 / 12.0 * s2max / v0
    return {"z": z, "a_trap": a_trap, "a_fine": a_fine, "tol_fine": tol, "S": s, "v0": v0}


def interp_line_density(ref, lam0, zq):
    """Line density at zq: linear interpolation of the nodal values (documented discretisation)."""
    lam = lam0 * np.exp(-ref["a_trap"])
    return float(np.interp(zq, ref["z"], lam))


# ----------------------------------------------------------------------------- quadratures
GH_N = 10
_GH_T, _GH_W = np.polynomial.hermite.hermgauss(GH_N)


def gh_points(sx, sy):
    """Tensor Gauss-Hermite points (x, y) and weights W such that  sum W * f(x,y) * exp(t_i^2+t_j^2)
    = int f dx dy, exact when f is the Gaussian of widths (sx, sy) times a polynomial of degree < 2 GH_N."""
    pts = []
    for ti, wi in zip(_GH_T, _GH_W):
        for tj, wj in zip(_GH_T, _GH_W):
            pts.append((math.sqrt(2.0) * sx * ti, math.sqrt(2.0) * sy * tj,
                        2.0 * sx * sy * wi * wj * math.exp(ti * ti + tj * tj)))
    return pts


POLAR_NR, POLAR_NT = 20, 8
_PL_X, _PL_W = np.polynomial.legendre.leggauss(POLAR_NR)


def polar_points(sx, sy, c):
    """Points strictly inside the ellipse (x/sx)^2+(y/sy)^2 < c^2 and weights of a polar product rule
    (Gauss-Legendre in r on [0,c], midpoint in theta): sum W f = int_ellipse f dx dy."""
    pts = []
    for xr, wr in zip(_PL_X, _PL_W):
        r = 0.5 * c * (xr + 1.0)
        for j in range(POLAR_NT):
            th = 2.0 * math.pi * (j + 0.5) / POLAR_NT
            pts.append((sx * r * math.cos(th), sy * r * math.sin(th),
                        0.5 * c * wr * (2.0 * math.pi / POLAR_NT) * sx * sy * r))
    return pts


def clamp_fraction(c):
    """Fraction of a bivariate Gaussian inside normalised radius c."""
    return -math.expm1(-0.5 * c * c)


def _selfcheck():
    # the polar rule reproduces the closed form for the Gaussian; the GH rule reproduces 1, sx^2
    for c in (1.0, 2.0, 5.0):
        tot = sum(w * math.exp(-0.5 * ((x / 0.3) ** 2 + (y / 0.7) ** 2)) / (2 * math.pi * 0.21) for x, y, w in polar_points(0.3, 0.7, c))
        assert abs(tot - clamp_fraction(c)) < 2e-13, (c, tot)
    g = [(x, w * math.exp(-0.5 * ((x / 0.3) ** 2 + (y / 0.7) ** 2)) / (2 * math.pi * 0.21)) for x, y, w in gh_points(0.3, 0.7)]
    assert abs(sum(v for _, v in g) - 1.0) < 1e-13 and abs(sum(x * x * v for x, v in g) - 0.09) < 1e-13
    # matrices: right handed, ry(90) maps +z to +x
    assert np.allclose(_ry(90.0) @ [0, 0, 1, 0], [1, 0, 0, 0]) and np.allclose(_rx(90.0) @ [0, 1, 0, 0], [0, 0, 1, 0])
    assert np.allclose(_rz(90.0) @ [1, 0, 0, 0], [0, 1, 0, 0])


_selfcheck()
