"""Reference models for C12 (EFITEquilibrium mapping and flux basis).

Everything here is written from the documented formulae, not from efit.pyx:

* synthetic Solov'ev / parabolic equilibria with closed-form psi, grad psi and LCFS contour;
* second-order finite-difference gradient of a gridded psi (chain rule through the index space),
  the discretisation the EFIT b-field B = grad(psi) x grad(phi) is documented to use;
* point-in-polygon by crossing number with the distance to the boundary (so that points too close to
  the boundary, where 'inside' is not defined in floating point, can be classed separately);
* profile closed forms.

The only pieces of the trusted base used are numpy and raysect's Interpolator1DArray/2DArray (the
check builds its *own* interpolators from the raw arrays, never reads the equilibrium's private ones).
"""
import math

import numpy as np


# ----------------------------------------------------------------------------------------------
# synthetic equilibria
# ----------------------------------------------------------------------------------------------
def synthetic_specs(tier):
    """Declared finite family of synthetic equilibria.  r/z spacings of the first two are exactly
    representable so that the magnetic axis, the mid-plane and the outboard LCFS point are grid nodes."""
    quick = [
        # Solov'ev, psi grows outwards, axis on a node, fine inscribed polygon, 33x33
        dict(name="solovev33+", kind="solovev", nr=33, nz=33, rlo=1.0, rhi=3.0, zlo=-1.5, zhi=1.5, R0=2.0, a=0.625,
             kappa=1.5, psi_axis=0.25, psi_lcfs=1.75, npoly=64, level=1.0, ccw=True, delta=0.0),
        # Solov'ev, psi decreases outwards, axis off-node, coarse polygon drawn outside the psi_n=1 contour
        # (so the 'psi_n <= 1' clause of the mask matters), supplied psi_axis slightly inside the grid minimum
        # (so the 'psi_n >= 0' clamp matters), 20x40, clockwise polygon
        dict(name="solovev20x40-", kind="solovev", nr=20, nz=40, rlo=1.0, rhi=3.375, zlo=-1.5, zhi=1.62, R0=2.05, a=0.6,
             kappa=1.7, psi_axis=-0.02, psi_lcfs=-0.44, npoly=12, level=1.21, ccw=False, delta=0.01),
        # same shape as the first with the other sign and a clamp region, 33x33
        dict(name="solovev33-", kind="solovev", nr=33, nz=33, rlo=1.0, rhi=3.0, zlo=-1.5, zhi=1.5, R0=2.0, a=0.625,
             kappa=1.5, psi_axis=0.5, psi_lcfs=-1.0, npoly=40, level=1.05, ccw=False, delta=0.002),
        # 20x40 with psi growing outwards
        dict(name="solovev20x40+", kind="solovev", nr=20, nz=40, rlo=1.0, rhi=3.375, zlo=-1.5, zhi=1.62, R0=2.05, a=0.6,
             kappa=1.7, psi_axis=0.1, psi_lcfs=0.9, npoly=90, level=1.0, ccw=True, delta=0.0),
        # parabolic bowl symmetric about a node: grad psi vanishes *exactly* at the axis node
        dict(name="parabolic33+", kind="parabolic", nr=33, nz=33, rlo=1.0, rhi=3.0, zlo=-1.5, zhi=1.5, R0=2.0, a=0.625,
             kappa=1.5, psi_axis=0.0, psi_lcfs=1.0, npoly=48, level=1.0, ccw=True, delta=0.0),
    ]
    if tier == "quick":
        return quick
    more = [
        dict(name="parabolic33-", kind="parabolic", nr=33, nz=33, rlo=1.0, rhi=3.0, zlo=-1.5, zhi=1.5, R0=2.0, a=0.625,
             kappa=1.5, psi_axis=2.0, psi_lcfs=-1.0, npoly=9, level=1.3, ccw=False, delta=0.0),
        dict(name="solovev20x40+b", kind="solovev", nr=20, nz=40, rlo=0.8, rhi=3.175, zlo=-1.95, zhi=1.95, R0=1.9, a=0.55,
             kappa=2.0, psi_axis=-3.0, psi_lcfs=-1.0, npoly=7, level=1.3, ccw=True, delta=0.01),
        dict(name="solovev40x20-", kind="solovev", nr=40, nz=20, rlo=1.2, rhi=3.15, zlo=-1.1875, zhi=1.1875, R0=2.2, a=0.5,
             kappa=1.0, psi_axis=1e-3, psi_lcfs=-2e-3, npoly=33, level=1.0, ccw=True, delta=0.0),
    ]
    return quick + more


class Synthetic:
    """psi(R,Z) = psi_a + D * s(R,Z) with s the 'true' normalised flux (0 on axis, 1 on the LCFS):
         solovev:   s = [ (R^2-R0^2)^2 + 4 R^2 Z^2 / kappa^2 ] / W,  W = ((R0+a)^2 - R0^2)^2
         parabolic: s = [ (R-R0)^2 + Z^2/kappa^2 ] / a^2
       (the first is Solov'ev's solution of the Grad-Shafranov equation, Delta* psi ~ R^2).
       The psi_axis handed to EFITEquilibrium is psi_a + delta*D (EFIT's axis value is routinely a little inside the
       grid minimum), so the normalised flux the equilibrium is documented to use is (s - delta)/(1 - delta)."""

    def __init__(self, spec):
        self.spec = spec
        s = spec
        self.name = s["name"]
        self.r = np.linspace(s["rlo"], s["rhi"], s["nr"])
        self.z = np.linspace(s["zlo"], s["zhi"], s["nz"])
        self.R0, self.a, self.kappa = s["R0"], s["a"], s["kappa"]
        self.psi_lcfs = s["psi_lcfs"]
        self.delta = s["delta"]
        # true axis value such that the supplied one is psi_a + delta*D:   psi_axis = psi_a + delta (psi_lcfs - psi_a)
        self.psi_axis = s["psi_axis"]
        self.psi_a = (self.psi_axis - self.delta * self.psi_lcfs) / (1.0 - self.delta)
        self.D = self.psi_lcfs - self.psi_a
        self.W = ((self.R0 + self.a) ** 2 - self.R0 ** 2) ** 2
        R, Z = np.meshgrid(self.r, self.z, indexing="ij")
        self.psi_grid = self.psi(R, Z)
        self.polygon = self._contour(s["level"], s["npoly"], s["ccw"])  # (N,2)
        self.b_vacuum_radius = self.R0
        self.b_vacuum_magnitude = 2.5
        x = np.linspace(0.0, 1.0, 11)
        f0 = self.b_vacuum_radius * self.b_vacuum_magnitude
        self.f_profile = np.array([x, f0 * (1.0 + 0.1 * (1.0 - x) ** 2)])
        self.q_profile = np.array([x, 1.0 + 2.5 * x ** 2])

    # -- closed forms -------------------------------------------------------------------------
    def s(self, R, Z):
        if self.spec["kind"] == "solovev":
            return ((R * R - self.R0 ** 2) ** 2 + 4.0 * R * R * Z * Z / self.kappa ** 2) / self.W
        return ((R - self.R0) ** 2 + Z * Z / self.kappa ** 2) / self.a ** 2

    def psi(self, R, Z):
        return self.psi_a + self.D * self.s(R, Z)

    def psin(self, R, Z):
        """normalised flux with the supplied axis value, before the >= 0 clamp"""
        return (self.s(R, Z) - self.delta) / (1.0 - self.delta)

    def grad(self, R, Z):
        if self.spec["kind"] == "solovev":
            sr = (4.0 * R * (R * R - self.R0 ** 2) + 8.0 * R * Z * Z / self.kappa ** 2) / self.W
            sz = 8.0 * R * R * Z / self.kappa ** 2 / self.W
        else:
            sr = 2.0 * (R - self.R0) / self.a ** 2
            sz = 2.0 * Z / self.kappa ** 2 / self.a ** 2
        return self.D * sr, self.D * sz

    def third_derivative_bound(self):
        """max over the grid box of |d^3 psi| over all third-order partials (closed form, monotone in |R|,|Z|)."""
        if self.spec["kind"] != "solovev":
            return 0.0
        Rm = max(abs(self.r[0]), abs(self.r[-1]))
        Zm = max(abs(self.z[0]), abs(self.z[-1]))
        k2 = self.kappa ** 2
        # s_RRR = 24 R / W ; s_RRZ = 16 Z/k2 / W ; s_RZZ = 16 R/k2 / W ; s_ZZZ = 0
        return abs(self.D) * max(24.0 * Rm, 16.0 * Zm / k2, 16.0 * Rm / k2) / self.W

    def second_derivative_bound(self):
        """max over the grid box of |d^2 psi| over the second-order partials"""
        Rm = max(abs(self.r[0]), abs(self.r[-1]))
        Zm = max(abs(self.z[0]), abs(self.z[-1]))
        k2 = self.kappa ** 2
        if self.spec["kind"] != "solovev":
            return abs(self.D) * max(2.0, 2.0 / k2) / self.a ** 2
        # s_RR = (12 R^2 - 4 R0^2 + 8 Z^2/k2)/W ; s_RZ = 16 R Z/k2/W ; s_ZZ = 8 R^2/k2/W
        return abs(self.D) * max(12.0 * Rm * Rm + 4.0 * self.R0 ** 2 + 8.0 * Zm * Zm / k2, 16.0 * Rm * Zm / k2, 8.0 * Rm * Rm / k2) / self.W

    def fourth_derivative_bound(self):
        if self.spec["kind"] != "solovev":
            return 0.0
        k2 = self.kappa ** 2
        # s_RRRR = 24/W ; s_RRZZ = 16/k2/W
        return abs(self.D) * max(24.0, 16.0 / k2) / self.W

    def _contour(self, level, n, ccw):
        """n vertices on the contour s = level (closed form), starting at the outboard mid-plane."""
        t = 2.0 * math.pi * np.arange(n) / n
        if not ccw:
            t = -t
        if self.spec["kind"] == "solovev":
            q = math.sqrt(level * self.W)
            if not q < self.R0 ** 2:
                raise ValueError("contour is not closed")
            R = np.sqrt(self.R0 ** 2 + q * np.cos(t))
            Z = self.kappa * q * np.sin(t) / (2.0 * R)
        else:
            R = self.R0 + self.a * math.sqrt(level) * np.cos(t)
            Z = self.kappa * self.a * math.sqrt(level) * np.sin(t)
        poly = np.array([R, Z]).T
        if poly[:, 0].min() <= self.r[0] or poly[:, 0].max() >= self.r[-1] or poly[:, 1].min() <= self.z[0] or poly[:, 1].max() >= self.z[-1]:
            raise ValueError("polygon leaves the grid box")
        return poly


# ----------------------------------------------------------------------------------------------
# finite differences on the grid
# ----------------------------------------------------------------------------------------------
def _d_index(f, axis):
    """second-order derivative with respect to the (integer) index along axis: central in the interior,
    three-point one-sided at the two ends"""
    f = np.moveaxis(np.asarray(f, dtype=float), axis, 0)
    g = np.empty_like(f)
    g[1:-1] = (f[2:] - f[:-2]) / 2.0
    g[0] = (-3.0 * f[0] + 4.0 * f[1] - f[2]) / 2.0
    g[-1] = (3.0 * f[-1] - 4.0 * f[-2] + f[-3]) / 2.0
    return np.moveaxis(g, 0, axis)


def fd_gradient(r, z, psi):
    """d psi/dr and d psi/dz on the nodes: (d psi/di) / (dr/di), (d psi/dj) / (dz/dj)"""
    dr = _d_index(r, 0)
    dz = _d_index(z, 0)
    return _d_index(psi, 0) / dr[:, None], _d_index(psi, 1) / dz[None, :]


# ----------------------------------------------------------------------------------------------
# polygon
# ----------------------------------------------------------------------------------------------
class Polygon:
    def __init__(self, vertices):
        v = np.asarray(vertices, dtype=float)
        if v.shape[0] == 2 and v.shape[1] != 2:
            v = v.T
        self.x0, self.y0 = v[:, 0].copy(), v[:, 1].copy()
        self.x1, self.y1 = np.roll(self.x0, -1), np.roll(self.y0, -1)
        self.dx, self.dy = self.x1 - self.x0, self.y1 - self.y0
        self.l2 = self.dx * self.dx + self.dy * self.dy
        self.ok = self.l2 > 0.0  # a repeated closing vertex gives a zero-length edge: it contributes nothing

    def classify(self, x, y):
        """(inside by crossing number, distance to the boundary)"""
        ok = self.ok
        t = np.zeros_like(self.dx)
        t[ok] = ((x - self.x0[ok]) * self.dx[ok] + (y - self.y0[ok]) * self.dy[ok]) / self.l2[ok]
        t = np.clip(t, 0.0, 1.0)
        d = np.hypot(self.x0 + t * self.dx - x, self.y0 + t * self.dy - y).min()
        cond = (self.y0 > y) != (self.y1 > y)
        if cond.any():
            xi = self.x0[cond] + (y - self.y0[cond]) * self.dx[cond] / self.dy[cond]
            inside = (np.count_nonzero(xi > x) % 2) == 1
        else:
            inside = False
        return bool(inside), float(d)


# ----------------------------------------------------------------------------------------------
# profiles (closed forms; the implementation-side objects are built in the check from the same names)
# ----------------------------------------------------------------------------------------------
DOC_TE = [[0, 0.1, 0.2, 0.4, 0.7, 1.0], [0, 100, 400, 500, 550, 600]]  # the array of the map2d docstring
LIN_X = [0.0, 0.1, 0.2, 0.4, 0.7, 1.0]


def scalar_ref(name, p, doc_interp=None, quad_interp=None):
    if name == "fn1d":
        return 1.0 + 3.0 * p - 2.0 * p * p
    if name in ("pycall", "callable-object"):
        return math.cos(2.0 * p) + 0.5 * p
    if name == "array-linear":
        return 5.0 - 3.0 * p
    if name == "array-doc-list":
        return doc_interp(p)
    if name == "fn1d-interp":
        return quad_interp(p)
    raise KeyError(name)


def shape_ref(kind, p):
    """component shape functions of the velocity profiles"""
    if kind == "fn1d":
        return 1.0 + p
    if kind == "pycall":
        return 2.0 - p * p
    if kind == "array":
        return 1.5 - 0.5 * p
    raise KeyError(kind)
