"""Independent reference model for C09 (steady-state ionisation balance).

Nothing here looks at cherab's implementation: the steady state of the linear chain

    d n_z/dt = n_e ( S_(z-1) n_(z-1) - (S_z + A_z) n_z + A_(z+1) n_(z+1) ),     A_z = alpha_z + (n_D/n_e) C_z

is the detailed-balance recurrence  n_(z+1)/n_z = S_z / A_(z+1)  (sum the first z+1 equations: the net flux
between neighbouring stages vanishes), normalised to sum one.  It is evaluated in log space so that chains of
18 ratios spanning 10+ decades each cannot overflow.

The analytic rate families are *inputs* of the check (what the mock AtomicData returns): every rate depends on
the charge state, on n_e and on T_e, so that an implementation that swaps two indices or two arguments gets a
different answer.
"""
import math

import numpy as np

FAMILIES = ("smooth", "equal", "cxgap")


# ---------------------------------------------------------------------------------------------------------------
# rate families (all strictly positive except the one deliberately vanishing CX rate of 'cxgap')
# ---------------------------------------------------------------------------------------------------------------
def ion_rate(family, Z, z, n, t):
    """S_z(n_e, T_e) for z = 0..Z-1  [m^3/s]"""
    if family == "equal":
        # same function as rec_rate(z + 1): S_z == alpha_(z+1)  ->  without CX every stage has fraction 1/(Z+1)
        return 3e-17 * (1.0 + 0.25 * (z + 1)) * (t / 10.0) ** 0.2 * (1.0 + (n / 1e20) ** 0.5)
    pot = 13.6 * (z + 1) ** 2 / (1.0 + 0.05 * z)            # 'ionisation potential' [eV]
    # power-law cut-off instead of exp(-pot/t): smooth, positive, spans ~13 decades over the lattice
    return 1e-14 / (z + 1.0) / (1.0 + (pot / t) ** 3.5) * (1.0 + 0.3 * (n / 1e21) ** 0.5)


def rec_rate(family, Z, z, n, t):
    """alpha_z(n_e, T_e) for z = 1..Z  [m^3/s]"""
    if family == "equal":
        return 3e-17 * (1.0 + 0.25 * z) * (t / 10.0) ** 0.2 * (1.0 + (n / 1e20) ** 0.5)
    return 2e-19 * z ** 2 * t ** -0.5 * (1.0 + n / 1e21) + 1e-21 * z


def cx_rate(family, Z, z, n, t, donor_z=1, donor_charge=0):
    """C_z(n_e, T_e) for z = 1..Z  [m^3/s]; depends on the donor (atomic number, charge) so that a lost
    tcx_donor / tcx_donor_charge argument changes the answer"""
    if family == "cxgap" and z == (Z + 1) // 2:
        return 0.0                                           # one vanishing CX rate in the middle of the chain
    donor = (1.0 + 0.5 * donor_charge) * (1.0 + 0.25 * (donor_z - 1))
    return 1e-15 * donor * z ** 1.5 * (1.0 + t / 100.0) ** 0.3 * (1.0 + 0.1 * (n / 1e19) ** 0.25)


# ---------------------------------------------------------------------------------------------------------------
# closed-form steady state
# ---------------------------------------------------------------------------------------------------------------
def rates(family, Z, n, t, nd, donor_z=1, donor_charge=0):
    """S[0..Z-1], A[1..Z] (A[0] unused = nan); nd None or 0 -> no CX term"""
    S = [ion_rate(family, Z, z, n, t) for z in range(Z)]
    A = [float("nan")]
    for z in range(1, Z + 1):
        a = rec_rate(family, Z, z, n, t)
        if nd:
            a += nd / n * cx_rate(family, Z, z, n, t, donor_z, donor_charge)
        A.append(a)
    return S, A


def fractions(family, Z, n, t, nd, donor_z=1, donor_charge=0):
    """closed-form fractional abundances x[0..Z] and the rates they were computed from"""
    S, A = rates(family, Z, n, t, nd, donor_z, donor_charge)
    logr = [0.0]
    for z in range(Z):
        logr.append(logr[-1] + math.log(S[z]) - math.log(A[z + 1]))
    m = max(logr)
    w = [math.exp(v - m) for v in logr]
    tot = math.fsum(w)
    return np.array([v / tot for v in w]), S, A


def balance_residual(x, S, A):
    """max_z |x_z S_z - x_(z+1) A_(z+1)| and the largest flux x_z S_z, x_(z+1) A_(z+1) seen"""
    Z = len(S)
    res, flux = 0.0, 0.0
    for z in range(Z):
        up, down = x[z] * S[z], x[z + 1] * A[z + 1]
        res = max(res, abs(up - down))
        flux = max(flux, abs(up), abs(down))
    return res, flux


def mean_charge(x):
    return math.fsum(z * v for z, v in enumerate(x))
