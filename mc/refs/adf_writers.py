"""Independent writers for ADAS ADF11 / ADF12 / ADF15 / ADF21 / ADF22 files (reference side of C08, also usable
by C06 to feed the install_adf* front-ends).

Written from the record layouts of DESIGN.md Appendix A (the ADAS xxdata_11/12/15/21 read statements: field
widths, values per record, block order) - *not* from cherab's parsers.  No cherab import in this module.

Every writer
  * takes plain python / numpy numbers, prints them with the Fortran edit descriptor of the format,
  * writes the file at ``path``,
  * returns a *ground-truth* dict holding ``float(text)`` of every number it printed (``D`` exponents read as
    ``E``), in the units of the file (log10, cm^-3, cm^3 s^-1, Angstrom ...).  Unit conversion is the job of the
    oracle, not of the writer.

API
    write_adf11(path, element_name, z_nuclear, log_ne, log_te, blocks, ...)      -> truth
    write_adf15(path, blocks, style=..., levels=..., ...)                        -> truth
    write_adf12(path, blocks, ...)                                               -> truth
    write_adf21(path, eb, dt, sv, tt, svt, ...)  (== write_adf22, same layout)   -> truth
plus small deterministic content generators (content_adf11, content_adf15, content_adf12, content_adf21) that
produce tables whose every cell is distinct (so that a transposition or an off-by-one row is visible).
"""
import numpy as np

# ----------------------------------------------------------------------------------------------------------
# Fortran edit descriptors
# ----------------------------------------------------------------------------------------------------------


def _f(v, w, d):
    s = "%*.*f" % (w, d, v)
    if len(s) > w:
        raise ValueError("value %r does not fit F%d.%d" % (v, w, d))
    return s


def _e(v, w, d, letter="E"):
    """1PEw.d (one digit before the point, two-digit exponent)."""
    s = "%*.*E" % (w, d, v)
    if len(s) > w:
        raise ValueError("value %r does not fit 1PE%d.%d" % (v, w, d))
    return s.replace("E", letter)


def _num(s):
    return float(s.replace("D", "E").replace("d", "e"))


def _records(fields, per):
    return ["".join(fields[i:i + per]) for i in range(0, len(fields), per)]


def _emit(path, records):
    with open(path, "w") as f:
        f.write("\n".join(records) + "\n")


# ----------------------------------------------------------------------------------------------------------
# ADF11
# ----------------------------------------------------------------------------------------------------------

def write_adf11(path, element_name, z_nuclear, log_ne, log_te, blocks, layout="96", metastables=None,
                trailer="C-dash", project="GCR PROJECT", date="13/10/99"):
    """ADF11 (xxdata_11).

    log_ne, log_te : log10 of n_e [cm^-3] and T_e [eV]  (8F10.5)
    blocks         : list of dicts {z1, table[, iprt, igrd]}; table has shape (len(log_ne), len(log_te)) and holds
                     log10 of the coefficient [cm^3 s^-1 or W cm^3]; written per temperature, density fastest.
    layout         : '96'  unresolved, block header with IPRT/IGRD fields
                     '89'  unresolved, 89-style block header (Z1 and DATE only)
                     'resolved'  metastable-resolved: extra record of metastable counts + dash record
    metastables    : list of counts for the resolved layout (default: all 1, Z+1 entries)
    trailer        : 'C-dash' (record 'C---...' then C comment records), 'dash+C' (a dash record, then 'C' records),
                     None (file ends after the last data record)
    Returns truth = {name, z_nuclear, iz1min, iz1max, log_ne, log_te, blocks:[{z1, iprt, igrd, table}], n_records}
    """
    log_ne = list(log_ne)
    log_te = list(log_te)
    nne, nte = len(log_ne), len(log_te)
    z1s = [b["z1"] for b in blocks]
    rec = []
    rec.append("%5d%5d%5d%5d%5d     /%-19s/%s" % (z_nuclear, nne, nte, min(z1s), max(z1s), element_name.upper(), project))
    rec.append("-" * 80)
    if layout == "resolved":
        ms = list(metastables) if metastables is not None else [1] * (z_nuclear + 1)
        rec += _records(["%5d" % m for m in ms], 16)
        rec.append("-" * 80)
    f_ne = [_f(v, 10, 5) for v in log_ne]
    f_te = [_f(v, 10, 5) for v in log_te]
    rec += _records(f_ne, 8)
    rec += _records(f_te, 8)
    truth_blocks = []
    for b in blocks:
        tab = np.asarray(b["table"], dtype=float)
        if tab.shape != (nne, nte):
            raise ValueError("table shape")
        iprt, igrd = b.get("iprt", 1), b.get("igrd", 1)
        if layout == "89":
            rec.append("-" * 21 + "/ Z1=%2d   / DATE= %s" % (b["z1"], date))
        else:
            rec.append("-" * 20 + "/ IPRT=%2d  / IGRD=%2d  /" % (iprt, igrd) + "-" * 8 + "/ Z1=%2d   / DATE= %s" % (b["z1"], date))
        t = np.empty((nne, nte))
        for it in range(nte):
            fields = [_f(tab[i, it], 10, 5) for i in range(nne)]
            for i, s in enumerate(fields):
                if abs(float(s)) >= 100.0:
                    raise ValueError("|value| >= 100 would make F10.5 fields touch")
                t[i, it] = float(s)
            rec += _records(fields, 8)
        truth_blocks.append({"z1": b["z1"], "iprt": iprt, "igrd": igrd, "table": t})
    if trailer == "C-dash":
        rec.append("C" + "-" * 79)
    elif trailer == "dash+C":
        rec.append("-" * 80)
    elif trailer is not None:
        raise ValueError(trailer)
    if trailer is not None:
        rec += ["C", "C  EFFECTIVE COLLISIONAL-RADIATIVE COEFFICIENTS (TEST DATA)", "C",
                "C  CODE     : ADAS208", "C  PRODUCER : VERIF", "C  DATE     : %s" % date, "C", "C" + "-" * 79]
    _emit(path, rec)
    return {"name": element_name.lower(), "z_nuclear": z_nuclear, "iz1min": min(z1s), "iz1max": max(z1s),
            "log_ne": np.array([float(s) for s in f_ne]), "log_te": np.array([float(s) for s in f_te]),
            "blocks": truth_blocks, "n_records": len(rec), "layout": layout, "trailer": trailer}


def content_adf11(nne, nte, z1_list, first_te_negative=True, multi=None, rev=0):
    """Deterministic ADF11 content.  multi: None -> one block per z1; else dict z1 -> list of (iprt, igrd)."""
    log_ne = np.round(np.linspace(7.69897, 15.30103, nne), 5) if nne > 1 else np.array([13.0])
    t0 = -0.69897 if first_te_negative else 0.17609
    log_te = np.round(np.linspace(t0, 4.0, nte), 5) if nte > 1 else np.array([t0])
    blocks = []
    k = 0
    for z1 in z1_list:
        pairs = [(1, 1)] if multi is None else multi[z1]
        for (iprt, igrd) in pairs:
            i = np.arange(nne)[:, None]
            j = np.arange(nte)[None, :]
            # all cells distinct within a block and between blocks; |v| < 100
            tab = -(7.0 + 2.9 * z1 + 0.731 * iprt + 0.173 * igrd + 0.37 * i + 0.011 * j + 0.00101 * rev)   # rev: another edition of the same file
            blocks.append({"z1": z1, "iprt": iprt, "igrd": igrd, "table": np.round(tab, 5)})
            k += 1
    return log_ne, log_te, blocks


# ----------------------------------------------------------------------------------------------------------
# ADF15
# ----------------------------------------------------------------------------------------------------------

_L_LETTER = "SPDFGHIKLMNOQR"      # spectroscopic notation, J and P(second) skipped


def level_label(config, mult, l_num, j_text):
    """The documented cherab level naming for full-configuration ADF15 files, e.g. '2s1 3p1 3P4.0'
    (cf. Line(carbon, 2, ('2s1 3p1 3P4.0', '2s1 3s1 3S1.0')) in the cherab documentation)."""
    return "%s %d%s%s" % (config.lower(), mult, _L_LETTER[l_num], j_text)


def write_adf15(path, blocks, style="hydrogen", levels=None, a_style="A", title=None, index_extra=False,
                index_only=(), filmem="bndlfl"):
    """ADF15 (xxdata_15).

    blocks : list of dicts {wavelength (Angstrom), upper, lower, type ('EXCIT'|'RECOM'|'CHEXC'), ne [cm^-3], te [eV],
             pec (len(ne), len(te)) [cm^3 s^-1][, isel]}.  For style 'hydrogen' upper/lower are principal quantum
             numbers; for 'hydrogen-like' and 'full' they are level indices of the configuration table.
    levels : for 'hydrogen-like'/'full': list of dicts {index, config ('2S1 3P1'), mult, l, j (float), energy}
    a_style: 'A' or ' A' after the wavelength of the block header
    index_extra : append the METASTABLE/IMET/NMET/IP columns to the index table (as in the 96 data sets)
    index_only  : extra index-table entries (dicts wavelength, upper, lower, type, isel) that have NO data block
                  (to exercise the "requested block is absent" clause)
    Truth: {blocks:[{isel, wavelength, type, upper, lower, key, ne, te, pec}], levels:{index: label}, index_only:[...]}
    where key is the transition key in the documented convention ((n_up, n_lo) / (index, index) / (label, label)).
    """
    if title is None:
        title = "H 0 PHOTON EMISSIVITY COEFFICIENTS"
    rec = ["%5d    /%s/" % (len(blocks), title)]
    labels = {}
    if levels:
        for lv in levels:
            jt = "%.1f" % lv["j"]
            labels[lv["index"]] = level_label(lv["config"], lv["mult"], lv["l"], jt)
    tb = []
    for k, b in enumerate(blocks, 1):
        isel = b.get("isel", k)
        ne, te = list(b["ne"]), list(b["te"])
        pec = np.asarray(b["pec"], dtype=float)
        if pec.shape != (len(ne), len(te)):
            raise ValueError("pec shape")
        wl = _f(b["wavelength"], 8, 1)
        rec.append("%s%s%5d%5d /FILMEM = %-8s/TYPE = %-5s /INDM = %-2s/ISEL = %4d" % (wl, a_style, len(ne), len(te), filmem, b["type"], "T", isel))
        f_ne = [" " + _e(v, 8, 2) for v in ne]
        f_te = [" " + _e(v, 8, 2) for v in te]
        rec += _records(f_ne, 8)
        rec += _records(f_te, 8)
        t = np.empty(pec.shape)
        for i in range(len(ne)):
            fields = [" " + _e(pec[i, j], 8, 2) for j in range(len(te))]
            t[i, :] = [float(s) for s in fields]
            rec += _records(fields, 8)
        if style == "hydrogen":
            key = (int(b["upper"]), int(b["lower"]))
        elif style == "hydrogen-like":
            key = (int(b["upper"]), int(b["lower"]))
        else:
            key = (labels[b["upper"]], labels[b["lower"]])
        tb.append({"isel": isel, "wavelength": float(wl), "type": b["type"], "upper": b["upper"], "lower": b["lower"], "key": key,
                   "ne": np.array([float(s) for s in f_ne]), "te": np.array([float(s) for s in f_te]), "pec": t})
    # comment section
    rec.append("C" + "-" * 79)
    rec += ["C", "C  PHOTON EMISSIVITY COEFFICIENTS:", "C", "C  INFORMATION", "C  -----------", "C",
            "C  NUCLEAR CHARGE =  1", "C  ION CHARGE +1  =  1", "C"]
    if style in ("hydrogen-like", "full"):
        rec.append("C   Configuration           (2S+1)L(w-1/2)  Energy (cm**-1)")
        rec.append("C   -------------           --------------  ---------------")
        for lv in levels:
            rec.append("C%6d  %-22s(%d)%d(%5.1f)%14.1f" % (lv["index"], lv["config"].upper(), lv["mult"], lv["l"], lv["j"], lv["energy"]))
        rec.append("C")
    extra_h = "   METASTABLE  IMET NMET IP" if index_extra else ""
    extra_u = "  ------------ ---- ---- --" if index_extra else ""
    rec.append("C  ISEL  WAVELENGTH      TRANSITION       TYPE" + extra_h)
    rec.append("C  ----  ----------  ----------------    -----" + extra_u)
    t_only = []

    def index_line(isel, wl_text, up, lo, typ):
        if style == "hydrogen":
            s = "C  %3d.  %s        N=%2d - N=%2d     %-5s" % (isel, wl_text, up, lo, typ)
        else:
            lu = next(lv for lv in levels if lv["index"] == up)
            ll = next(lv for lv in levels if lv["index"] == lo)
            s = "C  %3d.  %s     %3d(%d)%d(%4.1f)-%3d(%d)%d(%4.1f) %-5s" % (
                isel, wl_text, up, lu["mult"], lu["l"], lu["j"], lo, ll["mult"], ll["l"], ll["j"], typ)
        if index_extra:
            s += "   2S2 1S        1    1  1"
        return s

    entries = [(t["isel"], "%8.1f" % t["wavelength"], t["upper"], t["lower"], t["type"]) for t in tb]
    for o in index_only:
        wl = _f(o["wavelength"], 8, 1)
        entries.append((o["isel"], wl, o["upper"], o["lower"], o["type"]))
        if style in ("hydrogen", "hydrogen-like"):
            key = (int(o["upper"]), int(o["lower"]))
        else:
            key = (labels[o["upper"]], labels[o["lower"]])
        t_only.append({"isel": o["isel"], "wavelength": float(wl), "type": o["type"], "key": key})
    for e in sorted(entries, key=lambda e: e[0]):
        rec.append(index_line(*e))
    rec += ["C", "C  PRODUCER : VERIF", "C" + "-" * 79]
    _emit(path, rec)
    return {"blocks": tb, "levels": labels, "index_only": t_only, "style": style, "n_records": len(rec)}


# a small configuration table in the notation of the 96 data sets (carbon-like, single-digit occupancies)
LEVELS = [
    {"index": 1, "config": "2S2 2P1", "mult": 2, "l": 1, "j": 2.5, "energy": 0.0},
    {"index": 2, "config": "2S1 2P2", "mult": 4, "l": 1, "j": 5.5, "energy": 43035.8},
    {"index": 3, "config": "2S1 2P2", "mult": 2, "l": 2, "j": 4.5, "energy": 74931.1},
    {"index": 4, "config": "2S1 2P2", "mult": 2, "l": 0, "j": 0.5, "energy": 96493.7},
    {"index": 5, "config": "2S2 3S1", "mult": 2, "l": 0, "j": 0.5, "energy": 116537.7},
    {"index": 6, "config": "2S2 3P1", "mult": 2, "l": 1, "j": 2.5, "energy": 131731.8},
    {"index": 7, "config": "2S2 3D1", "mult": 2, "l": 2, "j": 4.5, "energy": 145550.1},
    {"index": 8, "config": "2S1 2P1 3S1", "mult": 4, "l": 1, "j": 5.5, "energy": 166990.7},
    {"index": 9, "config": "2S2 4F1", "mult": 2, "l": 3, "j": 6.5, "energy": 168978.3},
    {"index": 10, "config": "2S1 2P1 3D1", "mult": 4, "l": 3, "j": 13.5, "energy": 195800.0},
    {"index": 11, "config": "2S1 2P1 3D1", "mult": 2, "l": 2, "j": 4.5, "energy": 196571.8},
    {"index": 12, "config": "2S2 4D1", "mult": 2, "l": 2, "j": 4.5, "energy": 162522.3},
]

# (upper, lower) pairs used by the content generator: principal quantum numbers for the hydrogen style,
# level indices (also two-digit ones) otherwise
_PAIRS_H = [(3, 2), (4, 2), (2, 1), (5, 3), (10, 9), (12, 2), (7, 6), (5, 2), (6, 2), (3, 1), (4, 3), (8, 7)]
_PAIRS_X = [(3, 1), (6, 5), (11, 12), (9, 7), (10, 8), (4, 1), (7, 6), (2, 1), (5, 1), (12, 6), (8, 2), (10, 3)]
PAIR_ABSENT_H = (9, 8)         # transitions never used by content_adf15: for index-table entries without a data block
PAIR_ABSENT_X = (12, 11)
_TYPES = ["EXCIT", "CHEXC", "RECOM"]


def content_adf15(nne, nte, nblocks, style="hydrogen", types="mixed", rev=0):
    """nblocks blocks; 'mixed' cycles EXCIT, CHEXC, RECOM on one transition, then moves to the next transition; 'EXCIT'/'RECOM'/'CHEXC' uses one type with a new transition per block."""
    pairs = _PAIRS_H if style == "hydrogen" else _PAIRS_X
    ne = np.geomspace(5.0e7, 1.0e15, nne) if nne > 1 else np.array([1.0e13])
    te = np.geomspace(0.2, 1.0e4, nte) if nte > 1 else np.array([10.0])
    blocks = []
    for k in range(nblocks):
        if types == "mixed":
            up, lo = pairs[(k // 3) % len(pairs)]
            typ = _TYPES[k % 3]
        else:
            up, lo = pairs[k % len(pairs)]
            typ = types
        i = np.arange(nne)[:, None]
        j = np.arange(nte)[None, :]
        # every cell of a block gets a distinct three-digit mantissa (1PE8.2 keeps three digits); blocks differ by decade
        pec = (1.0 + ((i * nte + j + 37 * rev) % 900) / 100.0) * 10.0 ** (-9 - (k % 6))
        blocks.append({"wavelength": 1215.2 + 345.7 * (up * 13 + lo), "upper": up, "lower": lo, "type": typ, "ne": ne, "te": te, "pec": pec})
    if len(set((b["type"], b["upper"], b["lower"]) for b in blocks)) != len(blocks):
        raise ValueError("content_adf15: (type, transition) must be unique within a file (at most %d blocks of one type)" % len(pairs))
    return blocks


# ----------------------------------------------------------------------------------------------------------
# ADF12
# ----------------------------------------------------------------------------------------------------------

_ADF12_SLOTS = (("ener", 24), ("qener", 24), ("tiev", 12), ("qtiev", 12), ("densi", 24), ("qdensi", 24),
                ("zeff", 12), ("qzeff", 12), ("bmag", 12), ("qbmag", 12))


def write_adf12(path, blocks, letter="D", declared_count=None, receiver="C+6", donor="H(1S)"):
    """ADF12 (xxdata_12).

    blocks : list of dicts {upper, lower, qefref, ebref, tiref, niref, zeref, bref,
                            ener, qener, tiev, qtiev, densi, qdensi, zeff, qzeff, bmag, qbmag}
             (arrays up to 24 / 12 / 24 / 12 / 12 entries; unused slots are zero filled)
    declared_count : number of blocks announced in record 1 (default len(blocks))
    Truth: {blocks:[{transition:(upper, lower), qefref, ..., ener: array, ...}]}
    """
    n = len(blocks) if declared_count is None else declared_count
    rec = ["%5d" % n + " " * 10 + "/EFFECTIVE CX EMISSION COEFFICIENTS (TEST DATA)"]
    tb = []
    for k, b in enumerate(blocks, 1):
        head = [" "] * 80
        txt = " %-5s + %-6s" % (receiver, donor)
        head[0:len(txt)] = txt
        tr = "N=%2d-%2d" % (b["upper"], b["lower"])       # columns 37-43 (1-based): 'N=' then I2,'-',I2 ending at col 43
        head[36:36 + len(tr)] = tr
        lab = "/ISEL=%3d" % k
        head[50:50 + len(lab)] = lab
        rec.append("".join(head).rstrip())
        t = {"transition": (int(b["upper"]), int(b["lower"]))}
        s = _e(b["qefref"], 10, 2, letter)
        t["qefref"] = _num(s)
        rec.append(s + " " * 50 + " qefref")
        fields = []
        for key in ("ebref", "tiref", "niref", "zeref", "bref"):
            s = _e(b[key], 10, 2, letter)
            t[key] = _num(s)
            fields.append(s)
        rec.append("".join(fields) + " " * 10 + " parmref")
        counts = [len(b["ener"]), len(b["tiev"]), len(b["densi"]), len(b["zeff"]), len(b["bmag"])]
        rec.append("".join("%10d" % c for c in counts) + " " * 10 + " nparmsc")
        for key, slots in _ADF12_SLOTS:
            vals = list(b[key])
            if len(vals) > slots:
                raise ValueError("too many values for " + key)
            fields = [_e(v, 10, 2, letter) for v in vals]
            t[key] = np.array([_num(s) for s in fields])
            fields += [_e(0.0, 10, 2, letter)] * (slots - len(vals))
            for r in _records(fields, 6):
                rec.append(r + " " + key)
        tb.append(t)
    rec += ["C" + "-" * 79, "C", "C  TEST DATA", "C" + "-" * 79]
    _emit(path, rec)
    return {"blocks": tb, "declared_count": n, "n_records": len(rec)}


def content_adf12(nbeam, nti, ndi, nze, nb, nblocks, rev=0):
    trs = [(8, 7), (10, 9), (2, 1)]
    blocks = []
    for k in range(nblocks):
        up, lo = trs[k % 3]

        def ax(n, lo_, hi_):
            return np.geomspace(lo_, hi_, n) if n > 1 else np.array([lo_])

        def q(n, base):
            return base * (1.0 + 0.1 * rev) * (1.0 + 0.01 * np.arange(n)) * 10.0 ** (-(np.arange(n) % 4))
        blocks.append({
            "upper": up, "lower": lo, "qefref": 1.01e-10 * (k + 1),
            "ebref": 5.0e4, "tiref": 1.0e3, "niref": 2.5e13, "zeref": 2.0, "bref": 3.0,
            "ener": ax(nbeam, 1.0e3, 2.0e5), "qener": q(nbeam, 1.11e-9 * (k + 1)),
            "tiev": ax(nti, 1.0e2, 2.0e4), "qtiev": q(nti, 2.22e-9 * (k + 1)),
            "densi": ax(ndi, 1.0e11, 1.0e15), "qdensi": q(ndi, 3.33e-9 * (k + 1)),
            "zeff": ax(nze, 1.0, 6.0), "qzeff": q(nze, 4.44e-9 * (k + 1)),
            "bmag": ax(nb, 0.1, 6.0), "qbmag": q(nb, 5.55e-9 * (k + 1)),
        })
    return blocks


# ----------------------------------------------------------------------------------------------------------
# ADF21 / ADF22 (same layout)
# ----------------------------------------------------------------------------------------------------------

def write_adf21(path, eb, dt, sv, tt, svt, svref=9.734e-8, tref=2.0e3, eref=6.5e4, nref=6.0e13, letter="E",
                zt=6, spec="C", date="23/10/97", code="ADAS310"):
    """ADF21 / ADF22 (xxdata_21).  eb [eV/amu] (NEB), dt [cm^-3] (NDT), sv (NEB, NDT), tt [eV] (NTT), svt (NTT).
    letter: exponent letter of the data fields ('E' or 'D'); header fields always use 'E'.
    Truth: {eb, dt, sv, tt, svt, svref, tref, eref, nref} as float(text)."""
    eb, dt, tt, svt = list(eb), list(dt), list(tt), list(svt)
    sv = np.asarray(sv, dtype=float)
    if sv.shape != (len(eb), len(dt)):
        raise ValueError("sv shape")
    t = {}
    rec = []
    s = _e(svref, 9, 3)
    t["svref"] = float(s)
    rec.append("%5d /SVREF=%s /SPEC=%-2s   /DATE=%8s /CODE=%s" % (zt, s, spec, date, code))
    rec.append("-" * 80)
    s = _e(tref, 9, 3)
    t["tref"] = float(s)
    rec.append("%5d%5d /TREF=%s" % (len(eb), len(dt), s))
    rec.append("-" * 80)

    def row(vals):
        fields = [" " + _e(v, 9, 3, letter) for v in vals]
        return fields, np.array([_num(x) for x in fields])

    f, t["eb"] = row(eb)
    rec += _records(f, 8)
    f, t["dt"] = row(dt)
    rec += _records(f, 8)
    rec.append("-" * 80)
    t["sv"] = np.empty(sv.shape)
    for j in range(len(dt)):
        f, vals = row(sv[:, j])
        t["sv"][:, j] = vals
        rec += _records(f, 8)
    rec.append("-" * 80)
    s1, s2 = _e(eref, 9, 3), _e(nref, 9, 3)
    t["eref"], t["nref"] = float(s1), float(s2)
    rec.append("%5d /EREF=%s /NREF=%s" % (len(tt), s1, s2))
    rec.append("-" * 80)
    f, t["tt"] = row(tt)
    rec += _records(f, 8)
    rec.append("-" * 80)
    f, t["svt"] = row(svt)
    rec += _records(f, 8)
    rec += ["C" + "-" * 79, "C", "C  TEST DATA", "C" + "-" * 79]
    _emit(path, rec)
    t["n_records"] = len(rec)
    return t


write_adf22 = write_adf21


def content_adf21(neb, ndt, ntt, scale=1.0e-7, rev=0):
    eb = np.geomspace(5.0e3, 1.5e5, neb) if neb > 1 else np.array([6.5e4])
    dt = np.geomspace(1.0e12, 1.0e15, ndt) if ndt > 1 else np.array([6.0e13])
    tt = np.geomspace(1.0e1, 1.0e4, ntt) if ntt > 1 else np.array([2.0e3])
    i = np.arange(neb)[:, None]
    j = np.arange(ndt)[None, :]
    sv = scale * (1.0 + 0.1 * rev + 0.013 * i + 0.37 * j)
    svt = scale * (2.0 + 0.1 * rev + 0.011 * np.arange(ntt))
    return eb, dt, sv, tt, svt
