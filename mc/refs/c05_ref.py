"""Reference model for C05 (beam CX emission = population-weighted mean; beam emission = charged sum).

Pure Python, no cherab / raysect import.  Everything here is either

* a *fixture definition* shared with the driver (the analytic profiles of the stub plasma, the stub beam density and
  the closed-form mock rate coefficients the mock AtomicData provider returns), or
* the documented formulae of the property, evaluated on those fixtures:

    CX :  I = (1/4pi) n_b n_r q ,   q = (q_1 + sum_{m>=2} k_m q_m) / (1 + sum_{m>=2} k_m)
          q_m = q_m(E_int(receiver), T_r, sum_{ions} n_i, Z_eff, |B|)
          k_m = sum_i Z_i n_i bmp_{m,i}(E_int,i , sum_j Z_j^2 n_j / Z_i , T_i) / sum_i Z_i n_i      (ADAS man. 3-04, eq. 4.4.7)
    BES:  I = (1/4pi) n_b sum_i Z_i n_i bme_i(E_int,i , sum_j Z_j^2 n_j / Z_i , T_i)
          E_int = (1/2) m_u |v_b - u_i|^2 / e  [eV/amu],  v_b = dir/|dir| * sqrt(2 E_b e / m_u)

Neutral species (Z = 0) carry the provider's null coefficients: they contribute nothing to any sum, and they are not ions,
so they do not enter the total ion density.
"""
import math

E_CHARGE = 1.602176634e-19      # C, exact (SI 2019)
AMU = 1.66053906660e-27         # kg, CODATA 2018 (the vintage documented in cherab.core.utility.constants)
FOUR_PI = 4.0 * math.pi

# ---------------------------------------------------------------------------------------------------------------------
# fixtures: species table, profiles, beam density, points
# ---------------------------------------------------------------------------------------------------------------------
SPECIES = {
    # key: element name, charge, n0 [m^-3], T0 [eV], flow speed [m/s]
    "D1":   ("deuterium", 1, 6.0e19, 1500.0, 2.0e5),
    "He2":  ("helium", 2, 4.0e18, 1100.0, 1.2e5),
    "C5":   ("carbon", 5, 3.0e17, 700.0, 9.0e4),
    "C6":   ("carbon", 6, 9.0e17, 900.0, 8.0e4),
    "Ne10": ("neon", 10, 2.0e17, 1300.0, 5.0e4),
    "D0":   ("deuterium", 0, 3.0e17, 5.0, 1.0e4),
}
ION_POOL = ["D1", "He2", "C5", "C6", "Ne10"]
NEUTRAL = "D0"

# CX line of each receiver: (line element, line charge, transition)
CX_LINE = {
    "D1": ("deuterium", 0, (3, 2)),
    "He2": ("helium", 1, (4, 3)),
    "C5": ("carbon", 4, (7, 6)),
    "C6": ("carbon", 5, (8, 7)),
    "Ne10": ("neon", 9, (11, 10)),
}
WAVELENGTH = {"deuterium": 656.1, "hydrogen": 656.28, "helium": 468.6, "carbon": 529.0, "neon": 524.9}

FLOW_DIR = {"none": (0.0, 0.0, 0.0), "along": (0.0, 0.0, 1.0), "oblique": (0.6, -0.3, 0.5)}
BEAM_DIR = {"axis": (0.0, 0.0, 1.0), "oblique-nonunit": (0.3, -0.2, 2.0), "transverse": (1.0, 0.0, 0.0)}
BEAM_LENGTH = 3.0
BEAM_SHIFT = (0.3, -0.2, -1.0)      # beam node transform: beam space -> world (= plasma space)

# beam-space points (class label, point)
BEAM_POINTS = [
    ("on-axis", (0.01, 0.02, 1.5)),
    ("off-axis", (0.12, -0.05, 0.4)),
    ("z<0", (0.0, 0.0, -0.1)),
    ("z>length", (0.0, 0.0, 3.2)),
    ("r>clamp", (0.6, 0.0, 1.0)),
]
# plasma-space points (class label, point); x decides which species vanish (see mask())
PLASMA_POINTS = [
    ("all>0/a", (0.10, -0.20, 0.30)),
    ("all>0/b", (0.31, -0.18, 0.50)),
    ("role=0", (0.70, 0.10, 0.20)),
    ("second=0", (0.90, -0.10, 0.40)),
    ("ions=0", (1.20, 0.05, 0.10)),
    ("all=0", (1.50, 0.00, 0.00)),
]


def mask(rank, x):
    """rank 'role' (CX receiver / first BES species), 'second' (first other ion), 'other' (remaining ions), 'neutral'."""
    if rank == "role":
        return 0.0 if (0.5 <= x < 0.8 or x >= 1.0) else 1.0
    if rank == "second":
        return 0.0 if x >= 0.8 else 1.0
    if rank == "other":
        return 0.0 if x >= 1.0 else 1.0
    return 0.0 if x >= 1.4 else 1.0   # neutral


def shape_n(x, y, z):
    return 1.0 + 0.3 * x + 0.2 * y + 0.1 * z


def shape_t(x, y, z):
    return 1.0 + 0.2 * x - 0.1 * z


def shape_u(x, y, z):
    return 1.0 + 0.1 * y


def density(key, rank, x, y, z):
    return SPECIES[key][2] * shape_n(x, y, z) * mask(rank, x)


def temperature(key, x, y, z):
    return SPECIES[key][3] * shape_t(x, y, z)


def velocity(key, flow, x, y, z):
    d = FLOW_DIR[flow]
    s = SPECIES[key][4] * shape_u(x, y, z)
    return (d[0] * s, d[1] * s, d[2] * s)


def b_field(bclass, x, y, z):
    if bclass == "zero":
        return (0.0, 0.0, 0.0)
    return (0.6 * (1.0 + 0.5 * x), -1.2, 1.5 * (1.0 - 0.2 * z))


def attenuator_density(x, y, z):
    """what the stub attenuator returns (beam space)"""
    r2 = x * x + y * y
    if r2 > 0.25:
        return 0.0
    return 2.0e15 * math.exp(-r2 / (2 * 0.1 * 0.1)) * (1.0 - 0.2 * z)


def beam_density(x, y, z):
    """documented Beam.density: the attenuator's value inside 0 <= z <= length, zero outside"""
    if z < 0 or z > BEAM_LENGTH:
        return 0.0
    return attenuator_density(x, y, z)


def ranks(comp, role):
    """rank of every species key in the ordered composition"""
    out, second_given = {}, False
    for k in comp:
        if k == role:
            out[k] = "role"
        elif SPECIES[k][1] == 0:
            out[k] = "neutral"
        elif not second_given:
            out[k] = "second"
            second_given = True
        else:
            out[k] = "other"
    return out


# ---------------------------------------------------------------------------------------------------------------------
# mock rate coefficients (closed forms; every argument matters, every metastable / species has its own numbers)
# ---------------------------------------------------------------------------------------------------------------------
CX_Q0 = {"A": {1: 1.0e-33, 2: 2.3e-33, 3: 5.9e-33},      # increasing with m
         "B": {1: 7.1e-33, 2: 1.9e-33, 3: 0.31e-33},     # decreasing: ground largest
         "C": {1: 2.0e-33, 2: 6.1e-33, 3: 0.9e-33},      # ground in the middle
         "D": {1: 3.0e-33, 2: 0.0, 3: 1.1e-33}}          # an excited metastable that is populated but does not emit (null coefficient)
POP_K0 = {"A": {2: 0.035, 3: 0.008}, "B": {2: 2.7, 3: 1.3}, "C": {2: 0.011, 3: 0.9}, "D": {2: 0.6, 3: 0.2}}
BES_G0 = {"A": 3.1e-34, "B": 0.7e-34, "C": 1.3e-34, "D": 2.2e-34}


def cx_coeff(prov, m, rcharge, energy, temp, dens, zeff, bmag):
    if energy <= 0 or temp <= 0 or dens <= 0:
        return 0.0
    return (CX_Q0[prov][m] * (1 + 0.01 * rcharge)
            * (1 + 7e-6 * (1 + 0.2 * m) * energy)
            * (1 + 3e-4 * (1 + 0.3 * m) * temp)
            * (1 + 0.011 * m * math.log(dens))
            * (1 + 0.13 * m * zeff)
            * (1 + 0.17 * m * bmag))


def pop_coeff(prov, m, tcharge, energy, dens, temp):
    if energy <= 0 or temp <= 0 or dens <= 0:
        return 0.0
    return (POP_K0[prov][m] * (1 + 0.07 * tcharge)
            * (1 + 5e-6 * m * energy)
            * (1 + 0.013 * m * math.log(dens))
            * (1 + 2e-4 * m * temp))


def bes_coeff(prov, tcharge, energy, dens, temp):
    if energy <= 0 or temp <= 0 or dens <= 0:
        return 0.0
    return (BES_G0[prov] * (1 + 0.05 * tcharge)
            * (1 + 1.1e-5 * energy)
            * (1 + 0.017 * math.log(dens))
            * (1 + 1.9e-4 * temp))


# ---------------------------------------------------------------------------------------------------------------------
# the documented formulae
# ---------------------------------------------------------------------------------------------------------------------
def beam_velocity(energy, direction):
    ln = math.sqrt(direction[0] ** 2 + direction[1] ** 2 + direction[2] ** 2)
    v = math.sqrt(2.0 * energy * E_CHARGE / AMU)
    return (direction[0] / ln * v, direction[1] / ln * v, direction[2] / ln * v)


def interaction_energy(vb, u):
    d2 = (vb[0] - u[0]) ** 2 + (vb[1] - u[1]) ** 2 + (vb[2] - u[2]) ** 2
    return 0.5 * AMU * d2 / E_CHARGE


def local_state(cfg, pp):
    """per-species (key, Z, n, T, u) at plasma point pp, in composition order"""
    rk = ranks(cfg["comp"], cfg["role"])
    out = []
    for k in cfg["comp"]:
        out.append((k, SPECIES[k][1], density(k, rk[k], *pp), temperature(k, *pp), velocity(k, cfg["flow"], *pp)))
    return out


def charged_sums(state):
    ions = [s for s in state if s[1] >= 1]
    n_ion = math.fsum(s[2] for s in ions)
    s1 = math.fsum(s[1] * s[2] for s in ions)
    s2 = math.fsum(s[1] * s[1] * s[2] for s in ions)
    return ions, n_ion, s1, s2


def cx_reference(cfg, energy, bdir, bp, pp):
    """returns dict(total, n_b, n_r, [cx_args, q, pop_args, k, qmean])"""
    n_b = beam_density(*bp)
    state = local_state(cfg, pp)
    recv = [s for s in state if s[0] == cfg["role"]][0]
    n_r = recv[2]
    out = {"n_b": n_b, "n_r": n_r, "total": 0.0}
    if n_b == 0.0 or n_r == 0.0:
        return out
    vb = beam_velocity(energy, bdir)
    ions, n_ion, s1, s2 = charged_sums(state)
    zeff = s2 / s1
    b = b_field(cfg["b"], *pp)
    bmag = math.sqrt(b[0] ** 2 + b[1] ** 2 + b[2] ** 2)
    e_r = interaction_energy(vb, recv[4])
    cx_args = (e_r, recv[3], n_ion, zeff, bmag)
    q = {m: cx_coeff(cfg["prov"], m, recv[1], *cx_args) for m in range(1, cfg["M"] + 1)}
    pop_args, k = {}, {}
    for m in range(2, cfg["M"] + 1):
        num = []
        for key, zc, n, t, u in ions:
            a = (interaction_energy(vb, u), s2 / zc, t)
            pop_args[(m, key)] = a
            num.append(zc * n * pop_coeff(cfg["prov"], m, zc, *a))
        k[m] = math.fsum(num) / s1
    qmean = (q[1] + math.fsum(k[m] * q[m] for m in k)) / (1.0 + math.fsum(k.values()))
    out.update(cx_args=cx_args, q=q, pop_args=pop_args, k=k, qmean=qmean, total=n_b * n_r * qmean / FOUR_PI,
               ions=[(s[0], s[1], s[2]) for s in ions])
    return out


def bes_reference(cfg, energy, bdir, bp, pp):
    n_b = beam_density(*bp)
    state = local_state(cfg, pp)
    ions, n_ion, s1, s2 = charged_sums(state)
    out = {"n_b": n_b, "s1": s1, "total": 0.0}
    if n_b == 0.0 or s1 == 0.0:
        return out
    vb = beam_velocity(energy, bdir)
    args, terms = {}, []
    for key, zc, n, t, u in ions:
        a = (interaction_energy(vb, u), s2 / zc, t)
        args[key] = a
        terms.append(zc * n * bes_coeff(cfg["prov"], zc, *a))
    out.update(args=args, total=n_b * math.fsum(terms) / FOUR_PI, ions=[(s[0], s[1], s[2]) for s in ions])
    return out
