"""Independent periodic table (IUPAC 2016): symbol -> Z and name -> Z for Z <= 118."""
_TABLE = """H hydrogen;He helium;Li lithium;Be beryllium;B boron;C carbon;N nitrogen;O oxygen;F fluorine;Ne neon;
Na sodium;Mg magnesium;Al aluminium;Si silicon;P phosphorus;S sulfur;Cl chlorine;Ar argon;K potassium;Ca calcium;
Sc scandium;Ti titanium;V vanadium;Cr chromium;Mn manganese;Fe iron;Co cobalt;Ni nickel;Cu copper;Zn zinc;
Ga gallium;Ge germanium;As arsenic;Se selenium;Br bromine;Kr krypton;Rb rubidium;Sr strontium;Y yttrium;Zr zirconium;
Nb niobium;Mo molybdenum;Tc technetium;Ru ruthenium;Rh rhodium;Pd palladium;Ag silver;Cd cadmium;In indium;Sn tin;
Sb antimony;Te tellurium;I iodine;Xe xenon;Cs caesium;Ba barium;La lanthanum;Ce cerium;Pr praseodymium;Nd neodymium;
Pm promethium;Sm samarium;Eu europium;Gd gadolinium;Tb terbium;Dy dysprosium;Ho holmium;Er erbium;Tm thulium;Yb ytterbium;
Lu lutetium;Hf hafnium;Ta tantalum;W tungsten;Re rhenium;Os osmium;Ir iridium;Pt platinum;Au gold;Hg mercury;
Tl thallium;Pb lead;Bi bismuth;Po polonium;At astatine;Rn radon;Fr francium;Ra radium;Ac actinium;Th thorium;
Pa protactinium;U uranium;Np neptunium;Pu plutonium;Am americium;Cm curium;Bk berkelium;Cf californium;Es einsteinium;Fm fermium;
Md mendelevium;No nobelium;Lr lawrencium;Rf rutherfordium;Db dubnium;Sg seaborgium;Bh bohrium;Hs hassium;Mt meitnerium;Ds darmstadtium;
Rg roentgenium;Cn copernicium;Nh nihonium;Fl flerovium;Mc moscovium;Lv livermorium;Ts tennessine;Og oganesson"""
SYMBOL_TO_Z, NAME_TO_Z = {}, {}
for _i, _e in enumerate(_TABLE.replace("\n", "").split(";")):
    _s, _n = _e.split()
    SYMBOL_TO_Z[_s] = _i + 1
    NAME_TO_Z[_n] = _i + 1
NAME_TO_Z.update({"aluminum": 13, "sulphur": 16, "cesium": 55})
assert len(SYMBOL_TO_Z) == 118 and SYMBOL_TO_Z["Og"] == 118 and SYMBOL_TO_Z["Fe"] == 26 and SYMBOL_TO_Z["U"] == 92
