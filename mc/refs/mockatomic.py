"""Mock AtomicData provider for scene-level drivers (C01).

Every coefficient is a distinct smooth positive function of *every* argument and of every
identifying parameter (element Z, charge, transition, donor, metastable), scaled by the provider's
factor k, so that a stale or mis-routed rate changes the observed number.
"""
import math

from cherab.core.atomic import AtomicData
from cherab.core.atomic import (BeamStoppingRate, BeamCXPEC, BeamPopulationRate, BeamEmissionPEC,
                                ImpactExcitationPEC, RecombinationPEC, ThermalCXPEC,
                                LineRadiationPower, ContinuumPower, CXRadiationPower)
from cherab.core.atomic.gaunt import FreeFreeGauntFactor


def _tr(transition):
    a, b = transition
    try:
        return 1.0 + 0.1 * float(a) + 0.01 * float(b)
    except (TypeError, ValueError):
        return 1.0 + 0.001 * (sum(map(ord, str(a))) % 97) + 0.0001 * (sum(map(ord, str(b))) % 89)


def _lg(x, c):
    return 1.0 + c * math.log10(x) if x > 0 else 1.0


class _BS(BeamStoppingRate):
    def __init__(self, k):
        self.k = k

    def evaluate(self, e, n, t):
        if e <= 0 or n <= 0 or t <= 0:
            return 0.0
        return self.k * 1e-13 * _lg(e, 0.05) * _lg(n, 0.01) * _lg(t, 0.03)


class _BP(BeamPopulationRate):
    def __init__(self, k):
        self.k = k

    def evaluate(self, e, n, t):
        if e <= 0 or n <= 0 or t <= 0:
            return 0.0
        return self.k * 1e-2 * _lg(e, 0.04) * _lg(n, 0.02) * _lg(t, 0.05)


class _BE(BeamEmissionPEC):
    def __init__(self, k):
        self.k = k

    def evaluate(self, e, n, t):
        if e <= 0 or n <= 0 or t <= 0:
            return 0.0
        return self.k * 1e-34 * _lg(e, 0.06) * _lg(n, 0.015) * _lg(t, 0.02)


class _CX(BeamCXPEC):
    def __init__(self, m, k):
        super().__init__(m)
        self.k = k

    def evaluate(self, e, t, n, z, b):
        if e <= 0 or t <= 0 or n <= 0:
            return 0.0
        return self.k * 1e-33 * _lg(e, 0.07) * _lg(t, 0.03) * _lg(n, 0.011) * (1 + 0.05 * z) * (1 + 0.02 * b)


class _PEC(ImpactExcitationPEC):
    def __init__(self, k):
        self.k = k

    def evaluate(self, n, t):
        if n <= 0 or t <= 0:
            return 0.0
        return self.k * 1e-35 * _lg(n, 0.013) * _lg(t, 0.08)


class _RPEC(RecombinationPEC):
    def __init__(self, k):
        self.k = k

    def evaluate(self, n, t):
        if n <= 0 or t <= 0:
            return 0.0
        return self.k * 3e-36 * _lg(n, 0.017) * _lg(t, 0.06)


class _TPEC(ThermalCXPEC):
    def __init__(self, k):
        self.k = k

    def evaluate(self, n, t, td):
        if n <= 0 or t <= 0 or td <= 0:
            return 0.0
        return self.k * 2e-34 * _lg(n, 0.019) * _lg(t, 0.04) * _lg(td, 0.09)


def _pw(base):
    class _P(base):
        def __init__(self, element, charge, k):
            super().__init__(element, charge)
            self.k = k

        def evaluate(self, n, t):
            if n <= 0 or t <= 0:
                return 0.0
            return self.k * 1e-33 * _lg(n, 0.012) * _lg(t, 0.07)
    return _P


_LP, _CP, _XP = _pw(LineRadiationPower), _pw(ContinuumPower), _pw(CXRadiationPower)


class _G(FreeFreeGauntFactor):
    def __init__(self, k):
        self.k = k

    def evaluate(self, z, t, w):
        if t <= 0 or w <= 0:
            return 0.0
        return (1.0 + 0.1 * self.k) * (1 + 0.01 * z) * _lg(t, 0.02) * (1 + 1e-4 * w)


class MockAD(AtomicData):
    """k: overall scale (distinguishes providers); metastables: number of beam CX metastable rates;
    raise_for: set of method names that raise RuntimeError (provider with a missing rate)."""

    def __init__(self, k, metastables=1, raise_for=()):
        self.k = k
        self.metastables = metastables
        self.raise_for = set(raise_for)

    def _chk(self, name):
        if name in self.raise_for:
            raise RuntimeError("mock provider: no data for " + name)

    def wavelength(self, ion, charge, transition):
        self._chk("wavelength")
        return 400.0 + 20.0 * ion.atomic_number + 3.0 * charge + 10.0 * _tr(transition) + 0.5 * self.k

    def beam_stopping_rate(self, beam_ion, plasma_ion, charge):
        self._chk("beam_stopping_rate")
        return _BS(self.k * (1 + 0.3 * charge) * (1 + 0.01 * plasma_ion.atomic_number) * (1 + 0.02 * beam_ion.atomic_weight))

    def beam_population_rate(self, beam_ion, metastable, plasma_ion, charge):
        self._chk("beam_population_rate")
        return _BP(self.k * (1 + 0.2 * metastable) * (1 + 0.1 * charge) * (1 + 0.01 * plasma_ion.atomic_number))

    def beam_emission_pec(self, beam_ion, plasma_ion, charge, transition):
        self._chk("beam_emission_pec")
        return _BE(self.k * (1 + 0.25 * charge) * (1 + 0.01 * plasma_ion.atomic_number) * _tr(transition))

    def beam_cx_pec(self, donor_ion, receiver_ion, receiver_charge, transition):
        self._chk("beam_cx_pec")
        return [_CX(m, self.k * (1 + 0.7 * (m - 1)) * (1 + 0.1 * receiver_charge) * _tr(transition) * (1 + 0.02 * donor_ion.atomic_weight))
                for m in range(1, self.metastables + 1)]

    def impact_excitation_pec(self, ion, charge, transition):
        self._chk("impact_excitation_pec")
        return _PEC(self.k * (1 + 0.1 * ion.atomic_number) * (1 + 0.3 * charge) * _tr(transition))

    def recombination_pec(self, ion, charge, transition):
        self._chk("recombination_pec")
        return _RPEC(self.k * (1 + 0.1 * ion.atomic_number) * (1 + 0.3 * charge) * _tr(transition))

    def thermal_cx_pec(self, donor_ion, donor_charge, receiver_ion, receiver_charge, transition):
        self._chk("thermal_cx_pec")
        return _TPEC(self.k * (1 + 0.05 * donor_ion.atomic_weight) * (1 + 0.4 * donor_charge) * (1 + 0.1 * receiver_ion.atomic_number)
                     * (1 + 0.3 * receiver_charge) * _tr(transition))

    def line_radiated_power_rate(self, element, charge):
        self._chk("line_radiated_power_rate")
        return _LP(element, charge, self.k * (1 + 0.1 * element.atomic_number) * (1 + 0.2 * charge))

    def continuum_radiated_power_rate(self, element, charge):
        self._chk("continuum_radiated_power_rate")
        return _CP(element, charge, 0.3 * self.k * (1 + 0.1 * element.atomic_number) * (1 + 0.2 * charge))

    def cx_radiated_power_rate(self, element, charge):
        self._chk("cx_radiated_power_rate")
        return _XP(element, charge, 0.1 * self.k * (1 + 0.1 * element.atomic_number) * (1 + 0.2 * charge))

    def free_free_gaunt_factor(self):
        self._chk("free_free_gaunt_factor")
        return _G(self.k)

    def zeeman_triplet_parameters(self, line):
        return (1e-3 * self.k, 2e-3, 1.5)
