"""Exhaustive generator of simple lattice polygons and exact (rational) polygon predicates.

Shared reference code (C13 polygon mask, C17 voxels).  Nothing here imports cherab or raysect and nothing
uses floating-point arithmetic to take a decision: coordinates are converted with `fractions.Fraction`
(a float converts to the rational it *is*), so every predicate is exact for the numbers actually passed.

API
---
simple_polygons(grid_n, min_vertices, max_vertices)
    yields every simple polygon whose vertices are distinct points of the integer lattice
    {0..grid_n-1}^2, with min_vertices <= #vertices <= max_vertices, as a tuple of (x, y) int tuples.
    "Simple" is strict: non-adjacent edges are disjoint (no crossing, no touching), adjacent edges share
    only their common vertex, and no three consecutive vertices are collinear (no straight-angle or
    fold-back vertices; see `collinear_variants` for the former).  Each polygon is yielded exactly once, in
    canonical form: the first vertex is the lexicographically smallest one and the second vertex is
    smaller than the last one (this fixes the start vertex and the direction of traversal; the yielded
    direction may be clockwise or counter-clockwise).  Order of generation is deterministic
    (vertex count ascending, then lexicographic).
rotations_and_directions(poly)
    all 2n presentations of the same polygon (every start vertex, both traversal directions).
collinear_variants(poly)
    for every edge, the polygon with the edge midpoint inserted as an extra (straight-angle) vertex.
point_in_polygon_exact(poly, px, py) -> 'in' | 'out' | 'boundary'
shoelace_area_exact(poly, signed=False) -> Fraction
centroid_exact(poly) -> (Fraction, Fraction)         (area centroid)
is_simple(poly, allow_collinear=False), is_convex(poly), orientation(poly) -> +1 ccw / -1 cw
"""
from fractions import Fraction

__all__ = [
    "simple_polygons", "rotations_and_directions", "collinear_variants", "point_in_polygon_exact",
    "shoelace_area_exact", "centroid_exact", "is_simple", "is_convex", "orientation", "count_simple_polygons",
]


# ------------------------------------------------------------------------------------------------ predicates
def _orient(a, b, c):
    """Twice the signed area of triangle abc (exact for ints and Fractions)."""
    return (b[0] - a[0]) * (c[1] - a[1]) - (b[1] - a[1]) * (c[0] - a[0])


def _in_box(a, b, c):
    """c inside the closed bounding box of segment ab."""
    return min(a[0], b[0]) <= c[0] <= max(a[0], b[0]) and min(a[1], b[1]) <= c[1] <= max(a[1], b[1])


def _segments_touch(p1, p2, p3, p4):
    """True if closed segments p1p2 and p3p4 have at least one common point."""
    o1, o2 = _orient(p1, p2, p3), _orient(p1, p2, p4)
    o3, o4 = _orient(p3, p4, p1), _orient(p3, p4, p2)
    if o1 != 0 and o2 != 0 and o3 != 0 and o4 != 0:
        return ((o1 > 0) != (o2 > 0)) and ((o3 > 0) != (o4 > 0))
    if o1 == 0 and _in_box(p1, p2, p3):
        return True
    if o2 == 0 and _in_box(p1, p2, p4):
        return True
    if o3 == 0 and _in_box(p3, p4, p1):
        return True
    if o4 == 0 and _in_box(p3, p4, p2):
        return True
    return False


def _exact(v):
    """int stays int (fast path: pure integer arithmetic); anything else becomes the Fraction it equals."""
    return v if type(v) is int else Fraction(v)


def _frac_poly(poly):
    return [(_exact(x), _exact(y)) for x, y in poly]


def is_simple(poly, allow_collinear=False):
    """Exact simplicity test of a closed polygon given as a vertex sequence (no repeated closing vertex).

    allow_collinear=True admits straight-angle vertices (a vertex in the interior of the segment joining
    its neighbours); fold-back vertices are never admitted."""
    P = _frac_poly(poly)
    n = len(P)
    if n < 3 or len(set(P)) != n:
        return False
    for i in range(n):
        a, b, c = P[i - 1], P[i], P[(i + 1) % n]
        if _orient(a, b, c) == 0:
            if not allow_collinear:
                return False
            # straight angle: b strictly between a and c; otherwise the edges overlap (fold back)
            if not (_in_box(a, c, b) and b != a and b != c):
                return False
    for i in range(n):
        for j in range(i + 1, n):
            if (i + 1) % n == j or (j + 1) % n == i:
                continue  # adjacent edges: handled by the vertex test above
            if _segments_touch(P[i], P[(i + 1) % n], P[j], P[(j + 1) % n]):
                return False
    return True


def shoelace_area_exact(poly, signed=False):
    """Exact area by the shoelace formula; signed=True gives +area for counter-clockwise order."""
    P = _frac_poly(poly)
    n = len(P)
    s = Fraction(0)
    for i in range(n):
        x0, y0 = P[i]
        x1, y1 = P[(i + 1) % n]
        s += x0 * y1 - x1 * y0
    s /= 2
    return s if signed else abs(s)


def orientation(poly):
    """+1 counter-clockwise, -1 clockwise, 0 degenerate."""
    a = shoelace_area_exact(poly, signed=True)
    return (a > 0) - (a < 0)


def centroid_exact(poly):
    """Exact area centroid (first moments / area) of a simple polygon; independent of orientation."""
    P = _frac_poly(poly)
    n = len(P)
    a2 = Fraction(0)
    cx = Fraction(0)
    cy = Fraction(0)
    for i in range(n):
        x0, y0 = P[i]
        x1, y1 = P[(i + 1) % n]
        w = x0 * y1 - x1 * y0
        a2 += w
        cx += (x0 + x1) * w
        cy += (y0 + y1) * w
    if a2 == 0:
        raise ValueError("degenerate polygon (zero area)")
    return cx / (3 * a2), cy / (3 * a2)


def is_convex(poly):
    """Strictly or weakly convex (straight angles allowed)."""
    P = _frac_poly(poly)
    n = len(P)
    sgn = 0
    for i in range(n):
        o = _orient(P[i - 1], P[i], P[(i + 1) % n])
        if o != 0:
            s = 1 if o > 0 else -1
            if sgn == 0:
                sgn = s
            elif s != sgn:
                return False
    return sgn != 0


def point_in_polygon_exact(poly, px, py):
    """Exact point-in-polygon by the crossing-number rule (rational arithmetic, no rounding anywhere).

    Returns 'boundary' if the point lies on an edge or a vertex, else 'in' or 'out'.  Works for either
    orientation, convex or concave polygons, and polygons with straight-angle vertices.  Coordinates may be
    ints, Fractions or floats (a float is taken as the rational number it represents); when everything is
    an int the computation stays in integers."""
    P = _frac_poly(poly)
    qx, qy = _exact(px), _exact(py)
    q = (qx, qy)
    n = len(P)
    inside = False
    for i in range(n):
        a, b = P[i], P[(i + 1) % n]
        if _orient(a, b, q) == 0 and _in_box(a, b, q):
            return "boundary"
        # half-open rule: the edge counts if it spans the horizontal line through q (a.y > q.y xor b.y > q.y)
        # and q is strictly left of the edge's intersection with that line:
        #   q.x < a.x + (q.y - a.y) (b.x - a.x) / (b.y - a.y), multiplied through by (b.y - a.y)
        if (a[1] > qy) != (b[1] > qy):
            dy = b[1] - a[1]
            lhs = (qx - a[0]) * dy
            rhs = (qy - a[1]) * (b[0] - a[0])
            if (lhs < rhs) if dy > 0 else (lhs > rhs):
                inside = not inside
    return "in" if inside else "out"


# ------------------------------------------------------------------------------------------------ presentations
def rotations_and_directions(poly):
    """All 2n vertex sequences describing the same polygon: every start vertex, both directions.
    The first one yielded is `poly` itself."""
    P = tuple(tuple(v) for v in poly)
    n = len(P)
    R = P[::-1]
    for k in range(n):
        yield P[k:] + P[:k]
    for k in range(n):
        yield R[k:] + R[:k]


def collinear_variants(poly):
    """For every edge i -> i+1, the polygon with the exact edge midpoint inserted between the two vertices
    (a straight-angle vertex).  Coordinates stay exact: ints when the midpoint is a lattice point, else
    Fractions with denominator 2 (exactly representable as floats)."""
    P = tuple(tuple(v) for v in poly)
    n = len(P)
    for i in range(n):
        a, b = P[i], P[(i + 1) % n]
        m = []
        for u, v in zip(a, b):
            s = Fraction(u) + Fraction(v)
            h = s / 2
            m.append(int(h) if h.denominator == 1 else h)
        yield P[: i + 1] + (tuple(m),) + P[i + 1:]


# ------------------------------------------------------------------------------------------------ enumeration
def _enumerate(grid_n, nv):
    """All canonical simple polygons with exactly nv vertices on the grid_n x grid_n lattice (depth-first
    search over vertex sequences with early pruning; integer arithmetic only)."""
    pts = [(x, y) for x in range(grid_n) for y in range(grid_n)]  # lexicographic order
    out = []
    path = []

    def edge_ok(new):
        """May `new` be appended to the open path?"""
        k = len(path)
        if k >= 2 and _orient(path[-2], path[-1], new) == 0:
            return False
        a = path[-1]
        # the new edge (a, new) against all earlier edges except the adjacent one (path[-2], a)
        for i in range(k - 2):
            if _segments_touch(path[i], path[i + 1], a, new):
                return False
        # `new` must not lie on the adjacent previous edge either (covered by the collinearity test)
        return True

    def close_ok():
        k = len(path)
        s, a = path[0], path[-1]
        if path[1] > a:  # canonical direction
            return False
        if _orient(path[-2], a, s) == 0 or _orient(a, s, path[1]) == 0:
            return False
        for i in range(1, k - 2):
            if _segments_touch(path[i], path[i + 1], a, s):
                return False
        return True

    def rec(used):
        if len(path) == nv:
            if close_ok():
                out.append(tuple(path))
            return
        s = path[0]
        for p in pts:
            if p <= s or p in used:
                continue
            if not edge_ok(p):
                continue
            path.append(p)
            used.add(p)
            rec(used)
            used.discard(p)
            path.pop()

    for s in pts:
        path[:] = [s]
        rec({s})
    return out


def simple_polygons(grid_n, min_vertices, max_vertices):
    """See the module docstring."""
    if grid_n < 2 or min_vertices < 3:
        raise ValueError("grid_n >= 2 and min_vertices >= 3 required")
    for nv in range(min_vertices, max_vertices + 1):
        if nv > grid_n * grid_n:
            break
        for P in _enumerate(grid_n, nv):
            yield P


def count_simple_polygons(grid_n, nv):
    return len(_enumerate(grid_n, nv))
