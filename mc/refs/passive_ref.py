"""Reference model for C03 (passive emission totals).  Pure python / numpy / scipy.constants.

Nothing in here imports cherab.  The documented expressions are evaluated from their definitions:

  excitation     eps = 1/(4 pi) n_Z     n_e PEC_exc(n_e, T_e)
  recombination  eps = 1/(4 pi) n_(Z+1) n_e PEC_rec(n_e, T_e)
  thermal CX     eps = 1/(4 pi) n_(Z+1) sum_donors n_d PEC_cx,d(n_e, T_e, T_d)
  total power    eps = 1/(4 pi dlambda) ( n_Z n_e C_plt + n_(Z+1) n_e C_prb + n_(Z+1) n_hyd C_prc )
  bremsstrahlung Hutchinson, Principles of Plasma Diagnostics 2nd ed., eq. 5.3.40, converted to W/m^3/sr/nm

together with the rule of the property statement that a term is zero as soon as a density or a temperature it
depends on is non-positive.

The *rate coefficients* are inputs of the property ("for all rate-coefficient tables"): the harness uses total,
strictly positive functions  c0 * f(ne)^a * f(te)^b * f(td)^c  whose constants are derived from a hash of the
complete key (family, element, charge, [donor element, donor charge, receiver ...], transition), so that a
coefficient requested for a wrong species / charge / donor / transition, or evaluated with swapped arguments,
changes the number.  coef() below is that function; the mock AtomicData of passive_mock.py calls it, and so does
the reference, each with the key it believes to be the right one.
"""
import hashlib
import math

import numpy as np
from scipy import constants as sc

FOUR_PI = 4.0 * math.pi

# ---------------------------------------------------------------------------------------------------------------
# species universe
# ---------------------------------------------------------------------------------------------------------------
# label -> (cherab element attribute name, atomic number, standard atomic weight)
ELEMENT_OF_PREFIX = {
    "H": ("hydrogen", 1, 1.00794),
    "D": ("deuterium", 1, 2.0141017778),
    "T": ("tritium", 1, 3.0160492777),
    "He": ("helium", 2, 4.002602),
    "C": ("carbon", 6, 12.0107),
    "Ne": ("neon", 10, 20.1797),
}
ELEMENT_ORDER = ["hydrogen", "deuterium", "tritium", "helium", "carbon", "neon"]
Z_OF = {v[0]: v[1] for v in ELEMENT_OF_PREFIX.values()}
WEIGHT_OF = {v[0]: v[2] for v in ELEMENT_OF_PREFIX.values()}
HYDROGEN_ISOTOPES = ("hydrogen", "deuterium", "tritium")

TRANSITIONS = [(3, 2), (2, 1), (8, 7), (11, 10), ("4f", "3d"), ("1s3d 1D", "1s2p 1P")]


def parse_label(label):
    """'C5' -> ('carbon', 5)"""
    i = 0
    while i < len(label) and label[i].isalpha():
        i += 1
    el = ELEMENT_OF_PREFIX[label[:i]][0]
    return el, int(label[i:])


def is_bare(label):
    el, q = parse_label(label)
    return q >= Z_OF[el]


# ---------------------------------------------------------------------------------------------------------------
# the rate-coefficient input family
# ---------------------------------------------------------------------------------------------------------------
def _unit(key, i):
    h = hashlib.blake2b(repr((key, i)).encode(), digest_size=8).digest()
    return int.from_bytes(h, "big") / 2.0 ** 64


_PARAM_CACHE = {}


def params(key):
    """(c0, a, b, c) of the coefficient with this key."""
    p = _PARAM_CACHE.get(key)
    if p is None:
        p = (10.0 ** (-34.0 + 2.0 * _unit(key, 0)), -0.4 + 0.8 * _unit(key, 1), -0.5 + 1.0 * _unit(key, 2), 0.1 + 0.5 * _unit(key, 3))
        _PARAM_CACHE[key] = p
    return p


def _f(x, x0, p):
    # total and strictly positive on the reals, a power law for x >> 1e-3 x0
    return (abs(x) / x0 + 1e-3) ** p


def coef(key, ne, te, td=None):
    c0, a, b, c = params(key)
    v = c0 * _f(ne, 1e19, a) * _f(te, 100.0, b)
    if td is not None:
        v *= _f(td, 100.0, c)
    return v


def tr_key(transition):
    return tuple(transition)


def wavelength(el, charge, transition):
    """Distinct natural wavelength per (element, charge, transition): 200 nm * 1.02^k.  Neighbouring lines are 2 %
    apart, the observation windows used for line models are +-0.8 % wide and 10 sigma of the hottest/lightest
    species (H at 300 eV * 1.3125) is 0.65 %, so a line placed at the wavelength of any other key falls completely
    outside the window of the right one."""
    pairs = [(e, q) for e in ELEMENT_ORDER for q in range(Z_OF[e])]
    k = pairs.index((el, charge)) * len(TRANSITIONS) + TRANSITIONS.index(tr_key(transition))
    return 200.0 * 1.02 ** k


# ---------------------------------------------------------------------------------------------------------------
# spatial profile: every plasma quantity is  v0 * profile(x, y, z)
# ---------------------------------------------------------------------------------------------------------------
def profile(p, xdep=True):
    x, y, z = p
    return 1.0 + (0.5 * x if xdep else 0.0) + 0.25 * y + 0.125 * z


# ---------------------------------------------------------------------------------------------------------------
# documented expressions
# ---------------------------------------------------------------------------------------------------------------
def excitation_radiance(el, q, tr, ne, te, dens):
    """dens: {(element, charge): density at the point}.  Returns the wavelength-integrated radiance."""
    n = dens[(el, q)]
    if ne <= 0 or te <= 0 or n <= 0:
        return 0.0
    return coef(("exc", el, q, tr_key(tr)), ne, te) * ne * n / FOUR_PI


def recombination_radiance(el, q, tr, ne, te, dens):
    n = dens[(el, q + 1)]
    if ne <= 0 or te <= 0 or n <= 0:
        return 0.0
    return coef(("rec", el, q, tr_key(tr)), ne, te) * ne * n / FOUR_PI


def thermal_cx_donors(el, q, species):
    """species: iterable of (element, charge).  Eligible donors: everything except the receiver and bare nuclei."""
    return [(e, c) for (e, c) in species if (e, c) != (el, q + 1) and c < Z_OF[e]]


def thermal_cx_radiance(el, q, tr, ne, te, dens, temp):
    nrec = dens[(el, q + 1)]
    if ne <= 0 or te <= 0 or nrec <= 0:
        return 0.0
    s = 0.0
    for (e, c) in thermal_cx_donors(el, q, dens.keys()):
        nd, td = dens[(e, c)], temp[(e, c)]
        if nd <= 0 or td <= 0:       # a term is zero when a density / temperature it depends on is non-positive
            continue
        s += nd * coef(("cx", e, c, el, q + 1, tr_key(tr)), ne, te, td)
    return nrec * s / FOUR_PI


def total_power_terms(el, q, ne, te, dens):
    """The three power-density terms [W/m^3] of the documented sum."""
    if ne <= 0 or te <= 0:
        return 0.0, 0.0, 0.0
    ni, nup = dens[(el, q)], dens[(el, q + 1)]
    nhyd = sum(dens[(h, 0)] for h in HYDROGEN_ISOTOPES if (h, 0) in dens)   # documented: total density of all hydrogen isotopes
    t1 = coef(("plt", el, q), ne, te) * ne * ni if ni > 0 else 0.0
    t2 = coef(("prb", el, q + 1), ne, te) * ne * nup if nup > 0 else 0.0
    t3 = coef(("prc", el, q + 1), ne, te) * nhyd * nup if (nup > 0 and nhyd > 0) else 0.0
    return t1, t2, t3


# --- line shapes (only what is needed to know which fraction of a line lies inside the window) -----------------
def thermal_sigma(wl, t_ev, weight):
    return math.sqrt(t_ev * sc.e / (weight * sc.atomic_mass)) * wl / sc.c


def gaussian_fraction(components, sigma, lo, hi):
    """components: [(centre, ratio)].  Fraction of the normalised profile inside [lo, hi]."""
    s = 0.0
    for mu, r in components:
        s += r * 0.5 * (math.erf((hi - mu) / (math.sqrt(2.0) * sigma)) - math.erf((lo - mu) / (math.sqrt(2.0) * sigma)))
    return s


# --- bremsstrahlung --------------------------------------------------------------------------------------------
# Hutchinson 5.3.40:  4 pi j(nu) = n_e n_i Z^2 (e^2/(4 pi eps0))^3  32 pi^2 / (3 sqrt3 m^2 c^3)  (2 m/(pi T))^(1/2)
#                                  exp(-h nu / T) g_ff              [W m^-3 Hz^-1],  T in joule = e * T[eV]
_BREMS_K = ((sc.e ** 2 / (FOUR_PI * sc.epsilon_0)) ** 3 * 32.0 * math.pi ** 2 / (3.0 * math.sqrt(3.0) * sc.m_e ** 2 * sc.c ** 3)
            * math.sqrt(2.0 * sc.m_e / (math.pi * sc.e)))


def brems_emissivity(wl, ne, te, ions, gaunt):
    """Spectral emissivity [W/m^3/sr/nm] at wavelength wl [nm].  ions: [(Z, n_i)], gaunt(Z, te, wl)."""
    if ne <= 0 or te <= 0:
        return 0.0
    s = 0.0
    for z, n in ions:
        if n > 0:
            s += n * z * z * gaunt(float(z), te, wl)
    nu = sc.c * 1e9 / wl                     # Hz for wl in nm
    j_nu = _BREMS_K * ne * s / math.sqrt(te) * math.exp(-sc.h * nu / (sc.e * te)) / FOUR_PI
    return j_nu * sc.c * 1e9 / (wl * wl)     # |d nu / d lambda|, lambda in nm


_GL = {}


def gauss_legendre(f, a, b, order):
    if order not in _GL:
        _GL[order] = np.polynomial.legendre.leggauss(order)
    x, w = _GL[order]
    c, d = 0.5 * (a + b), 0.5 * (b - a)
    return d * sum(wi * f(c + d * xi) for xi, wi in zip(x, w))


def integral(f, a, b, panels=6, order=10):
    """Reference integral of a smooth integrand: composite Gauss-Legendre (cross-checked against scipy quad in the check's self test)."""
    h = (b - a) / panels
    return sum(gauss_legendre(f, a + i * h, a + (i + 1) * h, order) for i in range(panels))


def mock_gaunt(z, te, wl):
    """The Gaunt factor returned by the mock provider: positive, different in each argument."""
    return 0.8 + 0.05 * z + 0.1 * te / (te + 50.0) + 0.3 * wl / (wl + 400.0)


# Born / classical limits and the (u, gamma^2) parametrisation of the tabulated Gaunt factor, as documented in
# InterpolatedFreeFreeGauntFactor: u = h nu / kT, gamma^2 = Z^2 Ry / kT.
RYDBERG_EV = sc.physical_constants["Rydberg constant times hc in eV"][0]
EULER_GAMMA = 0.5772156649015329


def gaunt_u_gamma2(z, te, wl):
    return sc.h * sc.c * 1e9 / (sc.e * te * wl), z * z * RYDBERG_EV / te


def gaunt_born(u):
    return math.sqrt(3.0) / math.pi * (math.log(4.0 / u) - EULER_GAMMA)
