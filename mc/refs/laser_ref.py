"""Reference model for C18 (laser profiles and laser spectra).

Everything here is written from the documented formulae (class docstrings of
cherab.core.model.laser.profile / laserspectrum and cherab.core.laser.laserspectrum), not from the
implementation:

* transverse integral of a pulse-averaged profile  = E_p / (c tau)                 [J/m]
* TrivariateGaussian:  E(x,y,z) = E_p N(x;0,sx) N(y;0,sy) N(z;mu_z, c tau),  volume integral = E_p
* laser segments: consecutive cylinders of the laser radius that tile [0, laser_length] once
* spectrum bin i = [min + i d, min + (i+1) d],  d = (max-min)/bins,  centre = min + (i+1/2) d,
  power_i = integral of the unit-power density over bin i,  psd_i = power_i / d
  - ConstantSpectrum: density 1/(max-min) on [min, max], 0 outside
  - GaussianSpectrum: density N(x; mean, stddev)

The quadrature used for the integrals is a plain trapezoid rule on a uniform grid whose step and
extent are taken from the *measured* 1-sigma half width of the function under test (found by
bisection on f(r)/f(0) = exp(-1/2)); for a Gaussian with step s/2 the trapezoid rule on the whole
line has a relative error of exp(-2 pi^2 s^2/h^2) = exp(-8 pi^2) ~ 5e-35 and truncation at 10 s
leaves erfc(10/sqrt2) ~ 1.5e-23, so rounding (fsum is used) is the only error left.
"""
import math

C_LIGHT = 299792458.0  # m/s, exact SI value (not imported from cherab)

HALF_E = math.exp(-0.5)


def normal_pdf(x, mu, s):
    t = (x - mu) / s
    return math.exp(-0.5 * t * t) / (s * math.sqrt(2.0 * math.pi))


def normal_interval(a, b, mu, s):
    """P(a < X < b) for X ~ N(mu, s), without cancellation in the tails."""
    from scipy.special import ndtr
    ta, tb = (a - mu) / s, (b - mu) / s
    if ta > 0:  # both in the upper tail: use the survival function
        return float(ndtr(-ta) - ndtr(-tb))
    return float(ndtr(tb) - ndtr(ta))


def half_width(f, lo=1e-9, hi=1e12):
    """r > 0 with f(r) = exp(-1/2) f(0) for a function decreasing in r; None if there is none."""
    f0 = f(0.0)
    if not (f0 > 0.0) or math.isinf(f0) or f0 != f0:
        return None
    target = HALF_E * f0
    r = lo
    if f(r) < target:
        return None
    while f(r) >= target:
        r *= 2.0
        if r > hi:
            return None
    a, b = r / 2.0, r
    for _ in range(80):
        m = 0.5 * (a + b)
        if f(m) >= target:
            a = m
        else:
            b = m
    return 0.5 * (a + b)


def grid(s, half_steps=20, per_sigma=2):
    h = s / per_sigma
    return [k * h for k in range(-half_steps, half_steps + 1)], h


def moments_xy(f, z, sx, sy):
    """Trapezoid integral, <x^2>, <y^2>, <x>, <y> of f(x, y, z) over the plane z = const."""
    xs, hx = grid(sx)
    ys, hy = grid(sy)
    v0, vxx, vyy, vx, vy = [], [], [], [], []
    for x in xs:
        for y in ys:
            v = f(x, y, z)
            v0.append(v)
            vxx.append(v * x * x)
            vyy.append(v * y * y)
            vx.append(v * x)
            vy.append(v * y)
    w = hx * hy
    i0 = math.fsum(v0) * w
    if not i0 > 0:
        return i0, float("nan"), float("nan"), float("nan"), float("nan")
    return i0, math.fsum(vxx) * w / i0, math.fsum(vyy) * w / i0, math.fsum(vx) * w / i0, math.fsum(vy) * w / i0


def moments_xyz(f, zc, sx, sy, sz):
    """Trapezoid volume integral, <z>, <(z-<z>)^2> of f over a box centred on (0, 0, zc)."""
    xs, hx = grid(sx)
    ys, hy = grid(sy)
    zs, hz = grid(sz)
    v0, v1, v2 = [], [], []
    for dz in zs:
        z = zc + dz
        plane = []
        for x in xs:
            for y in ys:
                plane.append(f(x, y, z))
        p = math.fsum(plane)
        v0.append(p)
        v1.append(p * dz)
        v2.append(p * dz * dz)
    w = hx * hy * hz
    i0 = math.fsum(v0) * w
    if not i0 > 0:
        return i0, float("nan"), float("nan")
    m1 = math.fsum(v1) * w / i0
    m2 = math.fsum(v2) * w / i0 - m1 * m1
    return i0, zc + m1, m2


def tiling_errors(segs, radius, length, tol=1e-12):
    """segs: list of (radius, height, z_offset, is_pure_z_translation).  Returns a list of
    (label, expected, observed) for every way the segments fail to tile [0, length] exactly once."""
    bad = []
    if not segs:
        return [("no-segments", ">= 1 segment", 0)]
    eps = tol * max(length, 1e-300)
    s = sorted(segs, key=lambda t: t[2])
    if any(not t[3] for t in s):
        bad.append(("transform-not-z-translation", "translate(0, 0, z)", "other matrix"))
    if any(abs(t[0] - radius) > tol * radius for t in s):
        bad.append(("radius", radius, [t[0] for t in s]))
    if any(not t[1] > 0 for t in s):
        bad.append(("non-positive-height", "> 0", [t[1] for t in s]))
    if abs(s[0][2]) > eps:
        bad.append(("start!=0", 0.0, s[0][2]))
    for a, b in zip(s, s[1:]):
        gap = b[2] - (a[2] + a[1])
        if gap > eps:
            bad.append(("gap", 0.0, gap))
            break
        if gap < -eps:
            bad.append(("overlap", 0.0, gap))
            break
    end = s[-1][2] + s[-1][1]
    if abs(end - length) > eps:
        bad.append(("end!=length", length, end))
    tot = math.fsum(t[1] for t in s)
    if abs(tot - length) > eps:
        bad.append(("total-height!=length", length, tot))
    return bad


def spectrum_reference(kind, mn, mx, bins, mean=None, stddev=None):
    """dict with delta, centres, bin powers, psd of the documented binning."""
    d = (mx - mn) / bins
    centres = [mn + (i + 0.5) * d for i in range(bins)]
    if kind == "constant":
        power = [1.0 / bins] * bins
        psd = [1.0 / (mx - mn)] * bins
    else:
        power = [normal_interval(mn + i * d, mn + (i + 1) * d, mean, stddev) for i in range(bins)]
        psd = [p / d for p in power]
    return {"delta": d, "centres": centres, "power": power, "psd": psd}


def density_reference(kind, x, mn, mx, mean=None, stddev=None):
    if kind == "constant":
        return 1.0 / (mx - mn) if mn <= x <= mx else 0.0
    return normal_pdf(x, mean, stddev)
