"""Independent exact chord lengths of rays in the cells of regular grids (reference model of C10).

Nothing here imports cherab or raysect.  All functions are vectorised over N rays given in the *local*
frame of the grid (origin `o` (N,3), unit direction `d` (N,3)); only the part t >= 0 of a ray counts.

Two different methods are used on purpose:

* Cartesian grids: **slab clipping** of the ray against every cell box (cell ∩ bounding primitive).
* (R, phi, Z) grids: **event sorting** - all intersections of the ray with the coaxial cylinders
  r = rmin + i*dr, the planes z = k*dz and the half-planes phi = j*dphi (all periodic images), plus the
  surfaces of the bounding primitive, are sorted along the ray; between two consecutive events the ray
  stays in one cell, which is identified from the *midpoint* of the segment.

Floating point / degenerate rays.  A ray that lies *in* a cell boundary (or a segment whose midpoint is
within `delta` of one) has no well defined owner cell.  Instead of guessing, every quantity is returned as
a pair of bounds: `*_lo` counts only what is unambiguously inside (cells shrunk by delta / unique owner),
`*_hi` counts everything that may be inside (cells grown by delta / every candidate owner).  For a
non-degenerate ray hi - lo is O(delta).

Bounding primitive (documented in cherab/tools/raytransfer/raytransfer.py): the grid is enclosed in a
primitive that is *smaller* than the grid by 1e-5 of a cell at the upper bounds (and, for the cylinder,
larger by 1e-5*dr at the inner radius - also when the inner radius is 0, i.e. a thin hole on the axis).
Chords are those inside this primitive.

Integration step.  The documented algorithm samples every connected piece of the chord (a *piece* = one
pass of the ray through the primitive) at n = max(min_samples, int(length/step)) midpoints with
dt = length/n; pieces shorter than 0.1*step are skipped by the integrator.  `dt` returned here is the
largest dt over the pieces of the ray (n taken on the conservative side when length/step is within 1e-9
of an integer); pieces that may be skipped are excluded from the `*_lo` bounds.
"""
import numpy as np

EPS_CELL = 1.0e-5     # shrink of the bounding primitive, in cells
# Geometric ambiguity distance (m).  raysect starts the volume integration not at the surface hit point but
# at a point displaced by EPSILON = 1e-9 m along the surface normal (raysect/primitive/box.pyx,
# cylinder.pyx: inside_point / outside_point), once per surface crossing, so the line actually integrated
# is displaced from the requested ray by up to ~4e-9 m after four crossings (hollow cylinder).  The chord
# of a displaced line in a body B is the chord of the original line in a translated copy of B, which lies
# between B shrunk and B grown by the displacement: that is what the lo/hi bounds below deliver.
DELTA = 5.0e-9
MIN_SAMPLES = 2


def _piece_dt(length, step):
    """integration step of a piece of given length (array), conservative (largest admissible)."""
    with np.errstate(invalid="ignore", divide="ignore"):
        q = length / step
        n = np.maximum(MIN_SAMPLES, np.floor(q - 1e-9))
        dt = np.where(length > 0, length / n, 0.0)
    return dt


def _slab(o, d, lo, hi):
    """Ray/box clipping.  o, d: (N,1,3) ; lo, hi: (1,C,3).  Returns (tmin, tmax) of shape (N,C) for the
    parameter interval inside the closed box, restricted to t >= 0 (empty interval: tmax < tmin)."""
    par = np.abs(d) < 1e-300
    with np.errstate(divide="ignore", invalid="ignore", over="ignore"):
        inv = 1.0 / np.where(par, 1.0, d)
        ta = (lo - o) * inv
        tb = (hi - o) * inv
    near = np.minimum(ta, tb)
    far = np.maximum(ta, tb)
    inside = (o >= lo) & (o <= hi)
    near = np.where(par, np.where(inside, -np.inf, np.inf), near)
    far = np.where(par, np.where(inside, np.inf, -np.inf), far)
    tmin = np.maximum(near.max(axis=2), 0.0)
    tmax = far.min(axis=2)
    return tmin, tmax


def box_reference(o, d, shape, cell, step, delta=DELTA):
    """Cartesian grid of `shape` cells of size `cell` starting at the origin, inside the primitive
    [0, n*cell*(1 - 1e-5/n)] i.e. upper bound reduced by 1e-5 cell.

    Returns dict with L_lo, L_hi (N, C) in C order (ix, iy, iz); chord_lo, chord_hi (N,); dt (N,);
    skippable (N,) bool (the only piece may be skipped by the 0.1*step rule); ambig (N,) = largest
    purely geometric hi-lo gap of a cell (large for rays lying in a cell boundary)."""
    o = np.asarray(o, float).reshape(-1, 1, 3)
    d = np.asarray(d, float).reshape(-1, 1, 3)
    shape = tuple(int(s) for s in shape)
    cell = np.asarray(cell, float)
    upper = np.array([shape[a] * cell[a] - EPS_CELL * cell[a] for a in range(3)])
    idx = np.array(list(np.ndindex(*shape)), float)            # (C,3)
    clo = idx * cell
    chi = np.minimum((idx + 1.0) * cell, upper)
    # unambiguous part: cells shrunk by delta ; possible part: cells grown by delta
    t0, t1 = _slab(o, d, (clo + delta)[None], (chi - delta)[None])
    L_lo = np.maximum(t1 - t0, 0.0)
    t0, t1 = _slab(o, d, (clo - delta)[None], (chi + delta)[None])
    L_hi = np.maximum(t1 - t0, 0.0)
    z = np.zeros((1, 1, 3))
    t0, t1 = _slab(o, d, z + delta, (upper - delta)[None, None])
    chord_lo = np.maximum(t1 - t0, 0.0)[:, 0]
    t0, t1 = _slab(o, d, z - delta, (upper + delta)[None, None])
    chord_hi = np.maximum(t1 - t0, 0.0)[:, 0]
    L_lo[~np.isfinite(L_lo)] = 0.0
    ambig = (L_hi - L_lo).max(axis=1)
    dt = _piece_dt(chord_hi, step)
    skippable = chord_lo < 0.1 * step * (1 + 1e-6)
    L_lo = np.where(skippable[:, None], 0.0, L_lo)
    chord_lo = np.where(skippable, 0.0, chord_lo)
    # number of disjoint intervals of a cell on the ray: cells are convex
    return {"L_lo": L_lo, "L_hi": L_hi, "chord_lo": chord_lo, "chord_hi": chord_hi, "dt": dt,
            "skippable": skippable & (chord_hi > 0), "kmax": np.where(L_hi > 0, 1, 0).max(axis=1),
            "nint": np.where(L_hi > 0, 1, 0),
            "pieces": (chord_hi > 0).astype(int), "ambig": ambig}


def _tube_interval(o, d, rad):
    """parameter interval (t1, t2) where the line is inside the infinite cylinder of radius rad (empty: t2 < t1)"""
    a = d[:, 0] ** 2 + d[:, 1] ** 2
    b = o[:, 0] * d[:, 0] + o[:, 1] * d[:, 1]
    c = o[:, 0] ** 2 + o[:, 1] ** 2 - rad * rad
    vertical = a < 1e-300
    with np.errstate(divide="ignore", invalid="ignore", over="ignore"):
        disc = b * b - a * c
        ok = (disc > 0) & ~vertical & (rad > 0)
        sq = np.sqrt(np.where(ok, disc, 0.0))
        aa = np.where(vertical, 1.0, a)
        t1 = np.where(ok, (-b - sq) / aa, np.inf)
        t2 = np.where(ok, (-b + sq) / aa, -np.inf)
    inside = vertical & (c < 0) & (rad > 0)
    t1 = np.where(inside, -np.inf, t1)
    t2 = np.where(inside, np.inf, t2)
    return t1, t2


def annulus_chord(o, d, rin, rout, z0, z1):
    """Length of {t >= 0 : rin <= r(t) <= rout, z0 <= z(t) <= z1} by interval arithmetic (closed form:
    [outer tube] minus (inner tube), both cut by the slab) - independent of the event sorting below."""
    flat = np.abs(d[:, 2]) < 1e-300
    with np.errstate(divide="ignore", invalid="ignore", over="ignore"):
        inv = 1.0 / np.where(flat, 1.0, d[:, 2])
        ta, tb = (z0 - o[:, 2]) * inv, (z1 - o[:, 2]) * inv
    zin = (o[:, 2] >= z0) & (o[:, 2] <= z1)
    c1 = np.where(flat, np.where(zin, -np.inf, np.inf), np.minimum(ta, tb))
    c2 = np.where(flat, np.where(zin, np.inf, -np.inf), np.maximum(ta, tb))
    c1 = np.maximum(c1, 0.0)

    def cut(t1, t2):
        lo, hi = np.maximum(t1, c1), np.minimum(t2, c2)
        with np.errstate(invalid="ignore"):
            ln = hi - lo
        return np.where(np.isfinite(ln) & (ln > 0), ln, 0.0)
    a1, a2 = _tube_interval(o, d, rout)
    b1, b2 = _tube_interval(o, d, rin)
    return np.maximum(cut(a1, a2) - cut(b1, b2), 0.0)


def _count_intervals(nint, own, pos):
    """nint[ray, c] += number of maximal runs of consecutive positive-length segments owned by cell c
    (own: (N,S) cell index or -1; zero-length segments neither start nor interrupt a run)."""
    N, S = own.shape
    last = np.full(N, -2)
    ar = np.arange(N)
    for s in range(S):
        cs = own[:, s]
        live = pos[:, s]
        start = live & (cs >= 0) & (cs != last)
        if start.any():
            np.add.at(nint, (ar[start], cs[start]), 1)
        last = np.where(live, cs, last)


def cyl_reference(o, d, shape, rmin, rmax, height, period, step, delta=DELTA):
    """(R, phi, Z) grid: shape = (nr, nphi, nz), r in [rmin, rmax], z in [0, height], phi periodic with
    `period` degrees (nphi cells per period; nphi == 1 means axisymmetric).

    Returns dict with L_lo, L_hi (N, C) in C order (ir, iphi, iz); chord_lo, chord_hi; dt; skippable;
    nint (N, C) number of disjoint intervals of each cell on the ray (a cell of a periodic grid is the union
    of its 360/period images, and an annular cell can be entered twice; for a ray lying in a cell boundary
    every candidate owner cell is counted), kmax = nint.max(axis=1);
    pieces (number of passes through the primitive)."""
    o = np.asarray(o, float).reshape(-1, 3)
    d = np.asarray(d, float).reshape(-1, 3)
    N = o.shape[0]
    nr, nphi, nz = (int(s) for s in shape)
    dr = (rmax - rmin) / nr
    dz = height / nz
    dphi = period / nphi
    phi_slack = abs(360.0 - round(360.0 / period) * period)        # degrees
    rin_p = rmin + EPS_CELL * dr
    rout_p = rmax - EPS_CELL * dr
    h_p = height - EPS_CELL * dz

    ev = [np.zeros((N, 1))]
    # coaxial cylinders
    a = d[:, 0] ** 2 + d[:, 1] ** 2
    b = o[:, 0] * d[:, 0] + o[:, 1] * d[:, 1]
    rho2 = o[:, 0] ** 2 + o[:, 1] ** 2
    vertical = a < 1e-300
    radii = [rmin + i * dr for i in range(nr + 1)] + [rin_p, rout_p]
    with np.errstate(divide="ignore", invalid="ignore", over="ignore"):
        for rad in radii:
            if rad <= 0:
                continue
            disc = b * b - a * (rho2 - rad * rad)
            ok = (disc >= 0) & ~vertical
            sq = np.sqrt(np.where(ok, disc, 0.0))
            # numerically stable pair of roots
            qq = -(b + np.where(b >= 0, 1.0, -1.0) * sq)
            t1 = np.where(ok, qq / np.where(vertical, 1.0, a), np.inf)
            t2 = np.where(ok & (qq != 0), (rho2 - rad * rad) / np.where(qq != 0, qq, 1.0), np.inf)
            t2 = np.where(ok & (qq == 0), 0.0, t2)
            ev.append(t1[:, None])
            ev.append(t2[:, None])
        # horizontal planes
        zs = [k * dz for k in range(nz + 1)] + [h_p]
        flat = np.abs(d[:, 2]) < 1e-300
        for zz in zs:
            t = np.where(flat, np.inf, (zz - o[:, 2]) / np.where(flat, 1.0, d[:, 2]))
            ev.append(t[:, None])
        # half-planes phi = j*dphi (all images); the whole plane through the axis is intersected
        if nphi > 1:
            nhalf = int(round(360.0 / dphi))
            for j in range(nhalf):
                al = np.deg2rad(j * dphi)
                nx_, ny_ = -np.sin(al), np.cos(al)
                den = nx_ * d[:, 0] + ny_ * d[:, 1]
                num = -(nx_ * o[:, 0] + ny_ * o[:, 1])
                par = np.abs(den) < 1e-300
                t = np.where(par, np.inf, num / np.where(par, 1.0, den))
                ev.append(t[:, None])
    T = np.concatenate(ev, axis=1)
    T = np.where(np.isfinite(T), T, np.inf)
    T = np.where(T < 0, 0.0, T)
    T.sort(axis=1)
    ta, tb = T[:, :-1], T[:, 1:]
    fin = np.isfinite(tb)
    seg = np.where(fin, tb - np.where(fin, ta, 0.0), 0.0)
    tm = np.where(fin, 0.5 * (ta + np.where(fin, tb, 0.0)), 0.0)
    px = o[:, 0:1] + tm * d[:, 0:1]
    py = o[:, 1:2] + tm * d[:, 1:2]
    pz = o[:, 2:3] + tm * d[:, 2:3]
    r = np.hypot(px, py)

    in_hi = fin & (r >= rin_p - delta) & (r <= rout_p + delta) & (pz >= -delta) & (pz <= h_p + delta)
    in_lo = fin & (r >= rin_p + delta) & (r <= rout_p - delta) & (pz >= delta) & (pz <= h_p - delta)

    def cand(u, n):
        c0 = np.clip(np.floor(u[0]), 0, n - 1).astype(int)
        c1 = np.clip(np.floor(u[1]), 0, n - 1).astype(int)
        return c0, c1

    ir0, ir1 = cand(((r - delta - rmin) / dr, (r + delta - rmin) / dr), nr)
    iz0, iz1 = cand(((pz - delta) / dz, (pz + delta) / dz), nz)
    if nphi > 1:
        ph = np.rad2deg(np.arctan2(py, px))
        with np.errstate(divide="ignore", invalid="ignore", over="ignore"):
            dph = np.rad2deg(np.minimum(delta / np.maximum(r, 1e-300), 1.0))
        # a period that is only approximately a fraction of 360 degrees (the constructor accepts 360/period within 1e-3 of
        # an integer) does not tile the circle: where the images of a cell boundary lie is then defined only up to the
        # mismatch |360 - n*period|, which is added to the ambiguity of the owner (zero for an exact fraction)
        dph = dph + phi_slack
        dph = np.minimum(dph, 0.49 * dphi)
        ip0 = (np.floor(np.mod(ph + 360.0 - dph, period) / dphi).astype(int)) % nphi
        ip1 = (np.floor(np.mod(ph + 360.0 + dph, period) / dphi).astype(int)) % nphi
    else:
        ip0 = ip1 = np.zeros_like(ir0)

    # pieces: maximal runs of consecutive possibly-inside segments of positive length
    S = seg.shape[1]
    pos = seg > 0
    inside_run = in_hi & pos
    # a zero-length segment does not interrupt a run: propagate the previous state over it
    state = np.zeros((N, S), bool)
    prev = np.zeros(N, bool)
    pid = np.zeros((N, S), int)
    cur = np.zeros(N, int)
    for s in range(S):
        st = np.where(pos[:, s], inside_run[:, s], prev)
        new = st & ~prev
        cur = cur + new
        state[:, s] = st
        pid[:, s] = cur
        prev = st
    P = int(cur.max()) + 1 if N else 1
    plen = np.zeros((N, P + 1))
    rows = np.repeat(np.arange(N)[:, None], S, axis=1)
    np.add.at(plen, (rows[inside_run], pid[inside_run]), seg[inside_run])
    pdt = _piece_dt(plen, step)
    dt = pdt.max(axis=1)
    pskip = plen < 0.1 * step * (1 + 1e-6)
    seg_skip = np.take_along_axis(pskip, pid, axis=1)
    npieces = (plen > 0).sum(axis=1)

    C = nr * nphi * nz
    L_hi = np.zeros((N, C))
    L_lo = np.zeros((N, C))
    nint = np.zeros((N, C), int)   # number of disjoint intervals per cell (from unambiguous owners)
    uniq = (ir0 == ir1) & (ip0 == ip1) & (iz0 == iz1)
    for ca, ira in enumerate((ir0, ir1)):
        for cb, ipb in enumerate((ip0, ip1)):
            for cc, izc in enumerate((iz0, iz1)):
                m = in_hi & pos
                if ca:
                    m = m & (ir1 != ir0)
                if cb:
                    m = m & (ip1 != ip0)
                if cc:
                    m = m & (iz1 != iz0)
                if not m.any():
                    continue
                cellidx = (ira * nphi + ipb) * nz + izc
                np.add.at(L_hi, (rows[m], cellidx[m]), seg[m])
                _count_intervals(nint, np.where(m, cellidx, -1), pos)
    cell0 = (ir0 * nphi + ip0) * nz + iz0
    m = in_lo & pos & uniq & ~seg_skip
    np.add.at(L_lo, (rows[m], cell0[m]), seg[m])
    L_geo = np.zeros((N, C))
    m = in_lo & pos & uniq
    np.add.at(L_geo, (rows[m], cell0[m]), seg[m])
    ambig = (L_hi - L_geo).max(axis=1)
    chord_ev = np.where(inside_run, seg, 0.0).sum(axis=1)      # event-sorted total (cross-checked by the caller)
    skip_len = np.where(pskip, plen, 0.0).sum(axis=1)
    chord_hi = annulus_chord(o, d, rin_p - delta, rout_p + delta, -delta, h_p + delta)
    chord_lo_geo = annulus_chord(o, d, rin_p + delta, rout_p - delta, delta, h_p - delta)
    chord_lo = np.maximum(chord_lo_geo - skip_len, 0.0)
    skippable = (pskip & (plen > 0)).any(axis=1)
    return {"L_lo": L_lo, "L_hi": L_hi, "chord_lo": chord_lo, "chord_hi": chord_hi, "dt": dt,
            "skippable": skippable, "kmax": nint.max(axis=1), "nint": nint, "pieces": npieces, "ambig": ambig,
            "phi_slack_m": float(rmax * np.deg2rad(phi_slack)),
            "chord_events": chord_ev, "chord_lo_geo": chord_lo_geo, "events": T, "seg_inside": inside_run, "seg_piece": pid}


def sample_event_gap(ref, i, step, min_samples=None):
    """For ray i of a cyl_reference result: the smallest distance (m, along the ray) between a midpoint
    sample of the documented integration rule and a cell-boundary event, over all passes.  Returns 0.0
    when the number of samples itself is ambiguous (length/step within 1e-6 of an integer).  Used only to
    decide whether two traces of geometrically equivalent rays may legitimately differ by one sample."""
    ms = MIN_SAMPLES if min_samples is None else min_samples
    T = ref["events"][i]
    ins = ref["seg_inside"][i]
    pid = ref["seg_piece"][i]
    gap = np.inf
    ev = T[np.isfinite(T)]
    for p in np.unique(pid[ins]):
        segs = np.nonzero(ins & (pid == p))[0]
        t0, t1 = T[segs[0]], T[segs[-1] + 1]
        L = t1 - t0
        if L < 0.1 * step * (1 + 1e-6):
            if L > 0.1 * step * (1 - 1e-6):
                return 0.0
            continue
        q = L / step
        if q >= ms and abs(q - round(q)) < 1e-6:
            return 0.0
        n = max(ms, int(q))
        ts = t0 + (np.arange(n) + 0.5) * (L / n)
        inner = ev[(ev > t0 + 1e-12) & (ev < t1 - 1e-12)]
        if inner.size:
            gap = min(gap, float(np.abs(ts[:, None] - inner[None, :]).min()))
    return gap


# ----------------------------------------------------------------------------------------------------
# brute force cross-check of the two methods (used by the self test only): dense sampling

def _brute(o, d, owner, tmax, m=200001):
    t = (np.arange(m) + 0.5) * (tmax / m)
    p = o[None, :] + t[:, None] * d[None, :]
    c = owner(p)
    out = {}
    for ci in np.unique(c[c >= 0]):
        out[int(ci)] = float((c == ci).sum() * tmax / m)
    return out


def selftest():
    class _Lattice:          # deterministic quasi-lattice of test rays (no random numbers)
        def __init__(self):
            self.k = 0

        def _next(self, n):
            out = []
            for _ in range(n):
                self.k += 1
                out.append((self.k * 0.6180339887498949) % 1.0)
            return np.array(out)

        def uniform(self, a, b, n):
            return a + (b - a) * self._next(n)

        def normal(self, size):
            return 2.0 * self._next(size) - 1.0
    rng = _Lattice()
    # box
    shape, cell = (3, 2, 2), (1.0, 0.5, 0.75)
    up = np.array([shape[a] * cell[a] * 1.0 - EPS_CELL * cell[a] for a in range(3)])

    def own_box(p):
        inside = np.all((p >= 0) & (p <= up), axis=1)
        i = np.floor(p / np.array(cell)).astype(int)
        i = np.clip(i, 0, np.array(shape) - 1)
        return np.where(inside, (i[:, 0] * shape[1] + i[:, 1]) * shape[2] + i[:, 2], -1)
    worst = 0.0
    for _ in range(20):
        o = rng.uniform(-1, 3, 3)
        d = rng.normal(size=3)
        d /= np.linalg.norm(d)
        ref = box_reference(o[None], d[None], shape, cell, 0.05)
        br = _brute(o, d, own_box, 12.0)
        for c in range(12):
            worst = max(worst, abs(ref["L_hi"][0, c] - br.get(c, 0.0)), abs(ref["L_lo"][0, c] - br.get(c, 0.0)) if not ref["skippable"][0] else 0)
    print("box worst |ref-brute| =", worst)
    # cylinder
    for (shape, rmin, rmax, h, per) in [((2, 3, 2), 0.5, 2.0, 1.5, 90.0), ((3, 2, 1), 0.0, 1.5, 1.0, 360.0), ((2, 1, 3), 0.5, 2.0, 1.5, 360.0), ((2, 3, 2), 0.0, 2.0, 1.5, 60.0)]:
        nr, nphi, nz = shape
        dr, dz, dphi = (rmax - rmin) / nr, h / nz, per / nphi

        def own_cyl(p):
            r = np.hypot(p[:, 0], p[:, 1])
            inside = (r >= rmin + EPS_CELL * dr) & (r <= rmax - EPS_CELL * dr) & (p[:, 2] >= 0) & (p[:, 2] <= h - EPS_CELL * dz)
            ir = np.clip(np.floor((r - rmin) / dr).astype(int), 0, nr - 1)
            iz = np.clip(np.floor(p[:, 2] / dz).astype(int), 0, nz - 1)
            ph = np.mod(np.rad2deg(np.arctan2(p[:, 1], p[:, 0])), per)
            ip = np.clip(np.floor(ph / dphi).astype(int), 0, nphi - 1) if nphi > 1 else 0 * ir
            return np.where(inside, (ir * nphi + ip) * nz + iz, -1)
        worst = 0.0
        for _ in range(20):
            o = rng.uniform(-2.5, 2.5, 3)
            d = rng.normal(size=3)
            d /= np.linalg.norm(d)
            ref = cyl_reference(o[None], d[None], shape, rmin, rmax, h, per, 0.01)
            br = _brute(o, d, own_cyl, 12.0)
            for c in range(nr * nphi * nz):
                worst = max(worst, abs(ref["L_hi"][0, c] - br.get(c, 0.0)))
                if not ref["skippable"][0]:
                    worst = max(worst, abs(ref["L_lo"][0, c] - br.get(c, 0.0)))
        print("cyl", shape, rmin, per, "worst |ref-brute| =", worst)


if __name__ == "__main__":
    selftest()
