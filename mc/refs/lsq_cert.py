"""Optimality certificates for the least-squares family of C11 (independent of numpy.linalg.lstsq / scipy nnls / pinv).

* ``kkt_nnls``      Karush-Kuhn-Tucker conditions of   min |Cx - d|^2  s.t. x >= 0   (convex => KKT is necessary and
                    sufficient):  x >= 0;  g = C^T (C x - d);  g_j >= -tol where x_j = 0;  |g_j| <= tol where x_j > 0.
* ``normal_eq``     C^T (C x - d) = 0 (necessary and sufficient for an unconstrained least-squares minimiser).
* exact rational linear algebra on small integer matrices (``fractions``): rank, and the Moore-Penrose inverse from a
  full-rank factorisation  A = F G  ->  A^+ = G^T (G G^T)^-1 (F^T F)^-1 F^T, which yields the exact  x = A^+ b.

Tolerance of the gradient tests (DESIGN.md C11): tol = 1e-9 * (|C|_F^2 |x| + |C|_F |d|): a backward-stable solve
leaves a gradient of a few eps * |C|^2 |x|; scipy's nnls accepts dual variables up to ~10 max(m,n) eps relative;
a vector that is *not* a minimiser on the integer lattices explored misses by >= 1e-4 in these units.
"""
from fractions import Fraction

import numpy as np


def grad_tol(C, d, x, rel=1e-9):
    nc = float(np.sqrt((C * C).sum()))
    return rel * (nc * nc * float(np.sqrt(x @ x)) + nc * float(np.sqrt(d @ d)))


def kkt_nnls(C, d, x, rel=1e-9):
    """Returns None if x certifies as a minimiser of |Cx-d|^2 over x>=0, else (label, detail)."""
    if not np.all(np.isfinite(x)):
        return "non-finite", x.tolist()
    if (x < 0).any():
        return "negative", x.tolist()
    g = C.T @ (C @ x - d)
    tol = grad_tol(C, d, x, rel)
    free = x > 0
    if (np.abs(g[free]) > tol).any():
        return "kkt-free-gradient", {"x": x.tolist(), "grad": g.tolist(), "tol": tol}
    if (g[~free] < -tol).any():
        return "kkt-active-gradient", {"x": x.tolist(), "grad": g.tolist(), "tol": tol}
    return None


def normal_eq(C, d, x, rel=1e-9):
    if not np.all(np.isfinite(x)):
        return "non-finite", x.tolist()
    g = C.T @ (C @ x - d)
    tol = grad_tol(C, d, x, rel)
    if (np.abs(g) > tol).any():
        return "normal-equations", {"x": x.tolist(), "grad": g.tolist(), "tol": tol}
    return None


# ---- exact rational linear algebra (tiny matrices) --------------------------------------------------------------

def _frac(A):
    return [[Fraction(int(v)) for v in row] for row in A]


def rref(A):
    """Reduced row echelon form of a Fraction matrix; returns (R, pivot columns)."""
    R = [row[:] for row in A]
    m = len(R)
    n = len(R[0]) if m else 0
    piv, r = [], 0
    for c in range(n):
        p = next((i for i in range(r, m) if R[i][c] != 0), None)
        if p is None:
            continue
        R[r], R[p] = R[p], R[r]
        pv = R[r][c]
        R[r] = [v / pv for v in R[r]]
        for i in range(m):
            if i != r and R[i][c] != 0:
                f = R[i][c]
                R[i] = [a - f * b for a, b in zip(R[i], R[r])]
        piv.append(c)
        r += 1
        if r == m:
            break
    return R, piv


def rank_int(A):
    """Exact rank of an integer matrix (list of lists / array)."""
    A = _frac(A)
    if not A or not A[0]:
        return 0
    return len(rref(A)[1])


def _matmul(A, B):
    return [[sum(a * b for a, b in zip(row, col)) for col in zip(*B)] for row in A]


def _T(A):
    return [list(c) for c in zip(*A)]


def _inv(A):
    n = len(A)
    aug = [row[:] + [Fraction(int(i == j)) for j in range(n)] for i, row in enumerate(A)]
    R, piv = rref(aug)
    assert piv[:n] == list(range(n)), "singular matrix in exact inverse"
    return [row[n:] for row in R]


def pinv_int(A):
    """Exact Moore-Penrose inverse (Fractions, n x m) of an integer m x n matrix."""
    A = _frac(A)
    m, n = len(A), len(A[0])
    R, piv = rref(A)
    r = len(piv)
    if r == 0:
        return [[Fraction(0)] * m for _ in range(n)]
    F = [[A[i][c] for c in piv] for i in range(m)]          # m x r : pivot columns of A
    G = [R[i][:] for i in range(r)]                          # r x n : non-zero rows of the RREF;  A = F G
    Gt, Ft = _T(G), _T(F)
    return _matmul(_matmul(Gt, _inv(_matmul(G, Gt))), _matmul(_inv(_matmul(Ft, F)), Ft))


def pinv_float(A):
    P = pinv_int(A)
    return np.array([[float(v) for v in row] for row in P], dtype=float).reshape(len(P), len(P[0]))
