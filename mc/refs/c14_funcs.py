"""Reference side of C14: the wrapped-function family (closed forms with known curvature), the
description of the sampling lattice as *observed* on the calls received by the wrapped function,
the role-named point alphabet and the in/out-of-area classification.

Nothing here calls or copies the implementation; the only implementation-derived datum is the set of
coordinates on which the wrapped function was called (the sampling nodes), as DESIGN.md prescribes.
"""
import bisect
import math

EPSILON = 1.0e-7   # documented module constant of cherab.core.math.caching (tolerance band at the area edges)


# ------------------------------------------------------------------------------------------ functions
class Rec:
    """Wrapped function that records every call it receives."""
    __slots__ = ("f", "calls")

    def __init__(self, f):
        self.f = f
        self.calls = []

    def __call__(self, *a):
        self.calls.append(a)
        return self.f(*a)


class Abort(Exception):
    """What a wrapped function raises when the harness makes it fail."""


class FailingRec(Rec):
    """Recording function that fails: on its k-th call only (transient failure, fail_at=k), or whenever the first
    coordinate exceeds `beyond` (a wrapped function with a limited domain, e.g. an interpolator without extrapolation)."""
    __slots__ = ("fail_at", "beyond", "ncall")

    def __init__(self, f, fail_at=None, beyond=None):
        Rec.__init__(self, f)
        self.fail_at, self.beyond, self.ncall = fail_at, beyond, 0

    def __call__(self, *a):
        k = self.ncall
        self.ncall += 1
        if self.fail_at is not None and k == self.fail_at:
            raise Abort("transient failure of the wrapped function (call %d)" % k)
        if self.beyond is not None and a[0] > self.beyond:
            raise Abort("wrapped function called outside its domain")
        self.calls.append(a)
        return self.f(*a)


def _const(d):
    return (lambda *a: 2.5)


def _lin(d):
    # linear in each coordinate (all mixed terms present)
    if d == 1:
        return lambda x: 0.7 - 1.3 * x
    if d == 2:
        return lambda x, y: 0.7 - 1.3 * x + 0.4 * y + 0.9 * x * y
    return lambda x, y, z: 0.7 - 1.3 * x + 0.4 * y + 0.9 * x * y + 0.6 * z - 0.5 * x * z + 0.8 * y * z + 1.1 * x * y * z


def _smooth(d):
    # g(x) + h(y) + k(z) + multilinear part; second derivatives known in closed form (curv_smooth)
    if d == 1:
        return lambda x: math.sin(3 * x) + 0.5 * x
    if d == 2:
        return lambda x, y: math.sin(3 * x) + 0.8 * math.cos(2 * y) + 0.5 * x - 0.2 * y + 0.3 * x * y
    return lambda x, y, z: (math.sin(3 * x) + 0.8 * math.cos(2 * y) + 0.3 * math.exp(0.5 * z) + 0.5 * x - 0.2 * y + 0.1 * z
                            + 0.3 * x * y - 0.2 * y * z + 0.25 * x * z + 0.15 * x * y * z)


def curv_smooth(axis, lo, hi):
    """sup |d^2 f / d axis^2| of the smooth family on [lo, hi] (only the separable part has curvature)."""
    if axis == 0:
        return 9.0                       # |-9 sin 3x|
    if axis == 1:
        return 3.2                       # |-3.2 cos 2y|
    return 0.075 * math.exp(0.5 * hi)    # 0.3 * 0.25 * exp(z/2), increasing


def _hash(d):
    # deterministic, wildly varying from node to node: a stale coefficient block or node value cannot hide
    def frac(t):
        return t - math.floor(t)
    if d == 1:
        return lambda x: frac(math.sin(12.9898 * x + 0.3) * 43758.5453)
    if d == 2:
        return lambda x, y: frac(math.sin(12.9898 * x + 78.233 * y + 0.3) * 43758.5453)
    return lambda x, y, z: frac(math.sin(12.9898 * x + 78.233 * y + 37.719 * z + 0.3) * 43758.5453)


FUNCS = {"const": _const, "lin": _lin, "smooth": _smooth, "hash": _hash}
MULTILINEAR = ("const", "lin")


def make(fid, d):
    return FUNCS[fid](d)


# ------------------------------------------------------------------------------------------ geometry
def area_args(geom):
    """geom = [(min, max, resolution), ...] per axis -> (space_area tuple, resolution tuple)."""
    area = tuple(float(v) for ax in geom for v in ax[:2])
    res = tuple(float(ax[2]) for ax in geom)
    return area, res


def scan_points(geom, axis):
    """Line scan along one axis (other axes at the middle of the area), dense enough to enter every cell."""
    lo, hi, res = geom[axis]
    k = 8 * (int((hi - lo) / res) + 2)
    mid = [0.5 * (a[0] + a[1]) for a in geom]
    pts = []
    for i in range(k + 1):
        p = list(mid)
        p[axis] = lo + (hi - lo) * i / k
        pts.append(tuple(p))
    return pts


def _etol(v):
    """Edge tolerance at coordinate v: the module's documented EPSILON margin (x 1.5), or two spacings of doubles where
    coordinates are so large that EPSILON is below the resolution of the number format."""
    return max(1.5 * EPSILON, 2.0 * math.ulp(v))


class Lattice:
    """Sampling lattice of one geometry, derived from the coordinates the wrapped function was called on."""

    def __init__(self, geom, called):
        self.geom = geom
        self.d = len(geom)
        self.all = []       # per axis: every sampled coordinate, sorted
        self.inn = []       # per axis: the sampled coordinates inside [min-1.5 EPS, max+1.5 EPS]
        self.hmax = []      # per axis: largest gap between consecutive sampled coordinates
        self.index = []     # per axis: coordinate -> position in self.all
        for ax in range(self.d):
            lo, hi, res = geom[ax]
            cs = sorted({c[ax] for c in called})
            self.all.append(cs)
            self.inn.append([c for c in cs if lo - _etol(lo) <= c <= hi + _etol(hi)])
            self.hmax.append(max(b - a for a, b in zip(cs, cs[1:])) if len(cs) > 1 else float("inf"))
            self.index.append({c: i for i, c in enumerate(cs)})
        self.ncells = [max(len(n) - 1, 0) for n in self.inn]
        self.strides = []
        s = 1
        for ax in range(self.d):
            self.strides.append(s)
            s *= len(self.all[ax])

    def cell(self, p):
        """Cell (tuple of per-axis indices) that contains p according to the observed nodes, or None."""
        out = []
        for ax in range(self.d):
            k = bisect.bisect_right(self.inn[ax], p[ax]) - 1
            if k < 0 or k >= self.ncells[ax]:
                return None
            out.append(k)
        return tuple(out)

    def is_node(self, p):
        return all(p[ax] in self.index[ax] and self.geom[ax][0] - _etol(self.geom[ax][0]) <= p[ax] <= self.geom[ax][1] + _etol(self.geom[ax][1])
                   for ax in range(self.d))

    def node_bit(self, c):
        """Bit of a sampled node in the model-state mask (None if c is not a lattice node)."""
        b = 0
        for ax in range(self.d):
            i = self.index[ax].get(c[ax])
            if i is None:
                return None
            b += i * self.strides[ax]
        return b

    def where(self, p):
        """'in'  : every coordinate inside [min, max]            -> a value is required
           'out' : some coordinate more than 1.5 EPSILON outside -> ValueError / pass-through required
           'band': otherwise (within the documented EPSILON tolerance of an edge) -> either, consistently."""
        band = False
        for ax in range(self.d):
            lo, hi, _ = self.geom[ax]
            x = p[ax]
            if x < lo - _etol(lo) or x > hi + _etol(hi):
                return "out"
            if x < lo or x > hi:
                band = True
        return "band" if band else "in"


def axis_roles(lat, ax):
    """Role-named coordinates of one axis."""
    lo, hi, res = lat.geom[ax]
    n = lat.inn[ax]
    m = len(n) - 1
    r = {}
    for k, x in enumerate(n):
        r["n%d" % k] = x
    for k in range(m):
        r["c%d" % k] = 0.5 * (n[k] + n[k + 1])
    for k in range(1, m):
        r["b%d-" % k] = n[k] - 1e-9
        r["b%d+" % k] = n[k] + 1e-9
    r["min"], r["max"] = lo, hi
    r["min-e"], r["min+e"] = lo - EPSILON / 2, lo + EPSILON / 2
    r["max-e"], r["max+e"] = hi - EPSILON / 2, hi + EPSILON / 2
    r["out-"], r["out+"] = lo - 0.4 * res, hi + 0.6 * res      # between the area and the outer sampling node
    r["far-"], r["far+"] = lo - 3 * res, hi + 3 * res          # beyond the outer sampling node
    r["o-"], r["o+"] = lo - res, hi + res                      # the outer sampling nodes themselves
    return r


def role_class(role):
    if role[0] == "n":
        return "node"
    if role[0] == "c":
        return "centre"
    if role[0] == "b":
        return "border"
    if role in ("min", "max"):
        return "edge"
    if role[:3] in ("min", "max"):
        return "edge-band"
    return "outside"


def geom_class(geom):
    """'far-offset' if on some axis the distance from the origin is >= 100 widths, else 'near'."""
    for lo, hi, _ in geom:
        if max(abs(lo), abs(hi)) / (hi - lo) >= 100:
            return "far-offset"
    return "near"


def h2_bound(lat):
    """1.0 * sum_d h_d^2 max|d_d^2 f| for the smooth family; h_d = largest observed node gap on axis d
    (1-D Peano-kernel analysis of the cubic Hermite scheme with central-difference slopes gives
    0.27 h^2 |f''| on a uniform lattice; separable sums make the bound additive; multilinear part exact)."""
    b = 0.0
    for ax in range(lat.d):
        cs = lat.all[ax]
        b += lat.hmax[ax] ** 2 * curv_smooth(ax, cs[0], cs[-1])
    return b
