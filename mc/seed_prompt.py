#!/venv/bin/python
"""print the prompt for a seeding sub-agent: only the property text and its worktree (nothing from /verif)"""
import json, sys
pid = sys.argv[1]
wt = "/tmp/wt_" + pid
for l in open("/verif/properties.jsonl"):
    p = json.loads(l)
    if p["id"] == pid:
        break
print(f"""You are a careful adversarial reviewer of the Python/Cython library cherab-core (plasma spectroscopy on raysect). You work ONLY inside the scratch git worktree {wt} (a checkout of the library at its current HEAD, with build products present). Read {wt}/WORKTREE_README.txt first: python must always be run through {wt}/wtpy so that `import cherab` resolves to this worktree. Do not read, list or modify anything under /verif or /repo, and do not use the network.

PROPERTY {p['id']} - {p['title']}
Statement: {p['statement']}
Holds for: {p['quantifier']['text']}
Code it is anchored in: {', '.join(p['anchors']['files'])}

TASK. Produce TWO independent, realistic changes to the library source (A and B, different mechanisms / different files or functions if possible), each of which BREAKS this property while (1) the library still compiles and imports, and (2) the existing repository test suite still passes completely, unedited (run it: see the README; compare with the unmodified tree - same passes). Each change must need something SPECIFIC to manifest - a particular order of operations, an evaluation in between, an unusual but valid input (edge of a range, a count that is not a multiple of something, a second object, a non-default option), a multi-step sequence, or two cooperating sites that each look fine alone - NOT something any ordinary first use would expose at once. Think of the bugs a maintainer could plausibly introduce in a refactor: a dropped cache invalidation or notification, a cache field that survives a reset, an off-by-one in an index / bin / cell, a setter writing the neighbouring attribute, a helper routed to the sibling file or key, a guard moved after the store, a sign or factor that only matters for a non-default case, a shared scratch buffer. Keep each change small (a few lines).

For each change X in (A, B) deliver, under {wt}/_seed/X/ :
  patch.diff  - `git diff` of the change against HEAD (source files only: .py/.pyx/.pxd)
  demo.py     - a small standalone program (run as `{wt}/wtpy {wt}/_seed/X/demo.py`) that exercises the public API and exits 1 printing what is wrong when the property is violated, and exits 0 when it holds. It must exit 1 with the change applied (after rebuilding if Cython was edited) and exit 0 on the unmodified tree. It must be deterministic.
  notes.md    - 5-10 lines: what was changed, why the test suite cannot see it, exactly what is needed for it to manifest (order / input / configuration), and the outputs you observed: demo with and without the change, and the test-suite summary line with the change.

PROCEDURE. Study the anchored code. For each change: edit, rebuild if needed (only edited modules recompile; the machine is shared, use -j4), run the full test suite through wtpy and confirm it passes exactly as on the unmodified tree (run it once on the unmodified tree first to know the baseline summary line; it takes 1-3 minutes with OPENBLAS_NUM_THREADS=1 OMP_NUM_THREADS=1 exported, as the README says - without them it can take over an hour on this shared machine), run the demo (must exit 1), save `git diff > _seed/X/patch.diff`, then `git checkout -- .` (and rebuild) and confirm the demo exits 0. If the test suite catches a candidate, discard it and pick another. When finished, leave the worktree source clean (`git status` shows only _seed/, wtpy, WORKTREE_README.txt as untracked) and REBUILT from the clean source. Do not commit. Never use `pkill -f`.

Final message: for A and B - one paragraph each with the idea, the files touched, what it needs to manifest, and the observed outputs.""")
