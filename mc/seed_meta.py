#!/venv/bin/python
"""mc/seed_meta.py <seed dir> <property> <caught-by,...|none> <missed-by,...|none> "<what it needs>" ["<ran>"]
writes seeded/<id>/meta.json"""
import json, os, sys
d, prop, caught, missed, needs = sys.argv[1:6]
ran = sys.argv[6] if len(sys.argv) > 6 else ""
meta = {
    "breaks_property": prop,
    "needs_to_manifest": needs,
    "origin": "written by an independent sub-agent that saw only the property text and a scratch worktree of /repo (nothing from /verif)",
    "confirmed": "patch applied in a fresh scratch worktree at /repo HEAD (mc/worktree.sh + mc/try_seed.sh), rebuilt, demo.py exits 1 with the change and 0 without; repository test suite unchanged with the change (sub-agent's run; re-run by the lead for the kept seeds, see DESIGN.md section 11)",
    "caught_by": [] if caught == "none" else caught.split(","),
    "missed_by": [] if missed == "none" else missed.split(","),
    "ran": ran or "mc/try_seed.sh %s %s quick" % (prop, d),
}
json.dump(meta, open(os.path.join(d, "meta.json"), "w"), indent=1)
print("wrote", os.path.join(d, "meta.json"))
