#!/venv/bin/python
"""Regenerate /verif/MANIFEST.json from mc/manifest_data.py (keeps it schema-valid at all times)."""
import json, os, subprocess, sys
VERIF = os.path.dirname(os.path.dirname(os.path.abspath(__file__)))
sys.path.insert(0, VERIF)
from mc.manifest_data import CHECKS, NOT_APPLICABLE, HOOK_COMMITS, NOTES

props = [json.loads(l)["id"] for l in open(os.path.join(VERIF, "properties.jsonl"))]
checks = []
for pid in props:
    if pid not in CHECKS:
        continue
    c = CHECKS[pid]
    checks.append({
        "property_id": pid,
        "quick_cmd": "bin/check %s --tier quick" % pid,
        "thorough_cmd": "bin/check %s --tier thorough" % pid,
        "evidence_file": "/verif/evidence/%s.json" % pid,
        "replay_cmd_template": "bin/check %s --replay {path}" % pid,
        "engine": c["engine"],
        "level_claimed": {"category": "model_checking", "text": c["text"], "design_ref": "DESIGN.md section 4, " + pid},
        "level_note": c["note"],
        "technique": c["technique"],
    })
na = [{"property_id": p, "reason": NOT_APPLICABLE.get(p, "check not built yet in this session; no claim made")} for p in props if p not in CHECKS]
man = {
    "version": 1,
    "setup_cmd": "bin/setup",
    "hooks": {
        "guard": "CHERAB_VERIF",
        "enable": "bin/check exports CHERAB_VERIF=1 before importing cherab; the hook is compiled in unconditionally and is inert unless that variable is set at import time and the harness installs a callable",
        "baseline_off_cmd": "cd /repo && env -u CHERAB_VERIF /venv/bin/python -m pytest -ra -q -p no:cacheprovider --timeout=900 --continue-on-collection-errors",
        "source_commits": HOOK_COMMITS,
        "add_only": True,
    },
    "engines": [
        {"name": "H", "path": "mc/engine_h.py", "serves_properties": [p for p in props if p in CHECKS and "H" in CHECKS[p]["engine"]],
         "kind_free_text": "explicit-state, depth-bounded exhaustive exploration of operation histories on the real objects with a differential fresh-build oracle"},
        {"name": "L", "path": "mc/runner.py", "serves_properties": [p for p in props if p in CHECKS and "L" in CHECKS[p]["engine"]],
         "kind_free_text": "bounded-exhaustive enumeration of an input/configuration lattice, each point executed on the real code and compared with an independent reference model"},
    ],
    "checks": checks,
    "notes": NOTES,
    "not_applicable": na,
}
with open(os.path.join(VERIF, "MANIFEST.json"), "w") as f:
    json.dump(man, f, indent=1)
code = "import json,sys,jsonschema;jsonschema.Draft202012Validator(json.load(open('/root/.vp/MANIFEST.schema.json'))).validate(json.load(open(sys.argv[1])))"
r = subprocess.run(["/opt/veriftools/pyvenv/bin/python", "-c", code, os.path.join(VERIF, "MANIFEST.json")], capture_output=True, text=True)
print("MANIFEST.json:", "valid" if r.returncode == 0 else "INVALID " + r.stderr[-500:], "| claimed:", [c["property_id"] for c in checks])
sys.exit(r.returncode)
