#!/bin/bash
# mc/worktree.sh create <dir>   - scratch git worktree of /repo at HEAD with /repo's build products copied in,
#                                 so that `./wtpy setup.py build_ext --inplace` only rebuilds what is edited there
# mc/worktree.sh remove <dir>
# <dir>/wtpy <script.py|module|setup.py> [args]  runs /venv/bin/python with `cherab` resolved from the worktree
set -e
cmd="$1"; dir="$2"
[ -n "$cmd" ] && [ -n "$dir" ] || { echo "usage: $0 create|remove <dir>"; exit 2; }
case "$cmd" in
create)
  git -C /repo worktree add --detach -q "$dir" HEAD
  # build products (git-ignored) so the worktree does not need a full Cython build
  rsync -a --include='*/' --include='*.so' --include='*.c' --exclude='*' /repo/cherab/ "$dir/cherab/"
  mkdir -p "$dir/build"
  for d in /repo/build/lib.*; do rsync -a "$d" "$dir/build/"; done
  find "$dir/cherab" -name '*.c' -exec touch {} +
  sleep 1.1
  find "$dir/cherab" "$dir/build" -name '*.so' -exec touch {} +
  cat > "$dir/wtpy" <<EOF
#!/bin/bash
# run python with the 'cherab' package taken from this worktree (not from /repo)
export CHERAB_WT="$dir"
exec /venv/bin/python -c '
import os, sys, runpy
wt = os.environ["CHERAB_WT"]
try:
    import __editable___cherab_1_5_0_finder as f
    f.MAPPING["cherab"] = wt + "/cherab"
except ImportError:
    pass
m = sys.modules.get("cherab")
if m is not None:
    m.__path__[:] = [wt + "/cherab"]
sys.path.insert(0, wt)
sys.argv = sys.argv[1:]
if not sys.argv:
    sys.exit("usage: wtpy <script.py | module> [args]")
if sys.argv[0].endswith(".py") and os.path.exists(sys.argv[0]):
    sys.path.insert(0, os.path.dirname(os.path.abspath(sys.argv[0])))
    runpy.run_path(sys.argv[0], run_name="__main__")
else:
    runpy.run_module(sys.argv[0], run_name="__main__", alter_sys=True)
' "\$@"
EOF
  chmod +x "$dir/wtpy"
  cat > "$dir/WORKTREE_README.txt" <<EOF
Scratch worktree of cherab-core.  The installed 'cherab' package points at /repo, so ALWAYS run python through
./wtpy here (it makes 'import cherab' resolve to this worktree):

  rebuild after editing .pyx/.pxd :  cd $dir && CHERAB_NCPU=4 ./wtpy setup.py build_ext -j4 --inplace     (only edited modules recompile)
  run the repository test suite   :  cd $dir && OPENBLAS_NUM_THREADS=1 OMP_NUM_THREADS=1 ./wtpy pytest -ra -q -p no:cacheprovider --timeout=900 --continue-on-collection-errors
  run your own script             :  cd $dir && ./wtpy /path/to/demo.py
  check which cherab is imported  :  ./wtpy -c ... is NOT supported; put code in a .py file

Pure-python edits need no rebuild.  Always set OPENBLAS_NUM_THREADS=1 OMP_NUM_THREADS=1 for the test suite: the machine is
shared and one numerical test otherwise oversubscribes it and hits the 900 s timeout (the suite then takes ~1-3 minutes).
EOF
  echo "created $dir"
  ;;
remove)
  git -C /repo worktree remove --force "$dir" 2>/dev/null || rm -rf "$dir"
  git -C /repo worktree prune
  echo "removed $dir"
  ;;
esac
