#!/venv/bin/python
"""Markdown summary of known_findings.json + the fix: commits of /repo (for DESIGN.md section 10)."""
import collections, json, os, subprocess
V = os.path.dirname(os.path.dirname(os.path.abspath(__file__)))
d = json.load(open(os.path.join(V, "known_findings.json")))["findings"]
log = subprocess.run(["git", "-C", "/repo", "log", "--format=%h %s", "--reverse"], capture_output=True, text=True).stdout.splitlines()
fix = [(l.split()[0], l.split(" ", 1)[1]) for l in log if l.split(" ", 1)[1].startswith("fix:")]
by_commit = collections.defaultdict(list)
for e in d:
    if e["status"] == "fixed":
        by_commit[e["commit"]].append(e)
print("### 10.1 Repaired defects (`fix:` commits in /repo, oldest first)\n")
print("| commit | what was wrong | found by (signatures now listed as `fixed`) |")
print("|---|---|---|")
for h, subj in fix:
    es = by_commit.get(h, [])
    props = sorted({e["property"] for e in es})
    sigs = "; ".join("`%s`" % e["signature"] for e in es[:3]) + (" (+%d more)" % (len(es) - 3) if len(es) > 3 else "")
    print("| %s | %s | %s %s |" % (h, subj[5:], ",".join(props), sigs))
print("\n### 10.2 Known findings (genuine, not repaired)\n")
kn = collections.defaultdict(list)
for e in d:
    if e["status"] == "known":
        kn[e["property"]].append(e)
for p in sorted(kn):
    print("* **%s** (%d signatures)" % (p, len(kn[p])))
    for e in kn[p][:40]:
        print("  * `%s` - %s" % (e["signature"], e["what"][:400]))
