"""python -m mc.cli <ID> [--tier quick|thorough] [--replay file]"""
import importlib
import os
import sys


def main():
    if len(sys.argv) < 2:
        print("usage: check <ID> [--tier quick|thorough] [--replay <file>]")
        return 2
    pid = sys.argv.pop(1)
    from mc import runner
    mod = importlib.import_module("checks." + pid.lower())
    return runner.main(mod)


if __name__ == "__main__":
    sys.exit(main())
