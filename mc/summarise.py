#!/venv/bin/python
"""Markdown table of what the last run of each check covered (from evidence/*.json)."""
import glob, json, os
V = os.path.dirname(os.path.dirname(os.path.abspath(__file__)))
print("| id | tier | cases | evaluations | states | transitions | distinct non-trivial | exhaustive | known matched | wall s |")
print("|----|------|-------|-------------|--------|-------------|----------------------|------------|---------------|--------|")
for f in sorted(glob.glob(os.path.join(V, "evidence", "C*.json"))):
    e = json.load(open(f)); c = e["coverage"]
    print("| %s | %s | %d | %d | %d | %d | %d | %s | %d | %.0f |" % (e["property_id"], e["tier"], c.get("cases_executed", 0), c["evaluations"], c["states"], c["transitions"],
          c["distinct_nontrivial"], c["exhaustive"], len(c.get("known_findings_matched", [])), e["wall_s"]))
