"""Common runner for the bounded-exhaustive checks (engines H and L share it).

A check module provides

    PROPERTY            'C13'
    DRIVER              short name of the closed system
    ALPHABET            dict / list describing the operation or input alphabet (goes to the evidence)
    BOUND               {'quick': str, 'thorough': str}
    RULE                how cases are enumerated and what makes one non-trivial
    ASSUMPTIONS         list of str
    REQUIRED_CLASSES    class labels that must be populated (vacuity guard)
    BUDGET_S            {'quick': seconds, 'thorough': seconds}   (optional)
    cases(tier)         deterministic iterable of JSON-serialisable case descriptions
    run_case(case)      executes the case on the real code and compares with the reference model;
                        returns a dict with optional keys
                           viol        [ {sig, what, expected, observed} ]
                           classes     [label, ...]   (may repeat: counted)
                           outcome     any hashable/str summarising what was observed
                           n           number of evaluations performed (default 1)
                           states      iterable of hashable model-state keys visited
                           transitions number of operations applied to live objects
                           nontrivial  iterable of hashable keys of distinct non-trivial sub-cases
    setup_worker(tier)  optional, run once per worker process

Every case is executed on the real implementation (there is no model-only exploration), so
traces_validated_against_impl == number of cases executed.
"""
import argparse
import collections
import hashlib
import json
import multiprocessing as mp
import multiprocessing.connection as mpc
import os
import signal
import subprocess
import sys
import time
import traceback

VERIF = os.path.dirname(os.path.dirname(os.path.abspath(__file__)))
KNOWN_FILE = os.path.join(VERIF, "known_findings.json")
# development aid (never set by registered commands): write evidence / replays of a run against a scratch worktree elsewhere
OUT = os.environ.get("VERIF_OUT") or VERIF
EVIDENCE_SCHEMA = "/root/.vp/EVIDENCE.schema.json"
MAX_VIOLATION_LINES = 20


def h64(x):
    if not isinstance(x, (bytes, bytearray)):
        x = repr(x).encode()
    return int.from_bytes(hashlib.blake2b(x, digest_size=8).digest(), "big")


def jsonable(x):
    try:
        import numpy as np
    except Exception:  # pragma: no cover
        np = None
    if isinstance(x, dict):
        return {str(k): jsonable(v) for k, v in x.items()}
    if isinstance(x, (list, tuple, set, frozenset)):
        return [jsonable(v) for v in x]
    if np is not None:
        if isinstance(x, np.ndarray):
            return jsonable(x.tolist())
        if isinstance(x, np.generic):
            return jsonable(x.item())
    if isinstance(x, float):
        if x != x or x in (float("inf"), float("-inf")):
            return repr(x)
        return x
    if isinstance(x, (int, str, bool)) or x is None:
        return x
    return repr(x)


def _compress(r, idx):
    """Reduce a run_case result to what the parent aggregates."""
    if r is None:
        r = {}
    out = {
        "n": int(r.get("n", 1)),
        "classes": collections.Counter(r.get("classes", ())),
        "outcome": h64(r.get("outcome", None)),
        "states": {h64(s) for s in r.get("states", ())},
        "transitions": int(r.get("transitions", 1)),
        "nontrivial": {h64(k) for k in r.get("nontrivial", ())},
        "viol": r.get("viol", []) or [],
        "sample": None,
    }
    if idx < 3 or r.get("keep_sample"):
        out["sample"] = jsonable({k: r[k] for k in ("outcome", "classes") if k in r})
    if "harness_error" in r:
        out["harness_error"] = r["harness_error"]
    return out


def _classify_exception(mod, case, e):
    """An exception that escapes run_case: raised inside the library under test (innermost frame outside /verif)
    for an input of the declared space -> a violation with a catch-all signature; raised by the harness itself
    -> harness error (exit 2)."""
    tb = traceback.extract_tb(e.__traceback__)
    inner = tb[-1].filename if tb else ""
    text = traceback.format_exc()
    in_harness = os.path.abspath(inner).startswith(VERIF + os.sep) if inner else True
    if in_harness or isinstance(e, (MemoryError, KeyboardInterrupt, SystemExit)):
        return {"harness_error": text}
    label = case.get("label", "case") if isinstance(case, dict) else "case"
    return {"viol": [{"sig": "%s:unexpected-exception-inside-library:%s:%s" % (mod.PROPERTY, type(e).__name__, label),
                      "what": "an exception raised inside the library escaped the check's own handling for an input of the declared space",
                      "expected": "a value, or an exception the check anticipates", "observed": text[-1500:]}],
            "classes": [], "outcome": ("escaped-exception", type(e).__name__)}


def _worker(mod, tier, case_list, conn, cur):
    signal.signal(signal.SIGINT, signal.SIG_IGN)
    try:
        if hasattr(mod, "setup_worker"):
            mod.setup_worker(tier)
    except BaseException:
        conn.send(("fatal", traceback.format_exc()))
        return
    while True:
        try:
            msg = conn.recv()
        except EOFError:
            return
        if msg is None:
            return
        if msg[0] == "one":
            items = [(msg[1], msg[2])]
        else:
            items = [(i, case_list[i]) for i in range(msg[0], msg[1])]
        out = []
        for i, case in items:
            cur.value = i
            try:
                r = mod.run_case(case)
            except BaseException as e:
                r = _classify_exception(mod, case, e)
            out.append((i, _compress(r, i)))
        cur.value = -1
        conn.send(("ok", out))


class Pool:
    """Crash-tolerant dynamic pool: the parent always knows which case a worker is executing."""

    def __init__(self, mod, tier, case_list, nproc):
        self.mod, self.tier, self.case_list = mod, tier, case_list
        self.ctx = mp.get_context("fork")
        self.nproc = nproc
        self.workers = []
        self.executed_by = {}      # worker number -> case indices in the order that worker was given them
        self.worker_of = {}        # case index -> worker number
        self._nworkers = 0

    def _spawn(self):
        parent, child = self.ctx.Pipe()
        cur = self.ctx.Value("q", -1, lock=False)
        p = self.ctx.Process(target=_worker, args=(self.mod, self.tier, self.case_list, child, cur), daemon=True)
        p.start()
        child.close()
        self._nworkers += 1
        self.executed_by[self._nworkers] = []
        return {"p": p, "conn": parent, "cur": cur, "chunk": None, "no": self._nworkers}

    def history_before(self, idx):
        """the cases the worker that executed case idx had been given before it, in order"""
        seq = self.executed_by.get(self.worker_of.get(idx), [])
        return seq[:seq.index(idx)] if idx in seq else []

    def run(self, order, chunk, deadline, on_result, on_crash):
        """order: list of indices (contiguous runs are chunked)."""
        # build chunks of consecutive indices
        queue = collections.deque()
        i = 0
        n = len(order)
        while i < n:
            j = i
            while j + 1 < n and order[j + 1] == order[j] + 1 and (j + 1 - i) < chunk:
                j += 1
            queue.append((order[i], order[j] + 1))
            i = j + 1
        self.workers = [self._spawn() for _ in range(min(self.nproc, max(1, len(queue))))]
        pending = 0
        capped = False
        fatal = None
        idle = list(self.workers)
        while (queue or pending) and fatal is None:
            if deadline is not None and time.time() > deadline and queue:
                capped = True
                queue.clear()
            while idle and queue:
                w = idle.pop()
                w["chunk"] = queue.popleft()
                if w["chunk"][0] == "one":
                    w["conn"].send(("one", w["chunk"][1], self.case_list[w["chunk"][1]]))
                    given = [w["chunk"][1]]
                else:
                    w["conn"].send(w["chunk"])
                    given = list(range(w["chunk"][0], w["chunk"][1]))
                self.executed_by[w["no"]].extend(given)
                for gi in given:
                    self.worker_of[gi] = w["no"]
                pending += 1
            if not pending:
                break
            ready = mpc.wait([w["conn"] for w in self.workers if w["chunk"] is not None], timeout=5.0)
            for conn in ready:
                w = next(x for x in self.workers if x["conn"] is conn)
                try:
                    kind, payload = conn.recv()
                except (EOFError, ConnectionResetError, OSError):
                    # worker died while executing case cur
                    w["p"].join(timeout=5)
                    code = w["p"].exitcode
                    if w["chunk"][0] == "one":
                        lo, hi = w["chunk"][1], w["chunk"][1] + 1
                    else:
                        lo, hi = w["chunk"]
                    c = w["cur"].value
                    if c < lo or c >= hi:
                        c = lo
                    # a crashed batch is split into smaller cases (down to a single execution) when the
                    # check knows how, so that only the execution that crashes is lost and named
                    subs = on_crash(c, code)
                    for sub in subs or ():
                        self.case_list.append(sub)
                        queue.append(("one", len(self.case_list) - 1))
                    if c > lo:
                        queue.appendleft((lo, c))
                    if c + 1 < hi:
                        queue.appendleft((c + 1, hi))
                    pending -= 1
                    self.workers.remove(w)
                    nw = self._spawn()
                    self.workers.append(nw)
                    idle.append(nw)
                    continue
                if kind == "fatal":
                    fatal = payload
                    break
                for idx, r in payload:
                    on_result(idx, r)
                w["chunk"] = None
                pending -= 1
                idle.append(w)
        for w in self.workers:
            try:
                w["conn"].send(None)
            except Exception:
                pass
        for w in self.workers:
            w["p"].join(timeout=2)
            if w["p"].is_alive():
                w["p"].kill()
        if fatal:
            raise RuntimeError("worker setup failed:\n" + fatal)
        return capped


def load_known(prop):
    try:
        with open(KNOWN_FILE) as f:
            data = json.load(f)
    except FileNotFoundError:
        return {}, {}
    known, fixed = {}, {}
    for e in data.get("findings", []):
        if e.get("property") != prop:
            continue
        (known if e.get("status") == "known" else fixed)[e["signature"]] = e
    return known, fixed


def _run_single(mod_name, tier, case, q, before=()):
    try:
        import importlib
        mod = importlib.import_module(mod_name)
        if hasattr(mod, "setup_worker"):
            mod.setup_worker(tier)
        for c0 in before:          # (confirmation of a history-dependent violation: what the pool worker had executed before)
            try:
                mod.run_case(c0)
            except BaseException:
                pass
        try:
            r = mod.run_case(case) or {}
        except BaseException as e:
            r = _classify_exception(mod, case, e)
            if "harness_error" in r:
                raise
        import re
        # object addresses in reprs differ between processes and are not part of the observation
        q.put(sorted((v["sig"], re.sub(r"0x[0-9a-fA-F]+", "0x..", json.dumps(jsonable(v.get("observed")), sort_keys=True))) for v in r.get("viol", [])))
    except BaseException:
        q.put(("error", traceback.format_exc()))


def confirm(mod, tier, case, sig, before=()):
    """Re-execute the offending case twice, each in a fresh process: the same signature with the
    same observation must come back both times.  `before`: cases to execute first in that process (results ignored)."""
    ctx = mp.get_context("spawn")
    seen = []
    for _ in range(2):
        q = ctx.Queue()
        p = ctx.Process(target=_run_single, args=(mod.__name__, tier, case, q, list(before)))
        p.start()
        res = None
        t_end = time.time() + 900
        while time.time() < t_end:
            try:
                res = q.get(timeout=1.0)
                break
            except Exception:
                if not p.is_alive():
                    try:
                        res = q.get(timeout=0.5)
                    except Exception:
                        res = None
                    break
        p.join(timeout=30)
        if p.is_alive():
            p.kill()
        if res is None:
            # process died: a crash signature reproduces as a crash
            seen.append(("crash", p.exitcode))
        elif isinstance(res, tuple) and res and res[0] == "error":
            seen.append(("error", res[1]))
        else:
            seen.append(("ok", [tuple(x) for x in res if x[0] == sig]))
    return seen


def validate_evidence(path):
    vt = "/opt/veriftools/pyvenv/bin/python"
    if not os.path.exists(vt):
        vt = "python3-vt"
    code = (
        "import json,sys,jsonschema;"
        "s=json.load(open(sys.argv[1]));d=json.load(open(sys.argv[2]));"
        "jsonschema.Draft202012Validator(s).validate(d)"
    )
    try:
        p = subprocess.run([vt, "-c", code, EVIDENCE_SCHEMA, path], capture_output=True, text=True, timeout=60)
    except Exception as e:  # interpreter missing: skip with a note
        return "skipped (%s)" % e
    if p.returncode != 0:
        return "INVALID: " + p.stderr[-800:]
    return "valid"


def main(mod):
    ap = argparse.ArgumentParser()
    ap.add_argument("--tier", default=os.environ.get("VERIF_TIER", "quick"), choices=["quick", "thorough"])
    ap.add_argument("--replay", default=None)
    ap.add_argument("--nproc", type=int, default=int(os.environ.get("VERIF_NPROC", "16")))
    ap.add_argument("--no-confirm", action="store_true")
    args = ap.parse_args()
    prop = mod.PROPERTY
    try:
        seed = int(os.environ.get("VERIF_SEED", "0"))
    except ValueError:
        seed = 0
    t0 = time.time()

    if args.replay:
        with open(args.replay) as f:
            rep = json.load(f)
        if hasattr(mod, "setup_worker"):
            mod.setup_worker(rep.get("tier", "quick"))
        for c0 in rep.get("needs_process_history") or ():      # the violation needs what the same process executed before
            try:
                mod.run_case(c0)
            except BaseException:
                pass
        try:
            r = mod.run_case(rep["case"]) or {}
        except BaseException as e:
            r = _classify_exception(mod, rep["case"], e)
            if "harness_error" in r:
                raise
        sigs = [v for v in r.get("viol", []) if v["sig"] == rep["signature"]]
        print("replay of %s (%s)" % (rep["signature"], args.replay))
        print("  recorded expected:", json.dumps(rep.get("expected")))
        print("  recorded observed:", json.dumps(rep.get("observed")))
        if sigs:
            print("  now      expected:", json.dumps(jsonable(sigs[0].get("expected"))))
            print("  now      observed:", json.dumps(jsonable(sigs[0].get("observed"))))
            print("VIOLATION property=%s replay=%s" % (prop, args.replay))
            return 1
        print("  not reproduced on this tree (other signatures now: %s)" % [v["sig"] for v in r.get("viol", [])])
        return 0

    tier = args.tier
    case_list = list(mod.cases(tier))
    ncases = len(case_list)
    if ncases == 0:
        print("harness error: empty case list")
        return 2
    budget = getattr(mod, "BUDGET_S", {}).get(tier, 100 if tier == "quick" else 1500)
    deadline = t0 + budget
    # the seed only rotates the order of enumeration; the set explored is seed independent
    start = (seed * 7919) % ncases
    order = list(range(start, ncases)) + list(range(0, start))

    agg = {
        "evaluations": 0, "classes": collections.Counter(), "outcomes": set(), "states": set(),
        "transitions": 0, "nontrivial": set(), "executed": 0, "samples": [], "harness_errors": [],
    }
    viol = {}  # sig -> dict(first idx, count, rec)

    def add_viol(idx, v):
        sig = v["sig"]
        e = viol.get(sig)
        if e is None:
            viol[sig] = {"idx": idx, "count": 1, "rec": v}
        else:
            e["count"] += 1
            if idx < e["idx"]:
                e["idx"], e["rec"] = idx, v

    def on_result(idx, r):
        agg["executed"] += 1
        agg["evaluations"] += r["n"]
        agg["classes"].update(r["classes"])
        agg["outcomes"].add(r["outcome"])
        agg["states"] |= r["states"]
        agg["transitions"] += r["transitions"]
        agg["nontrivial"] |= r["nontrivial"]
        if r.get("sample") is not None and len(agg["samples"]) < 4:
            agg["samples"].append({"case": jsonable(case_list[idx]), "result": r["sample"]})
        if "harness_error" in r:
            agg["harness_errors"].append((idx, r["harness_error"]))
        for v in r["viol"]:
            add_viol(idx, v)

    def on_crash(idx, code):
        if hasattr(mod, "split_case"):
            subs = list(mod.split_case(case_list[idx]))
            if subs:
                agg["split"] = agg.get("split", 0) + 1
                return subs
        agg["executed"] += 1
        agg["evaluations"] += 1
        label = mod.crash_label(case_list[idx]) if hasattr(mod, "crash_label") else str(case_list[idx].get("label", "case")) if isinstance(case_list[idx], dict) else "case"
        add_viol(idx, {"sig": "%s:crash:%s" % (prop, label), "what": "worker process died (exit code %s) while executing this case" % code,
                       "expected": "a value or a Python exception", "observed": "process death, exit code %s" % code})

    chunk = getattr(mod, "CHUNK", max(1, min(64, ncases // (args.nproc * 8) or 1)))
    pool = Pool(mod, tier, case_list, args.nproc)
    capped = pool.run(order, chunk, deadline, on_result, on_crash)

    if agg["harness_errors"]:
        idx, tb = agg["harness_errors"][0]
        print("harness error in case #%d: %s\n%s" % (idx, json.dumps(jsonable(case_list[idx]))[:400], tb))
        return 2

    known, fixed = load_known(prop)
    lines, exit_code = [], 0
    known_matched = []
    rep_dir = os.path.join(OUT, "replays", prop)
    new_sigs = sorted(s for s in viol if s not in known)
    history_note = {}
    for sig in sorted(viol):
        e = viol[sig]
        case = case_list[e["idx"]]
        if sig in known:
            known_matched.append(sig)
            lines.append("KNOWN-FINDING: property=%s %s %s (%d cases)" % (prop, sig, known[sig].get("what", e["rec"].get("what", "")), e["count"]))
            continue
    shown = 0
    for sig in new_sigs:
        e = viol[sig]
        case = case_list[e["idx"]]
        if not args.no_confirm and shown < MAX_VIOLATION_LINES:
            seen = confirm(mod, tier, case, sig)
            ok = all(s[0] == "ok" and s[1] for s in seen) and seen[0] == seen[1]
            crash_ok = ":crash:" in sig and all(s[0] == "crash" for s in seen)
            if not (ok or crash_ok):
                # Not reproducible alone: does it depend on what the same process had executed before?  Replay the cases the pool worker
                # had been given before this one, then the case, in fresh processes.  A result that needs that history is still a result
                # of the code under test (state kept between calls), reported with the history recorded in the replay file.
                hist_idx = pool.history_before(e["idx"])
                seen_h = confirm(mod, tier, case, sig, before=[case_list[i] for i in hist_idx]) if hist_idx else seen
                ok_h = all(s[0] == "ok" and s[1] for s in seen_h) and [x[0] for x in seen_h[0][1]] == [x[0] for x in seen_h[1][1]]
                if not ok_h:
                    print("harness error: violation %s of case #%d did not reproduce in fresh processes, neither alone %r nor after the %d cases its worker had executed before"
                          % (sig, e["idx"], seen, len(hist_idx)))
                    return 2
                history_note[sig] = [jsonable(case_list[i]) for i in hist_idx]
        os.makedirs(rep_dir, exist_ok=True)
        fn = os.path.join(rep_dir, "".join(ch if ch.isalnum() or ch in "-_.=" else "_" for ch in sig)[:150] + ".json")
        with open(fn, "w") as f:
            json.dump({"property": prop, "driver": getattr(mod, "DRIVER", ""), "tier": tier, "signature": sig,
                       "what": e["rec"].get("what"), "case": jsonable(case), "expected": jsonable(e["rec"].get("expected")),
                       "observed": jsonable(e["rec"].get("observed")), "cases_with_this_signature": e["count"],
                       "fixed_entry_reappeared": sig in fixed,
                       "needs_process_history": history_note.get(sig)}, f, indent=1)
        if shown < MAX_VIOLATION_LINES:
            lines.append("VIOLATION property=%s replay=%s" % (prop, fn))
            lines.append("  signature=%s cases=%d what=%s%s" % (sig, e["count"], str(e["rec"].get("what"))[:300],
                                                             " [reproduces only after the %d cases the same process had executed before: state kept between calls]"
                                                             % len(history_note[sig]) if sig in history_note else ""))
            shown += 1
        exit_code = 1

    # vacuity guards
    missing = [c for c in getattr(mod, "REQUIRED_CLASSES", []) if agg["classes"].get(c, 0) == 0]
    vacuous = None
    if not capped:
        if missing:
            vacuous = "declared classes never populated: %s" % missing
        elif len(agg["outcomes"]) < 2:
            vacuous = "fewer than two distinct outcomes were observed"

    wall = time.time() - t0
    coverage = {
        "states": max(len(agg["states"]), 1) if agg["states"] else agg["evaluations"],
        "transitions": agg["transitions"],
        "traces_validated_against_impl": agg["executed"],
        "samples": agg["samples"][:3] or [{"case": jsonable(case_list[0])}],
        "evaluations": agg["evaluations"],
        "distinct_nontrivial": len(agg["nontrivial"]),
        "rule": mod.RULE,
        "exhaustive": (not capped),
        "cases_enumerated": ncases,
        "cases_executed": agg["executed"],
        "distinct_outcomes": len(agg["outcomes"]),
        "classes": dict(sorted(agg["classes"].items())),
        "alphabet": jsonable(getattr(mod, "ALPHABET", {})),
        "bound": getattr(mod, "BOUND", {}).get(tier, ""),
        "caps_hit": (["time budget %ds reached: %d of %d cases executed" % (budget, agg["executed"], ncases)] if capped else []),
        "known_findings_matched": known_matched,
        "violation_signatures": {s: viol[s]["count"] for s in sorted(viol)},
        "driver": getattr(mod, "DRIVER", ""),
        "states_meaning": getattr(mod, "STATES_MEANING", "distinct model states / lattice points reached"),
    }
    ev = {
        "property_id": prop, "tier": tier, "seed": seed, "level": "model_checking", "coverage": coverage,
        "assumptions": list(getattr(mod, "ASSUMPTIONS", [])), "wall_s": round(wall, 2),
        "violations": len(new_sigs),
    }
    os.makedirs(os.path.join(OUT, "evidence"), exist_ok=True)
    evp = os.path.join(OUT, "evidence", prop + ".json")
    with open(evp + ".tmp", "w") as f:
        json.dump(ev, f, indent=1)
    os.replace(evp + ".tmp", evp)
    val = validate_evidence(evp)

    print("[%s %s seed=%d] cases=%d executed=%d evaluations=%d states=%d transitions=%d distinct_outcomes=%d nontrivial=%d exhaustive=%s wall=%.1fs evidence=%s" % (
        prop, tier, seed, ncases, agg["executed"], agg["evaluations"], coverage["states"], agg["transitions"],
        len(agg["outcomes"]), len(agg["nontrivial"]), not capped, wall, val))
    if capped:
        print("  cap: " + coverage["caps_hit"][0])
    for ln in lines:
        print(ln)
    if val.startswith("INVALID"):
        print("harness error: evidence does not validate: " + val)
        return 2
    if exit_code == 0 and vacuous:
        print("harness error (vacuous exploration): " + vacuous)
        return 2
    sys.stdout.flush()
    return exit_code
