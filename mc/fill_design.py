#!/venv/bin/python
"""Refresh the generated tables of DESIGN.md (findings, seeds, evidence summary) between their markers.
usage: mc/fill_design.py <seed results file>"""
import os, re, subprocess, sys
V = os.path.dirname(os.path.dirname(os.path.abspath(__file__)))
p = os.path.join(V, "DESIGN.md")
s = open(p).read()


def region(name, text):
    global s
    b, e = "<!-- %s:BEGIN (generated) -->" % name, "<!-- %s:END -->" % name
    if "@@%s@@" % name in s:
        s = s.replace("@@%s@@" % name, b + "\n" + e)
    i, j = s.index(b) + len(b), s.index(e)
    s = s[:i] + "\n" + text.rstrip("\n") + "\n" + s[j:]


def run(*a):
    return subprocess.run(list(a), capture_output=True, text=True, cwd=V).stdout


region("FINDINGS", run("mc/findings_md.py"))
if len(sys.argv) > 1:
    region("SEEDS", run("mc/seed_table.py", sys.argv[1]))
if "<!-- EVIDENCE:BEGIN" in s or "@@EVIDENCE@@" in s:
    region("EVIDENCE", run("mc/summarise.py"))
open(p, "w").write(s)
print("DESIGN.md refreshed")
