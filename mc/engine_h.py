"""Engine H helpers: exhaustive enumeration of operation histories and the differential oracle.

A *history* is a sequence of operation ids applied to a live object built in the canonical order,
with an optional observation before each operation (a bit mask) and always one at the end.
Live objects are never merged (hidden cache state is what is under test); the *model* state is the
configuration dict, canonicalised with canon() for counting states and memoising fresh builds.
"""
import itertools
import math


def sequences(n_ops, max_len, min_len=1):
    """All sequences over range(n_ops) with min_len <= length <= max_len, shortest first."""
    for k in range(min_len, max_len + 1):
        for seq in itertools.product(range(n_ops), repeat=k):
            yield seq


def masks(k, full=True):
    """Observation masks for a length-k history: bit i set = observe before op i.
    full=False gives only 'never' and 'before every op'."""
    if full:
        return range(1 << k)
    return (0, (1 << k) - 1)


def canon(cfg):
    """Canonical hashable form of a model configuration (dict of slot -> plain value)."""
    def c(v):
        if isinstance(v, dict):
            return tuple(sorted((k, c(x)) for k, x in v.items()))
        if isinstance(v, (list, tuple)):
            return tuple(c(x) for x in v)
        if isinstance(v, set):
            return tuple(sorted(c(x) for x in v))
        return v
    return c(cfg)


def close(a, b, rtol, scale):
    if isinstance(a, str) or isinstance(b, str) or a is None or b is None:
        return a == b
    if isinstance(a, bool) or isinstance(b, bool):
        return a == b
    if a == b:
        return True
    if a != a and b != b:
        return True
    if a != a or b != b or math.isinf(a) or math.isinf(b):
        return False
    return abs(a - b) <= rtol * max(abs(a), abs(b), scale)


def diff_groups(live, ref, rtol=1e-9):
    """live/ref: list of (label, [values or 'EXC:Type' strings]).  Returns the list of labels of
    groups that differ (scale of a group = max |value| over both sides, so that bins that should be
    exactly zero are compared against the peak)."""
    bad = []
    if [g[0] for g in live] != [g[0] for g in ref]:
        return ["<layout>"]
    for (lab, a), (_, b) in zip(live, ref):
        if len(a) != len(b):
            bad.append(lab)
            continue
        nums = [abs(x) for x in list(a) + list(b) if isinstance(x, (int, float)) and not isinstance(x, bool) and x == x and not math.isinf(x)]
        scale = max(nums) if nums else 0.0
        scale = scale if scale > 0 else 1e-300
        if not all(close(x, y, rtol, scale) for x, y in zip(a, b)):
            bad.append(lab)
    return bad
