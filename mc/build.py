#!/venv/bin/python
"""Rebuild /repo in place from its current working tree (Cython extensions).

Timestamps alone are not trusted: a SHA-256 per .pyx/.pxd as of the last build
performed by this script is kept in <verif>/.build_state.json.  A changed .pyx has
its generated .c removed (forcing re-cythonisation); a changed/added/removed .pxd
forces a full rebuild.  Exit 0 = binaries correspond to the working tree,
exit 2 = build failed (harness error, never a VIOLATION).
"""
import fcntl
import hashlib
import json
import os
import subprocess
import sys
import time

REPO = os.environ.get("VERIF_REPO", "/repo")
VERIF = os.path.dirname(os.path.dirname(os.path.abspath(__file__)))
STATE = os.path.join(VERIF, ".build_state.json")
LOCK = "/tmp/cherab_verif_build.lock"
PY = "/venv/bin/python"


def sha(path):
    h = hashlib.sha256()
    with open(path, "rb") as f:
        h.update(f.read())
    return h.hexdigest()


def scan():
    out = {}
    for root, dirs, files in os.walk(os.path.join(REPO, "cherab")):
        for fn in files:
            if fn.endswith(".pyx") or fn.endswith(".pxd"):
                p = os.path.join(root, fn)
                out[os.path.relpath(p, REPO)] = sha(p)
    return out


def scan_so(cur):
    """sha of the extension binary next to each .pyx ('' when missing)."""
    out = {}
    for rel in cur:
        if rel.endswith(".pyx"):
            base = os.path.join(REPO, rel[:-4])
            d = os.path.dirname(base)
            stem = os.path.basename(base)
            sos = sorted(f for f in os.listdir(d) if f.startswith(stem + ".") and f.endswith(".so"))
            out[rel] = sha(os.path.join(d, sos[0])) if sos else ""
    return out


def main():
    force = "--force" in sys.argv
    t0 = time.time()
    if os.path.realpath(REPO) != "/repo":
        # development aid: a scratch worktree prepared by mc/worktree.sh (timestamps are under our control there)
        env = dict(os.environ)
        env["CHERAB_NCPU"] = "8"
        env.pop("PYTHONHASHSEED", None)
        p = subprocess.run([os.path.join(REPO, "wtpy"), "setup.py", "build_ext", "-j8", "--inplace"], cwd=REPO, env=env,
                           stdout=subprocess.PIPE, stderr=subprocess.STDOUT, text=True)
        if p.returncode != 0:
            sys.stdout.write(p.stdout[-6000:])
            print("[build] FAILED in worktree %s" % REPO)
            return 2
        print("[build] worktree %s built (%.1fs)" % (REPO, time.time() - t0))
        return 0
    with open(LOCK, "w") as lk:
        fcntl.flock(lk, fcntl.LOCK_EX)
        cur = scan()
        try:
            with open(STATE) as f:
                st = json.load(f)
            old, old_so = st["sources"], st["binaries"]
        except Exception:
            old = old_so = None
        if old is None:
            force = True
        changed = []
        if old is not None:
            keys = set(cur) | set(old)
            changed = sorted(k for k in keys if cur.get(k) != old.get(k))
            if any(k.endswith(".pxd") for k in changed):
                force = True
        if old is not None:
            # a binary that is not the one this script produced (foreign build, deleted file)
            # is rebuilt from source even if the source hash is unchanged
            cur_so = scan_so(cur)
            foreign = sorted(k for k in cur_so if cur_so[k] != old_so.get(k) or not cur_so[k])
            changed = sorted(set(changed) | set(foreign))
        if not force and not changed:
            # nothing to do: binaries already correspond to these sources
            print("[build] up to date (%d sources hashed, %.1fs)" % (len(cur), time.time() - t0))
            return 0
        for k in changed:
            if k.endswith(".pyx"):
                c = os.path.join(REPO, k[:-4] + ".c")
                if os.path.exists(c):
                    os.unlink(c)
        cmd = [PY, "setup.py", "build_ext", "-j16", "--inplace"]
        if force:
            cmd.insert(2, "--force")
        env = dict(os.environ)
        env["CHERAB_NCPU"] = "16"
        env.pop("PYTHONHASHSEED", None)
        p = subprocess.run(cmd, cwd=REPO, env=env, stdout=subprocess.PIPE, stderr=subprocess.STDOUT, text=True)
        if p.returncode != 0:
            sys.stdout.write(p.stdout[-6000:])
            print("[build] FAILED (exit %d) - harness error, not a violation" % p.returncode)
            # state is now unknown
            try:
                os.unlink(STATE)
            except OSError:
                pass
            return 2
        with open(STATE + ".tmp", "w") as f:
            json.dump({"sources": cur, "binaries": scan_so(cur)}, f)
        os.replace(STATE + ".tmp", STATE)
        print("[build] rebuilt (%s; %d changed; %.1fs)" % ("forced full" if force else "incremental", len(changed), time.time() - t0))
    return 0


if __name__ == "__main__":
    sys.exit(main())
