#!/bin/bash
# mc/try_seed.sh <PROP> <seed dir with patch.diff [demo.py]> [tier] [extra check ids...]
# Applies the seeded change in a fresh scratch worktree, rebuilds there, runs the demo (expected exit 1) and the
# check(s) against that worktree (VERIF_REPO), prints a one-line verdict per check, removes the worktree.
prop="$1"; seed="$(cd "$2" && pwd)"; tier="${3:-quick}"; shift 3 2>/dev/null
checks="$prop $*"
name=$(echo "$seed" | tr '/' '_' | tail -c 40)
wt=/tmp/try_$name
out=/dev/shm/try_out_$name
rm -rf "$out"; mkdir -p "$out"
/verif/mc/worktree.sh remove "$wt" >/dev/null 2>&1
/verif/mc/worktree.sh create "$wt" >/dev/null || { echo "worktree failed"; exit 2; }
clean_rc=NA
if [ -n "$SEED_FULL" ] && [ -f "$seed/demo.py" ]; then ( cd "$wt" && ./wtpy "$seed/demo.py" > "$out/demo_clean.log" 2>&1 ); clean_rc=$?; fi
if ! git -C "$wt" apply "$seed/patch.diff"; then echo "RESULT $prop $seed patch-does-not-apply"; /verif/mc/worktree.sh remove "$wt" >/dev/null; exit 2; fi
( cd "$wt" && CHERAB_NCPU=8 ./wtpy setup.py build_ext -j8 --inplace > "$out/build.log" 2>&1 ) || { echo "RESULT $prop $seed build-failed"; tail -5 "$out/build.log"; /verif/mc/worktree.sh remove "$wt" >/dev/null; exit 2; }
demo_rc=NA
if [ -f "$seed/demo.py" ]; then ( cd "$wt" && ./wtpy "$seed/demo.py" > "$out/demo.log" 2>&1 ); demo_rc=$?; fi
suite=NA
if [ -n "$SEED_FULL" ]; then
  ( cd "$wt" && OPENBLAS_NUM_THREADS=1 OMP_NUM_THREADS=1 ./wtpy pytest -q -p no:cacheprovider --timeout=900 --continue-on-collection-errors --ignore=_seed > "$out/suite.log" 2>&1 )
  suite=$(tail -1 "$out/suite.log" | sed 's/ in [0-9.]*s.*//' | tr ' ' '_')
  echo "CONFIRM $prop $(basename $seed) demo_clean_rc=$clean_rc demo_with_change_rc=$demo_rc suite_with_change=$suite"
fi
for c in $checks; do
  VERIF_REPO="$wt" VERIF_OUT="$out" /verif/bin/check $c --tier $tier > "$out/check_$c.log" 2>&1
  rc=$?
  nv=$(grep -c "^VIOLATION" "$out/check_$c.log")
  echo "RESULT $prop $(basename $(dirname $seed))/$(basename $seed) check=$c tier=$tier demo_rc=$demo_rc check_rc=$rc violations=$nv first=$(grep -m1 'signature=' "$out/check_$c.log" | sed 's/ cases=.*//' | cut -c1-160)"
done
/verif/mc/worktree.sh remove "$wt" >/dev/null
