"""Source of truth for MANIFEST.json (python mc/gen_manifest.py regenerates it)."""
HOOK_COMMITS = ["4f66613"]
NOTES = ("All checks are bounded-exhaustive explorations of the real code (no sampling): engine H enumerates every operation "
         "history up to a stated depth and compares the live object with a fresh build of the final configuration; engine L "
         "enumerates a declared input lattice and compares with an independent reference model. known_findings.json lists "
         "genuine defects by float-free signature.")
NOT_APPLICABLE = {}
CHECKS = {
    "C19": {
        "engine": "L",
        "technique": "exhaustive enumeration of the finite registry: every species x identifier x letter-case pattern, all ordered species pairs, all line pairs",
        "text": "The space is finite and is closed completely: every exported Element/Isotope, every identifier spelling and case pattern, every ordered pair for ==/!=/hash, every Line pair over a small transition set. Because nothing is left out, silence is a proof for the registry as shipped.",
        "note": "Trusts the independent periodic table in mc/refs/periodic.py and that species are the module attributes of cherab.core.atomic.elements.",
    },
}
