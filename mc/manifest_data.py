"""Source of truth for MANIFEST.json (python mc/gen_manifest.py regenerates it)."""
HOOK_COMMITS = ["4f66613"]
NOTES = ("All checks are bounded-exhaustive explorations of the real code (no sampling): engine H enumerates every operation "
         "history up to a stated depth and compares the live object with a fresh build of the final configuration; engine L "
         "enumerates a declared input lattice and compares with an independent reference model. known_findings.json lists "
         "genuine defects by float-free signature.")
NOT_APPLICABLE = {}
CHECKS = {
    "C19": {
        "engine": "L",
        "technique": "exhaustive enumeration of the finite registry: every species x identifier x letter-case pattern, all ordered species pairs, all line pairs",
        "text": "The space is finite and is closed completely: every exported Element/Isotope, every identifier spelling and case pattern, every ordered pair for ==/!=/hash, every Line pair over a small transition set. Because nothing is left out, silence is a proof for the registry as shipped. Every identifier spelling additionally goes through both look-up functions, in both orders, three rounds in one process (a look-up must be a function of its argument only).",
        "note": "Trusts the independent periodic table in mc/refs/periodic.py and that species are the module attributes of cherab.core.atomic.elements.",
    },
    "C05": {
        "engine": "L",
        "technique": "bounded-exhaustive enumeration of scenes (compositions x flows x metastable layouts x providers x energies x directions x beam/plasma points), every BeamModel.emission call compared with the documented formula and with the logged coefficient arguments",
        "text": "Every point of a declared lattice of beam/plasma scenes is executed on the real BeamCXLine/BeamEmissionLine and compared with a pure-python reference of the documented population-weighted mean / charged sum; the mock provider logs every coefficient evaluation so each argument (E_int, T, total ion density, Z_eff, |B|, request key) is checked separately. A history family evaluates, replaces a species through composition.add with no other setter in between, and evaluates again against a fresh model. Exhaustive over the lattice, says nothing between lattice points.",
        "note": "Beam density comes from a stub attenuator (real attenuators are C04); line shapes are trusted to conserve the radiance (C02); closed-form mock coefficients in mc/refs/c05_ref.py.",
    },
    "C07": {
        "engine": "L",
        "technique": "bounded-exhaustive enumeration of repository states x accessor x flag triples x species kinds x table shapes, each rate evaluated on a lattice of grid nodes, midpoints, non-positive and out-of-range arguments",
        "text": "Each case builds a private repository through repository.update_* and closes the product of 14 accessors x 8 flag triples x element/isotope requests x table shapes (incl. single-point axes) x 7 repository states; every returned rate is evaluated at every grid node, cell midpoints, non-positive arguments and four out-of-range points per axis against the documented conversion and range / missing-data policy. Decoy tables (isotope-keyed data, other-role wavelengths) make any mis-routed lookup change the number.",
        "note": "Repository write path is trusted here (decided by C06); raysect interpolators trusted between nodes (only finiteness / sign checked there). Single-point 2-D axes and exact end nodes are listed known findings.",
    },
    "C12": {
        "engine": "L",
        "technique": "exhaustive enumeration of every grid node and cell centre of 7-10 equilibria x toroidal angles x profile kinds x outside values x vector weightings, compared with independent finite-difference / closed-form references",
        "text": "All nodes and cell centres of the (r,z) domain of the bundled example, Generomak and synthetic Solov'ev/parabolic equilibria (both signs of psi_lcfs-psi_axis, one with an exactly vanishing poloidal field at a node) are evaluated on the real EFITEquilibrium; psi_n, LCFS mask, B, basis vectors, map2d/3d and map_vector2d/3d are compared with an independently coded point-in-polygon, finite-difference gradient and closed forms. Exhaustive over the lattice.",
        "note": "Points within 1e-9 of the LCFS accept either side; 3-D points whose hypot rounds outside the grid are skipped (counted); raysect 2-D interpolation trusted between nodes for the tight oracle.",
    },
    "C18": {
        "engine": "L+H",
        "technique": "exhaustive setter-sequence exploration (all sequences <= 3, thorough 4, with read masks) with live-vs-fresh differential oracle, plus exhaustive parameter lattices for integrals, segment tiling and spectrum binning",
        "text": "Engine H: every public setter of the four profiles and two spectra (two valid values + documented rejected values), all sequences up to length 3 (thorough: 4), detached and attached to a Laser, every observable compared with a freshly constructed object; blame replay attributes a divergence to the first op causing it. Engine L: cross-section / volume integrals and second moments on a parameter lattice by independent quadrature, segment tiling over a radius x length lattice incl. +-1 ulp coincidences, per-bin power against closed-form integrals over all awkward-decimal ranges.",
        "note": "Trapezoid quadrature on a grid scaled from the measured width (stated tolerance 1e-10); Rayleigh-range formula of GaussianBeamAxisymmetric is not in the property and not checked; swapping profile/spectrum on the Laser and ray tracing are covered by C01's laser driver.",
    },
    "C13": {
        "engine": "L",
        "technique": "bounded-exhaustive enumeration of an argument alphabet (products incl. subnormals, signed zeros, exact period multiples, huge values), all axis/shape selectors, all simple lattice polygons (3x3 up to 6, 4x4 up to 5 vertices; thorough 7) in every presentation, all sample-count/range combinations; oracle on the arguments the wrapped callable actually receives",
        "text": "The wrapped function records what it is called with, so the oracle is on the mapped argument itself: exact equality for iso-mapping/swizzle/slice/clamp, <=2 ulp for hypot/atan2 mappers (60-digit reference), inner periodic argument strictly in [0,p) and congruent to x mod p (exact rationals), polygon mask == exact rational point-in-polygon on three offset lattices, sampler arrays index-exact with an injective integer-coded function. Where x mod p is exactly representable (all x >= 0, exact multiples) the inner argument must equal it exactly. The space (alphabet products, every polygon with every start vertex and orientation) is closed completely.",
        "note": "Nothing is claimed between alphabet values; magnitudes beyond 1e150 (x*x overflow) and strictly between 5e-324 and 1e-20 (x*x underflow) are outside the alphabet; boundary points of polygons are excluded as undefined.",
    },
    "C01": {
        "engine": "H",
        "technique": "explicit-state exploration of all mutator histories up to depth 2 (thorough 3) over the full alphabet, depth 3 (thorough 4) inside dependency groups, with every observation interleaving, from 4 start configurations per driver; differential oracle live scene vs scene built from scratch; greedy minimisation of failing histories for the signature",
        "text": "Three closed scenes (plasma+passive models, beam+attenuator+beam models, laser+Thomson model) with fixed sight lines. Every history of public mutators up to the bound, with an observation optionally before each op, is replayed on a fresh live scene and its final observation (ray spectra, beam density/direction, z_effective/ion density, laser geometry/material/profile/spectrum, exception types) is compared with a scene built from scratch in the final configuration. Nothing hand-written is expected, so any stale cache, missed notification or order dependence inside the bound shows. A crashing batch is split down to the single history that crashes.",
        "note": "raysect scene graph / ray tracing trusted; mock AtomicData (mc/refs/mockatomic.py) whose coefficients depend on every argument; only supported mutators with valid values are in the alphabet; histories longer than the bound and mutators of user subclasses are outside.",
    },
    "C02": {
        "engine": "L",
        "technique": "bounded-exhaustive lattice over models x plasma states x B x directions x windows (contain/straddle/between/cut-off-edge/miss/isolate) x bins x radiance x polarisation, closed-form erf / 2F1 reference per bin",
        "text": "Every lattice point calls the real add_line on a zeroed spectrum and compares every bin with the bin-average of the documented normalised profile (erf for Gaussian parts, closed-form CDF for the modified Lorentzian, cross-checked against scipy quad in each worker), the window integral, pi+sigma==unpolarised, component ratios from isolating windows and the zero-width rule. An engine-H style family covers the per-bin integrator: every order of min_order / max_order / relative_tolerance assignments (with an integration optionally before each) must integrate like an integrator constructed with the final values. bin-width/FWHM class is part of the signature so that the known coarse-grid quadrature defect cannot mask a wrong weight.",
        "note": "Tolerance 1e-9 of the peak bin for erf shapes, 2e-4 where a Lorentzian part is present (20x the documented quadrature rtol); MSE with n_e<=0/T_e<=0 and the exact L==G pseudo-Voigt boundary are not in the lattice.",
    },
    "C03": {
        "engine": "L",
        "technique": "bounded-exhaustive enumeration of all composition subsets x lines x value lattices (incl. zero/negative densities and temperatures) x line shapes x windows, compared with the documented expressions; mock provider keyed by the full request key",
        "text": "All subsets (size<=4, thorough 5) of a species universe are attached to each passive model; emission() is compared with the documented total, exact-zero and sign rules and linearity, the recorder line shape checks constructor arguments and radiance, Bremsstrahlung is compared with Hutchinson 5.3.40 from scipy.constants by an independent Gauss-Legendre integral, and slab Ray.trace checks the material path. A sequence family evaluates ONE model instance across two regions (densities zero / negative in one), a plasma notification and two composition changes, against a fresh model at the same point.",
        "note": "Slab traces rel 1e-7 (raysect shortens the path by its 1e-9 m epsilon); default adaptive brems integrator rel 1e-5, fixed order 1e-8.",
    },
    "C04": {
        "engine": "L",
        "technique": "bounded-exhaustive lattice over beam parameters x attenuator step/clamp x placements x plasma kinds (none, uniform, non-uniform, slab, flow, zero-rate, neutral), each compared with an independent numpy reference of the documented node rule and with a fine Gauss-Legendre integral",
        "text": "Each configuration is a freshly built scene; on-axis line density at every node/midpoint against exp(-trapezoid(S)/v) on the documented nodes, transverse moments and cross-section flux by Gauss-Hermite / polar Gauss-Legendre, exact zeros outside the domain and clamp, monotone decay, attenuator==beam density, direction unit/tangent and three integrated streamlines. A reconfiguration family brings an already observed beam from configuration A to B through the public setters (composition, atomic data, element, energy, power, length, attenuator step) and compares with the analytic attenuation law of B.",
        "note": "Reference in mc/refs/c04_model.py (no cherab import); with clamping on the conserved quantity is the flux inside the clamp ellipse; tolerance 1e-12 + 1e-11*exponent.",
    },
    "C15": {
        "engine": "H",
        "technique": "explicit-state exploration of all operation sequences (add/assign/rename/lookup/broadcast with every value kind) up to length 2-3 (thorough 3-4) on each of 7 group classes, sizes 0..3 (4), oracle after every operation against a list-of-dicts model and against a freshly built group",
        "text": "Members are counting subclasses of the real observers. The attribute table is introspected from the classes and cross-checked with a hand list; per (class, attribute) every value kind incl. wrong lengths and empty lists, all attribute pairs for cross-talk, membership operations and look-ups; after each op every member attribute, group getter, parent/children, index/slice/name look-up and observe counter is compared with the model. After every accepted assignment the caller-owned list / array is modified in place: the group must not be affected.",
        "note": "BolometerCamera slice look-up (documented int/str only) is counted, not asserted; duplicate-name look-up only asserts membership.",
    },
    "C16": {
        "engine": "H+L",
        "technique": "explicit-state exploration of all setter sequences <= 3 (thorough 4) with read interleavings on Spectrometer / CzernyTurnerSpectrometer / Polychromator with live-vs-fresh differential oracle; exhaustive calibration lattice against exact rational integration of the piecewise-linear spectrum",
        "text": "Every setter (valid, rejected and empty values) in every order up to the bound, reads optionally before each op and twice at the end, compared exactly with a freshly constructed instrument plus independent range/bin-width/pixel oracles; calibrate() on all layout singles/pairs/triples x spectra against fractions.Fraction integrals. Filter sets include separated, overlapping, repeated and nested filters (a broad band containing the line filter with the outermost centre).",
        "note": "CzernyTurner dispersion formula itself is not judged (consistency only); in-place mutation of returned containers is not a setter; calibration tolerance 1e-12 + 4 ulp(max_wavelength)/delta.",
    },
    "C20": {
        "engine": "L",
        "technique": "bounded-exhaustive lattice over grid sizes (2..6, thorough 2..9) x voxel sizes x origins x index orderings x all projective classes of quadratic flux maps with coefficients in {-1,0,1,2} x anisotropies, exactness on the monomial basis, coefficient read-off against analytic div(D grad f), refinement ladder",
        "text": "Derivative operators are applied to the monomial basis in every cell class; calculate_admt is checked for finiteness, annihilation of constants, the anisotropy-1 identity for any flux map in every row, analytic coefficients for quadratic flux maps at interior rows, and error halving under refinement for cubic/quartic maps.",
        "note": "Reference derivation in mc/refs/admt_ref.py is self-tested against 4th-order numerical differentiation of the flux form in every worker; D_par=1, D_perp=1/anisotropy assumed.",
    },
    "C06": {
        "engine": "H",
        "technique": "explicit-state exploration of all add/update/install histories up to length 2 over a 195-operation alphabet (all 38 k pairs) plus length 3 inside collision groups (thorough: full-group triples, length 4 per family) on a fresh scratch repository, reading back every key of every family after every operation against a dict model",
        "text": "Each history runs on a fresh repository directory with a scratch $HOME and cwd; after every operation every key of all 14 families is read through its get_* function: written keys bit-for-bit (dtype, shape, bytes), never-written keys RuntimeError, other keys unchanged, all spellings of one transition identical, caller payload unchanged, nothing created outside the repository path; rejected calls leave other keys untouched. A mismatch is attributed to the operation just executed and the model adopts the observed content so the rest of the history is still explored. Multi-group update operations are also repeated with one group unchanged and another new or corrected (a writer that shortcuts on unchanged content must still write the rest).",
        "note": "install_* values compared at rel 1e-12 with float(text) x unit conversion (parser fidelity is C08); an invalid call that is accepted is counted, not a violation; os.walk subset oracle replaced by stray-file search in $HOME, cwd and next to the repository.",
    },
    "C08": {
        "engine": "L",
        "technique": "bounded-exhaustive generation of ADF11/12/15/21/22 files by independent writers over shape x block x layout x trailer x header-style lattices, parse + install + read-back compared with float(text) of every number written; failing files delta-minimised",
        "text": "Writers follow the published record layouts (DESIGN Appendix A), keep float(text) of every printed number as ground truth and were calibrated on the canonical shapes. 31.8 k files (thorough 399 k) over grid sizes around the values-per-line boundaries, block configurations, resolved/unresolved, three trailer forms, six ADF15 header styles, EXCIT/RECOM/CHEXC, D/E exponents; each is parsed and installed through every front-end and read back; wrong element and absent block must be rejected with the repository left empty. The files of one case are successive editions (different numbers) written to ONE path, so anything a parser or installer keeps of an earlier file at that path shows as numbers that are not on disk; minimisation trials run at never-used paths, which separates 'this file is misread' from 'misread after another edition'.",
        "note": "Resolved ADF11 with several (IPRT, IGRD) blocks per Z1 only requires one of the file's blocks; ADF12 only zero-filled unused slots; wrong-element rejection for ADF11 only.",
    },
    "C14": {
        "engine": "H",
        "technique": "explicit-state exploration of all evaluation sequences <= 3 (thorough 4) over a role alphabet of points and all injective visit orders over one-point-per-cell, each step compared with a fresh cache evaluated at that point only; geometry lattice for node values, multilinear exactness, h^2 bound, outside behaviour and bounds invariance",
        "text": "Caching1D/2D/3D with recording wrapped functions: every history value must equal the value from a fresh cache (they are bit-identical on the repaired tree), nodes are read off the call log, node values / multilinear reproduction / curvature bound are checked on a lattice of 120+9+4 geometries incl. areas far from the origin, with and without function boundaries and no_boundary_error. An abort family explores every history in which the wrapped function raises (once, on each call an evaluation can reach; or permanently beyond the last inner node): the aborted evaluation must leave no trace in later values.",
        "note": "The call log is not an oracle; points within 1.5e-7 outside an edge may evaluate or raise but history-independently; node tolerance grows with prod N^3 in 3-D (documented algorithm).",
    },
    "C10": {
        "engine": "L",
        "technique": "bounded-exhaustive enumeration of grids (1..3 cells per axis, unequal sizes, inner radius, periods) x all masks (<= 8 cells) x all set partitions into <= 3 sources with holes (<= 6 cells) x steps x transforms x a ray family (lattice origins x 26 lattice directions + tangential / edge / corner / in-plane rays), compared with an exact chord-length reference",
        "text": "The reference (mc/refs/chords.py, no cherab/raysect import) clips the ray against every cell (slab clipping for boxes; ray-cylinder / plane / half-plane events for (R,phi,Z) grids) with lo/hi bounds from cells shrunk/grown by 5e-9 m, and is cross-checked against a closed-form annulus chord in every cylinder case. Oracles: entries sum to the chord, per-cell entry within two integration steps, masked / -1 cells exactly zero and bins = max+1, merged-map entry = sum of its cells' identity-map entries (1e-12), periodic images give the same vector, no exception for rays inside the primitive; pipelines 0D/2D reproduce the direct trace, also when one pipeline object serves several observations; a period stated as a rounded decimal (51.4286 = 360/7) is part of the grid alphabet.",
        "note": "raysect displaces each pass start by EPSILON=1e-9 m (sum tolerance 4e-9 + 1e-12 scale); passes shorter than 0.1 step may be skipped by the documented algorithm; Ray(extinction_prob=0) because Russian roulette is random; the literal two-step bound is exceeded for cells crossed in k>2 disjoint intervals on periodic grids (listed known finding, bound k steps enforced there).",
    },
    "C09": {
        "engine": "L",
        "technique": "bounded-exhaustive lattice over elements (Z in {1,2,6,10,18}; thorough 1..18) x three analytic rate families x (n_e, T_e) grids x donor classes x 11 input representations x every entry point (core, interpolators1d/2d, equilibrium-mapped), compared with the closed-form detailed-balance recurrence",
        "text": "Every lattice point is solved by the real entry points and compared with the closed-form recurrence x_(z+1)/x_z = S_z/(alpha+(n_D/n_e)C)_(z+1) evaluated in log space: fractions in range and summing to one, balance residual, densities = n_el x fractions, neutrality, agreement of every representation and wrapper with the scalar call, with-donor vs without-donor distinguishable. Every call of real code is bounded by a CPU-time watchdog (a non-returning solve is a violation).",
        "note": "Abundance tolerance 1e-7 (the design's '1e-7 of the largest flux' in the x norm; measured worst 7e-9); wrappers compared differentially with their core entry point; mock AtomicData returning plain callables.",
    },
    "C11": {
        "engine": "L+H",
        "technique": "exhaustive enumeration of all geometry matrices of shapes 1x1..3x2 over {0,1,2} (thorough {0,1,2,5}, 3x3) x measurement vectors x initial guesses x relaxation x iteration limits x tolerances x penalties; SART iterates compared step by step with a numpy transcription of the documented update rule, NNLS/LSQ/SVD results certified by KKT / normal equations / exact rational pseudo-inverse",
        "text": "The SART iteration is treated as a history: the returned iterate and the whole convergence list must equal the reference after k = 1,2,3,... iterations, including the stopping decision; non-negativity and fixed points are checked. NNLS results must satisfy the KKT conditions of the stacked problem, LSQ the normal equations, SVD the exact rational W^+ b (fractions), and reported residual norms must equal |Cx-d| recomputed.",
        "note": "Rounding-ambiguous stop decisions are accepted either way and counted; a failed NNLS certificate is attributed to scipy (known finding) only if scipy.optimize.nnls called directly on the documented stacked system returns the same vector, otherwise to the wrapper.",
    },
    "C17": {
        "engine": "L",
        "technique": "exhaustive enumeration of all simple lattice polygons (3x3 lattice 3..6 vertices, 4x4 3..5; thorough 3..8 / 3..6) x placements (dyadic, axis-touching, non-dyadic) x every cyclic rotation and both orientations x input container kinds; exact rational area/centroid; the triangle-selection variate enumerated through the guard hook at every cumulative-area boundary +-1 ulp, interval midpoints and the extremes",
        "text": "Area, centroid, volume (= 2 pi r_c A), invariance under vertex order, triangulation is an exact partition, grid total volume, constants reproduced exactly; the selection map of emissivity_from_function is decided for every value of the variate because it is piecewise constant between the enumerated points (bisection on a sorted array), so with raysect's point_triangle uniform inside a triangle the estimator is unbiased. All real-code calls of a case run in a forked child so that an out-of-range read (garbage or segfault) maps to one signature. Grid total volume is read again under every emitter configuration (set_active, unparent_all_voxels, parent_all_voxels, active= in the constructor).",
        "note": "Trusts raysect triangulate2d and point_triangle; area/centroid tolerance rel 1e-12 plus the forward error bound of the documented shoelace sums for non-dyadic placements; with rounded coordinates either neighbour is accepted inside a band of 2^-52 (256 max|r| max|z| + 8A) around a boundary, decisive points sit just outside.",
    },
}
