"""Source of truth for MANIFEST.json (python mc/gen_manifest.py regenerates it)."""
HOOK_COMMITS = ["4f66613"]
NOTES = ("All checks are bounded-exhaustive explorations of the real code (no sampling): engine H enumerates every operation "
         "history up to a stated depth and compares the live object with a fresh build of the final configuration; engine L "
         "enumerates a declared input lattice and compares with an independent reference model. known_findings.json lists "
         "genuine defects by float-free signature.")
NOT_APPLICABLE = {}
CHECKS = {
    "C19": {
        "engine": "L",
        "technique": "exhaustive enumeration of the finite registry: every species x identifier x letter-case pattern, all ordered species pairs, all line pairs",
        "text": "The space is finite and is closed completely: every exported Element/Isotope, every identifier spelling and case pattern, every ordered pair for ==/!=/hash, every Line pair over a small transition set. Because nothing is left out, silence is a proof for the registry as shipped.",
        "note": "Trusts the independent periodic table in mc/refs/periodic.py and that species are the module attributes of cherab.core.atomic.elements.",
    },
    "C05": {
        "engine": "L",
        "technique": "bounded-exhaustive enumeration of scenes (compositions x flows x metastable layouts x providers x energies x directions x beam/plasma points), every BeamModel.emission call compared with the documented formula and with the logged coefficient arguments",
        "text": "Every point of a declared lattice of beam/plasma scenes is executed on the real BeamCXLine/BeamEmissionLine and compared with a pure-python reference of the documented population-weighted mean / charged sum; the mock provider logs every coefficient evaluation so each argument (E_int, T, total ion density, Z_eff, |B|, request key) is checked separately. Exhaustive over the lattice, says nothing between lattice points.",
        "note": "Beam density comes from a stub attenuator (real attenuators are C04); line shapes are trusted to conserve the radiance (C02); closed-form mock coefficients in mc/refs/c05_ref.py.",
    },
    "C07": {
        "engine": "L",
        "technique": "bounded-exhaustive enumeration of repository states x accessor x flag triples x species kinds x table shapes, each rate evaluated on a lattice of grid nodes, midpoints, non-positive and out-of-range arguments",
        "text": "Each case builds a private repository through repository.update_* and closes the product of 14 accessors x 8 flag triples x element/isotope requests x table shapes (incl. single-point axes) x 7 repository states; every returned rate is evaluated at every grid node, cell midpoints, non-positive arguments and four out-of-range points per axis against the documented conversion and range / missing-data policy. Decoy tables (isotope-keyed data, other-role wavelengths) make any mis-routed lookup change the number.",
        "note": "Repository write path is trusted here (decided by C06); raysect interpolators trusted between nodes (only finiteness / sign checked there). Single-point 2-D axes and exact end nodes are listed known findings.",
    },
    "C12": {
        "engine": "L",
        "technique": "exhaustive enumeration of every grid node and cell centre of 7-10 equilibria x toroidal angles x profile kinds x outside values x vector weightings, compared with independent finite-difference / closed-form references",
        "text": "All nodes and cell centres of the (r,z) domain of the bundled example, Generomak and synthetic Solov'ev/parabolic equilibria (both signs of psi_lcfs-psi_axis, one with an exactly vanishing poloidal field at a node) are evaluated on the real EFITEquilibrium; psi_n, LCFS mask, B, basis vectors, map2d/3d and map_vector2d/3d are compared with an independently coded point-in-polygon, finite-difference gradient and closed forms. Exhaustive over the lattice.",
        "note": "Points within 1e-9 of the LCFS accept either side; 3-D points whose hypot rounds outside the grid are skipped (counted); raysect 2-D interpolation trusted between nodes for the tight oracle.",
    },
    "C18": {
        "engine": "L+H",
        "technique": "exhaustive setter-sequence exploration (all sequences <= 3, thorough 4, with read masks) with live-vs-fresh differential oracle, plus exhaustive parameter lattices for integrals, segment tiling and spectrum binning",
        "text": "Engine H: every public setter of the four profiles and two spectra (two valid values + documented rejected values), all sequences up to length 3 (thorough: 4), detached and attached to a Laser, every observable compared with a freshly constructed object; blame replay attributes a divergence to the first op causing it. Engine L: cross-section / volume integrals and second moments on a parameter lattice by independent quadrature, segment tiling over a radius x length lattice incl. +-1 ulp coincidences, per-bin power against closed-form integrals over all awkward-decimal ranges.",
        "note": "Trapezoid quadrature on a grid scaled from the measured width (stated tolerance 1e-10); Rayleigh-range formula of GaussianBeamAxisymmetric is not in the property and not checked; swapping profile/spectrum on the Laser and ray tracing are covered by C01's laser driver.",
    },
}
