#!/venv/bin/python
"""Edit known_findings.json under a lock.
   mc/known.py add <PROP> <signature> "<what fails: call site + input class>"
   mc/known.py fixed <PROP> <signature> <commit> "<what failed>"
   mc/known.py rm <PROP> <signature>
   mc/known.py list [PROP]
"""
import fcntl, json, os, sys
VERIF = os.path.dirname(os.path.dirname(os.path.abspath(__file__)))
F = os.path.join(VERIF, "known_findings.json")


def main():
    a = sys.argv[1:]
    if not a:
        print(__doc__); return 2
    with open(F + ".lock", "w") as lk:
        fcntl.flock(lk, fcntl.LOCK_EX)
        try:
            data = json.load(open(F))
        except FileNotFoundError:
            data = {"findings": []}
        fs = data["findings"]
        if a[0] == "list":
            for e in fs:
                if len(a) < 2 or e["property"] == a[1]:
                    print(e["status"], e["property"], e["signature"], "|", e.get("what", ""), e.get("commit", ""))
            return 0
        prop, sig = a[1], a[2]
        fs = [e for e in fs if not (e["property"] == prop and e["signature"] == sig)]
        if a[0] == "add":
            fs.append({"property": prop, "signature": sig, "status": "known", "what": a[3]})
        elif a[0] == "fixed":
            fs.append({"property": prop, "signature": sig, "status": "fixed", "commit": a[3], "what": a[4]})
        elif a[0] != "rm":
            print(__doc__); return 2
        fs.sort(key=lambda e: (e["property"], e["signature"]))
        data["findings"] = fs
        data["format"] = ("status=known: the check prints 'KNOWN-FINDING: property=<id> <signature> <what>' and does not fail on exactly this signature; "
                          "status=fixed: 'fixed: property=<id> <commit> <what failed>' - documents a fix: commit, suppresses nothing")
        with open(F + ".tmp", "w") as f:
            json.dump(data, f, indent=1)
        os.replace(F + ".tmp", F)
    return 0


if __name__ == "__main__":
    sys.exit(main())
