#!/venv/bin/python
"""Write seeded/<id>/meta.json for every kept seed and print the markdown table of DESIGN.md section 11.

Input: the RESULT / CONFIRM lines printed by mc/try_seed.sh (files given on the command line), and the short
descriptions below (condensed from each seed's notes.md, which was written by the sub-agent that produced it)."""
import json
import os
import re
import sys

V = os.path.dirname(os.path.dirname(os.path.abspath(__file__)))

# id -> (property, change, what it needs to manifest)
SEEDS = {
    "C01_A": ("C01", "BeamMaterial caches the beam->plasma transform; only the beam's notifier invalidates it", "observe, then move only the plasma (non-uniform profile), observe again"),
    "C01_B": ("C01", "Notifier.notify() purges dead weak references while iterating, skipping the next live callback", "a collected observer (replaced model/attenuator) directly before a live one whose cache is filled, then a change that arrives only through the notifier"),
    "C01p_A": ("C01", "PlasmaModel.plasma setter subscribes before unsubscribing: re-assigning the same plasma drops the subscription", "second material rebuild with the same model instance, observe, replace a species, observe"),
    "C01p_B": ("C01", "Plasma._configure_geometry no longer resets the primitive transform when geometry_transform is None", "geometry_transform = T (non-identity) then geometry_transform = None with models attached"),
    "C01b_A": ("C01", "Beam._configure_geometry returns early (no models) before detaching the old geometry", "models attached, then all removed (clear / = []), then observe"),
    "C01b_B": ("C01", "BeamCXLine builds its line shape only once; _change() never resets it", "observe, then replace the receiver species / set model.line / other plasma or provider, observe"),
    "C01l_A": ("C01", "Laser.plasma / laser_profile setters subscribe before unsubscribing: re-assigning the same object drops the subscription", "laser.laser_profile = same profile then profile.laser_radius change; or laser.plasma = same plasma, observe, move plasma"),
    "C01l_B": ("C01", "SeldenMatobaThomsonSpectrum caches the laser-spectrum memoryviews per spectrum object", "observe, change the attached spectrum in place (bins/min/max/mean), observe"),
    "C02_A": ("C02", "StarkBroadenedLine: sigma zeroed together with the Lorentzian part when the Lorentzian width < 1% of the total", "Doppler-dominated Stark line (low n_e, warm emitter, or n_e = 0)"),
    "C02_B": ("C02", "GaussianQuadrature.min_order setter no longer rebuilds the roots/weights cache", "integrator configured through setters (max_order then min_order) instead of the constructor"),
    "C03_A": ("C03", "Bremsstrahlung writes a species density into its shared buffer only when positive", "same model evaluated where an ion density is positive, then where it is zero"),
    "C03_B": ("C03", "ThermalCXLine donor list survives the cache reset and is appended to on every rebuild", "evaluate, plasma notification or composition change, evaluate again"),
    "C04_A": ("C04", "SingleRayAttenuator._change no longer clears the stopping-data cache", "density evaluated, then composition / element / atomic data changed, density again"),
    "C04_B": ("C04", "attenuation integral uses the nominal step instead of the real sample spacing", "non-zero stopping and a length that is not a whole number (>= 3) of steps"),
    "C05_A": ("C05", "BeamCXLine excited-metastable data survives the cache reset and is appended again on every rebuild", ">= 2 beam metastables, evaluate, any notifying change, evaluate"),
    "C05_B": ("C05", "BeamEmissionLine reuses beam_velocity as per-species scratch (flows accumulate across species)", ">= 2 species, a non-last species with bulk flow, energy-dependent coefficient"),
    "C06_A": ("C06", "ADF11-type writer truncates the species file before validating", "stored keys, then a rejected update to the same family/species file, then read the earlier keys"),
    "C06_B": ("C06", "update_pec_rates: scratch dict not reset for a group whose file does not exist yet", "one update_pec_rates call spanning >= 2 (class, element, charge) groups, read a never-written key of the later group"),
    "C06x_A": ("C06", "wavelength reader returns an auto-creating RecursiveDict: absent transition yields {} instead of RuntimeError", "read a never-written transition of an (element, charge) whose file exists"),
    "C06x_B": ("C06", "radiated-power writer: shared mutable default dict for not-yet-existing files", ">= 2 new rate files created in one process through this writer, read a charge only written to the other"),
    "C07_A": ("C07", "beam_cx_pec converts an isotope receiver with the element's wavelength", "isotope receiver + isotope-specific wavelength stored (1e-4 relative effect)"),
    "C07_B": ("C07", "ThermalCXPEC.evaluate loses the non-positive guard on the donor temperature", "donor_temperature <= 0 with n_e, T_e > 0"),
    "C08_A": ("C08", "ADF11 block header: two-digit Z1 read as its first digit", "ADF11 file with >= 10 charge-state blocks (neon or heavier)"),
    "C08_B": ("C08", "ADF12: NZEFF and NBMAG counts unpacked in swapped order", "a block whose Zeff and B-field counts differ"),
    "C08x_A": ("C08", "ADF11 block header regex captures one digit of Z1 (same effect as C08_A, written independently)", "ADF11 file with >= 10 charge-state blocks"),
    "C08x_B": ("C08", "ADF21/22 helper applies the cm^3->m^3 conversion to sref on the dimensionless (BMP) branch", "parse_adf22bmp / install_adf22bmp and a look at sref or sen*st/sref"),
    "C09_A": ("C09", "match_plasma_neutrality drops tcx_donor_charge on the way to the worker", "neutrality variant, CX donor with density > 0 and a non-default donor charge"),
    "C09_B": ("C09", "non-negativity clamp moved below the use of the value", "species whose charge alone exceeds n_e at some point"),
    "C10_A": ("C10", "Cartesian integrator in-loop flush overwrites instead of accumulating", "voxel map merging non-adjacent cells into one source + a ray that re-enters the source"),
    "C10_B": ("C10", "cylindrical integrator caches the voxel-map memoryview by material identity", "trace, assign mask / voxel_map, trace again"),
    "C10x_A": ("C10", "cylindrical integrator's end-of-path flush skips source 0", "a path segment whose near end lies in source 0"),
    "C10x_B": ("C10", "Cartesian integrator samples along the world-frame ray direction", "RayTransferBox with a rotation in its accumulated transform"),
    "C11_A": ("C11", "constrained SART: unobserved voxels skip the zero clip", "zero column in W + Laplacian coupling with beta large enough to drive the cell negative"),
    "C11_B": ("C11", "NNLS multiplies alpha into the caller's Tikhonov matrix in place", "float64 ndarray Tikhonov matrix re-used in a second call"),
    "C12_A": ("C12", "LCFS mask skips the polygon test for psi_n < 0.95", "grid point outside the LCFS polygon with psi_n < 0.95 (private flux region)"),
    "C12_B": ("C12", "hand-written toroidal rotation in VectorAxisymmetricMapper has a wrong y row", "2-D vector with a radial component at a point off the y = 0 plane"),
    "C13_A": ("C13", "periodic remainder tests signbit(x) instead of x < 0", "argument that is an exact negative multiple of the period, or -0.0"),
    "C13_B": ("C13", "samplers use start + step*arange(n) instead of linspace (last node not pinned)", "sample count whose step does not round-trip (50, 99, 104 on a unit range)"),
    "C14_A": ("C14", "Caching3D normalises already-sampled shared nodes a second time", "function_boundaries other than (0,1); evaluate a cell, then an adjacent cell"),
    "C14_B": ("C14", "Caching2D y finite-difference width hoisted out of the node loop", "y resolution not dividing the extent, off-node point in the first/last row of cells"),
    "C14x_A": ("C14", "Caching3D centred-difference step assumed uniform (edge cells)", "extent not a whole number of resolution steps, point in the first/last cell of that axis"),
    "C14x_B": ("C14", "Caching2D normalises coordinates before the out-of-area fallback", "no_boundary_error=True and a point outside the area"),
    "C15_A": ("C15", "observers setter appends instead of replacing", "assign observers to a group that already has members"),
    "C15_B": ("C15", "BolometerCamera.add_foil_detector parents a detector only when its slit is new", "detector created parentless sharing its slit with an earlier detector"),
    "C15x_A": ("C15", "observers setter checks against the base Observer0D type", "assignment (not add_observer) of a foreign Observer0D kind"),
    "C15x_B": ("C15", "BolometerCamera.foil_detectors keeps the caller's list object", "a second reference to the assigned list (caller appends later, or the list is shared by two cameras)"),
    "C16_A": ("C16", "calibrate() returns views of one shared buffer", "instrument with >= 2 accommodated spectra"),
    "C16_B": ("C16", "Polychromator.filters no longer resets the cached pipeline classes", "evaluate pipelines, assign filters with a different count, look again"),
    "C16x_B": ("C16", "PolychromatorFilter takes its spectral range before sorting its table", "user-defined filter tabulated in descending wavelength order"),
    "C17_A": ("C17", "rectangular fast path in AxisymmetricVoxel.volume taken for isosceles trapezoids", "4-vertex isosceles trapezoid with axis-parallel bases whose vertex list starts on a parallel side"),
    "C17_B": ("C17", "VoxelCollection.total_volume sums scenegraph children instead of the voxel list", "set_active(i) / active=i / unparent_all_voxels() before reading total_volume"),
    "C18_A": ("C18", "TrivariateGaussian.laser_length notifies before storing the new length", "profile attached to a Laser, laser_length assigned as the last geometry change"),
    "C18_B": ("C18", "GaussianSpectrum bin powers renormalised to the in-range part of the line", "spectral range that clips the line"),
    "C18x_A": ("C18", "GaussianBeamModel normalisation uses z, exponent uses z - waist_z", "non-zero waist_z"),
    "C18x_B": ("C18", "generate_segmented_cylinder memoised: two lasers with equal (radius, length) share Cylinder objects", "a second laser / profile alive with exactly the same radius and length"),
    "C19_A": ("C19", "shared memo between lookup_element and lookup_isotope keyed by the raw key", "both registries queried with a key valid in both ('H') in one process"),
    "C19_B": ("C19", "Line.__richcmp__ compares element symbols while __hash__ uses the element object", "lines of hydrogen and protium with equal charge and transition"),
    "C02y_A": ("C02", "ZeemanTriplet passes the full radiance through the pi filter when B is exactly zero", "B exactly zero at the evaluation point and polarisation='pi'"),
    "C02y_B": ("C02", "add_lorentzian_line re-uses the integrator's StarkFunction with a stale width", "a second evaluation with a different Lorentzian width through the same (default, shared) integrator"),
    "C03y_A": ("C03", "TotalRadiatedPower returns early when either charge state is locally absent", "a point where exactly one of the two charge states has density <= 0"),
    "C03y_B": ("C03", "Bremsstrahlung default integrator is a shared default argument", ">= 2 models alive built with the default integrator, evaluate one that was not constructed last"),
    "C04y_A": ("C04", "Beam._modified no longer notifies", "density evaluated, beam moved / re-parented, density again in a non-uniform plasma"),
    "C04y_B": ("C04", "stale target_z: equivalent electron density divided by the last species' charge", ">= 2 ion species of different charge and a density-dependent stopping rate"),
    "C05y_A": ("C05", "Composition.add() stops notifying when it replaces an existing species", "evaluate, replace a species through composition.add, evaluate (no other setter in between)"),
    "C05y_B": ("C05", "BeamCXLine passes the relative velocity where the beam velocity is expected", ">= 2 metastables, receiver with bulk flow, energy-dependent population coefficient"),
    "C07y_A": ("C07", "radiated-power table with a single temperature point hard-codes 'nearest' extrapolation", "Nx1 table, permit_extrapolation=False, density outside the tabulated range"),
    "C07y_B": ("C07", "beam_population_rate reduces only one of two isotopes to its element (if/elif)", "beam and plasma species both isotopes"),
    "C09y_A": ("C09", "point solutions memoised by (n_e, T_e) without the donor density", ">= 2 points of one call with identical n_e, T_e and different donor density"),
    "C09y_B": ("C09", "species dictionaries stacked by insertion position instead of by charge key", "species dict whose insertion order is not ascending in charge"),
    "C11y_A": ("C11", "invert_sart: scalar initial guess 0 replaced by the default seed (falsy)", "scalar initial_guess exactly 0 with few iterations"),
    "C11y_B": ("C11", "invert_regularised_lstsq builds the stacked matrix in the geometry matrix's dtype", "integer-dtype geometry matrix (alpha*L entries truncate)"),
    "C12y_A": ("C12", "zero-field guard in FluxCoordToCartesian uses 'or' instead of 'and'", "a point where exactly one in-plane field component is exactly zero (midplane of a symmetric grid)"),
    "C12y_B": ("C12", "AxisymmetricMapper fast path for y == 0 forgets negative x", "3-D point with y exactly 0 and x < 0"),
    "C13y_A": ("C13", "VectorAxisymmetricMapper divides by r (NaN on the axis)", "evaluation exactly on the symmetry axis"),
    "C13y_B": ("C13", "ClampInput3D clamps z against the y upper bound", "zmax != ymax and z above min(zmax, ymax)"),
    "C17y_A": ("C17", "cross_sectional_area as a fan from the first vertex with abs() per term", "concave polygon whose first stored vertex does not see the whole polygon"),
    "C17y_B": ("C17", "emissivities_from_function returns a retained output buffer", "sample f1, keep the result, sample f2 on the same grid, look at the first result"),
    "C19y_A": ("C19", "integer atomic-number fast path assumes a gap-free element table", "atomic number passed as int with Z between 43 and 84"),
    "C19y_B": ("C19", "indices built lazily; the (element, number) branch of lookup_isotope never builds the isotope index", "first isotope look-up of a fresh process uses the element + mass-number form"),
    "C20y_A": ("C20", "derivative operators allocated in the dtype of the vertex array", "vertices passed as an integer array, grid with >= 3 rows or columns"),
    "C20y_B": ("C20", "isotropic fast path in calculate_admt drops the (1/R) d/dx term", "anisotropy exactly 1"),
    "C20_A": ("C20", "dx, dy derived from the grid extent with row/column counts swapped", "non-square grid"),
    "C20_B": ("C20", "calculate_admt scales the caller's derivative operators in place", "second use of the same operators dict"),
    "C01z_A": ("C01", "SingleRayAttenuator.clamp_sigma setter notifies before it stores the new value (beam geometry rebuilt from the old one)", "beam with models, attenuator.clamp_sigma assigned as the last change, clamp_to_zero False"),
    "C01z_B": ("C01", "Bremsstrahlung stores the provider's Gaunt factor through the public setter, marking it user-supplied", "no user Gaunt factor, observe, plasma.atomic_data = provider with another Gaunt factor, observe"),
    "C06z_A": ("C06", "update_beam_cx_rates replaces a transition's metastable set instead of merging into it", "two separate writes for one transition with different donor metastables, then read the first"),
    "C06z_B": ("C06", "update_wavelengths 'unchanged group' shortcut returns instead of continuing", "multi-group update whose earlier group repeats the stored values and whose later group is new or corrected"),
    "C08z_A": ("C08", "ADF15 block extraction memoised per (file path, block number)", "a file parsed, replaced at the same path by another edition, parsed again in one process"),
    "C08z_B": ("C08", "ADF11 installer converts units in place on the density array shared between the rates of one file", "install_adf11* of a file with >= 2 charge states, read back the axes"),
    "C10z_A": ("C10", "RayTransferCylinder snaps the period with int() instead of round()", "n_polar > 1 and a period stated as a rounded-up decimal (51.4286 for 7 sectors)"),
    "C10z_B": ("C10", "RayTransferPipeline0D keeps its sample counter across observations", "the same RayTransferPipeline0D instance used for a second observe()"),
    "C14z_A": ("C14", "Caching3D allows a single node on the z axis", "z resolution coarser than the z extent (thin slab)"),
    "C14z_B": ("C14", "Caching1D marks a cell as calculated before sampling it", "an evaluation aborted by an exception of the wrapped function, then the same cell again"),
    "C15z_A": ("C15", "Observer0DGroup.__getitem__ up-front bounds check rejects index -len(group)", "integer index exactly -len(group)"),
    "C15z_B": ("C15", "FibreOpticGroup.radius validates the length with zip(strict=True), after storing the common prefix", "sequence of wrong length assigned to radius, then the members read"),
    "C16z_B": ("C16", "Polychromator range taken from the filters with the outermost central wavelengths", "nested filters: a broad band reaching further out than the line filter with the outermost centre"),
    "C18z_A": ("C18", "ConstantBivariateGaussian widths updated in place, normalisation refreshed only by the y setter", "stddev_x set after construction as the last change"),
    "C18z_B": ("C18", "single laser segment never shorter than 2 * radius", "laser_length < 2 * laser_radius"),
    "C02w_A": ("C02", "GaussianQuadrature.min_order setter rebuilds the cache only when the minimum is lowered", "min_order raised through the property after construction, then a Lorentzian integrated"),
    "C02w_B": ("C02", "add_gaussian_line single-bin fast path deposits the whole radiance, ignoring the clamping at the window edge", "coarse grid and a line centre within 10 sigma of a window edge"),
    "C03w_A": ("C03", "Bremsstrahlung stores an ion density in the shared buffer only when > 0 (same idea as C03_A, written independently)", "one model evaluated where an ion density is positive, then where it is zero"),
    "C03w_B": ("C03", "ThermalCXLine donor loop breaks at the first absent donor instead of skipping it", ">= 2 donors, the earlier-listed one locally absent"),
    "C04w_A": ("C04", "sign of the ion flow in the beam-ion collision velocity", "species flow with a component along the beam and an energy-dependent stopping rate"),
    "C04w_B": ("C04", "Beam._modified notifies only when the beam has geometry children", "beam without emission models, density evaluated, beam moved in a non-uniform plasma, density again"),
    "C05w_A": ("C05", "population list hoisted out of the loop: shared between the excited beam metastables", ">= 3 beam metastables with distinct population coefficients"),
    "C05w_B": ("C05", "Composition.add() silent when it replaces a species (same idea as C05y_A, written independently)", "evaluate, replace a species through composition.add, evaluate"),
    "C07w_A": ("C07", "thermal_cx_pec looks the wavelength up for the element when an isotope is requested", "isotope receiver with its own stored wavelength"),
    "C07w_B": ("C07", "BeamCXPEC single-point ti/ni/z/b axis treated as the reference condition (factor 1)", "beam CX table with a single-point secondary axis whose value differs from qref"),
    "C09w_A": ("C09", "thermal-CX rates memoised per (data source, donor, receiver) without the donor charge", "two calls in one process with the same donor element and different tcx_donor_charge"),
    "C09w_B": ("C09", "over-charge guard moved below the value it protects", "given species carry more charge than n_e"),
    "C11w_A": ("C11", "constrained SART clips at zero only for observed voxels", "all-zero column of the geometry matrix with a strong Laplacian penalty"),
    "C11w_B": ("C11", "invert_regularised_lstsq scales the caller's Tikhonov matrix in place", "one float64 tikhonov_matrix re-used over several calls"),
    "C12w_A": ("C12", "mappers use the unclamped psi_n interpolator", "interpolated psi undershooting psi_axis near the axis"),
    "C12w_B": ("C12", "zero-field guard 'and' -> 'or' in FluxCoordToCartesian (same idea as C12y_A, written independently)", "exactly one in-plane field component exactly zero"),
    "C13w_A": ("C13", "Slice3D fills the free arguments cyclically: axis 1 calls f(y, v, x)", "axis selector 1 / 'y' and a function not symmetric in x and z"),
    "C13w_B": ("C13", "PolygonMask2D triangulates a reversed copy of an anticlockwise outline but keeps the original vertex order", "concave polygon given anticlockwise"),
    "C17w_A": ("C17", "centroid fast path for 'rectangles' trusts a detector that accepts isosceles trapezoids", "4-vertex equal-diagonal non-rectangular cross-section listed from its axis-parallel side"),
    "C17w_B": ("C17", "cached triangle areas aliased and cumulated in place on every call", "second evaluation on the same voxel (>= 2 triangles, non-constant function)"),
    "C19w_A": ("C19", "lookup_isotope(number=) rejects a mass number equal to the atomic number", "protium looked up by element + mass number"),
    "C19w_B": ("C19", "Element equality and hash reduced to symbol and atomic number", "hydrogen compared with protium (cross-class fallback)"),
    "C20w_A": ("C20", "cell sizes derived with rows and columns swapped (same idea as C20_A, written independently)", "non-square grid"),
    "C20w_B": ("C20", "calculate_admt scales the caller's derivative operators in place (same idea as C20_B, written independently)", "second use of one operators dict"),
    "C01v_A": ("C01", "BeamAttenuator.plasma setter unsubscribes from the beam's notifier instead of the old plasma's", "beam.atomic_data / beam.plasma re-assigned after the attenuator is attached, evaluate, beam-only change, evaluate"),
    "C01v_B": ("C01", "Composition.add() notifies only when the (element, charge) key is new (same idea as C05y_A, other property)", "observe, replace a species through composition.add, observe"),
    "C06v_A": ("C06", "thermal-CX PEC writer opens an existing file 'r+' and never truncates it", "overwrite of a stored transition with a smaller table (shorter JSON)"),
    "C06v_B": ("C06", "beam-emission writer shares one record dict across the transitions of a batch", "one update_beam_emission_rates call carrying >= 2 transitions of one file"),
    "C08v_A": ("C08", "install_files routes the 'adf11prc' key to install_adf11prb", "installation through the configuration entry point install_files / populate"),
    "C08v_B": ("C08", "ADF15 block lookup accepts the first block whose ISEL is >= the requested one", "index table lists a block that is absent from the interior of the data section"),
    "C10v_A": ("C10", "Cartesian integrator keeps crediting the last active source while the ray is in cells mapped to -1", "mask / voxel map with -1 cells lying between an active cell and the observer"),
    "C10v_B": ("C10", "cylindrical integrator adds 180 instead of 360 before folding phi into the period", "n_polar > 1 and an odd number of sectors (period 120, 72, 360)"),
    "C14v_A": ("C14", "Caching2D decides per row, from the top node only, whether the row is already sampled", "a cell evaluated after a cell 1-3 rows above it (descending y)"),
    "C14v_B": ("C14", "Caching3D checks the z cell index against the y axis' last cell", "different node counts along y and z, point in the upper z part"),
    "C15v_A": ("C15", "group.observe() walks the scene-graph children instead of the member tuple", "members re-assigned so that a former member is dropped, then observe()"),
    "C15v_B": ("C15", "element-wise accumulate on the deprecated spectroscopic groups writes display_progress", "SpectroscopicSightLineGroup / FibreOpticGroup with accumulate given per observer"),
    "C16v_A": ("C16", "Polychromator bin count rounded to nearest instead of up", "range / step with a fractional part below 0.5"),
    "C16v_B": ("C16", "CzernyTurnerSpectrometer.accommodated_spectra validated after the store", "a rejected assignment followed by any valid change"),
    "C18v_A": ("C18", "ConstantSpectrum caches its level at the first evaluation; the range setters never reset it", "min_wavelength / max_wavelength assigned on an existing ConstantSpectrum"),
    "C18v_B": ("C18", "GaussianBeamAxisymmetric stores stddev_waist / laser_wavelength before the model validates them", "a rejected non-positive assignment, then a read or any valid assignment"),
}

res, conf = {}, {}
for fn in sys.argv[1:]:
    for line in open(fn):
        m = re.search(r"RESULT (\S+) seeded/(\S+) check=(\S+) tier=(\S+) demo_rc=(\S+) check_rc=(\S+) violations=(\d+) first=\s*(?:signature=)?(.*)", line)
        if m:
            prop, sid, chk, tier, drc, crc, nv, first = m.groups()
            res.setdefault(sid, {})[chk] = (int(crc) if crc.isdigit() else crc, int(nv), first.strip())
        m = re.search(r"CONFIRM (\S+) (\S+) demo_clean_rc=(\S+) demo_with_change_rc=(\S+) suite_with_change=(\S+)", line)
        if m:
            conf[m.group(2)] = m.groups()[2:]

print("| seed | property | change (few lines, passes the repository suite) | needs | caught by | first signature |")
print("|---|---|---|---|---|---|")
for sid in sorted(SEEDS):
    prop, change, needs = SEEDS[sid]
    d = os.path.join(V, "seeded", sid)
    if not os.path.isdir(d):
        continue
    r = res.get(sid, {})
    caught = sorted(c for c, (rc, nv, _) in r.items() if rc == 1 and nv > 0)
    missed = sorted(c for c, (rc, nv, _) in r.items() if not (rc == 1 and nv > 0))
    first = next((f for c, (rc, nv, f) in sorted(r.items()) if rc == 1 and nv > 0), "")
    c = conf.get(sid)
    meta = {
        "breaks_property": prop, "change": change, "needs_to_manifest": needs,
        "origin": "written by an independent sub-agent that was given only the property text and a scratch worktree of /repo (nothing from /verif)",
        "confirmed_by_lead": ({"demo_on_clean_tree_rc": c[0], "demo_with_change_rc": c[1], "repository_suite_with_change": c[2].replace("_", " ")} if c else "see DESIGN.md section 11"),
        "ran": "SEED_FULL=1 mc/try_seed.sh %s seeded/%s quick   (fresh scratch worktree of /repo HEAD: demo on the clean tree, apply patch.diff, rebuild, demo, repository suite with OPENBLAS_NUM_THREADS=1, then bin/check against that worktree)" % (prop, sid),
        "caught_by": caught, "not_caught_by": missed, "first_signature": first,
    }
    json.dump(meta, open(os.path.join(d, "meta.json"), "w"), indent=1)
    print("| %s | %s | %s | %s | %s | `%s` |" % (sid, prop, change, needs, ", ".join(caught) or "**none**", first[:110]))
