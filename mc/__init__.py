"""Framework package.  Development aid: with VERIF_REPO=<scratch worktree> the `cherab` package is resolved from
that worktree instead of /repo (used to run checks against seeded changes in parallel without touching /repo;
registered commands never set it)."""
import os as _os
import sys as _sys

_wt = _os.environ.get("VERIF_REPO")
if _wt and _os.path.realpath(_wt) != "/repo":
    try:
        import __editable___cherab_1_5_0_finder as _f
        _f.MAPPING["cherab"] = _wt + "/cherab"
    except ImportError:
        pass
    _m = _sys.modules.get("cherab")
    if _m is not None:
        _m.__path__[:] = [_wt + "/cherab"]
    _sys.path.insert(0, _wt)
