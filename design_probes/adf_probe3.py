import numpy as np, tempfile, os
from cherab.core.atomic import carbon, hydrogen
from cherab.openadas.parse import parse_adf15
d=tempfile.mkdtemp()
def e82(vals, per=8):
    return [''.join(' %8.2E'%v for v in vals[i:i+per]) for i in range(0,len(vals),per)]
def write15_h(path, blocks, a_style='A'):
    # blocks: list of (wl_angstrom, up, lo, type, ne, te, pec[nne,nte])
    L=['%5d    /H 0 PHOTON EMISSIVITY COEFFICIENTS/'%len(blocks)]
    for i,(wl,up,lo,typ,ne,te,pec) in enumerate(blocks,1):
        L.append('%8.1f%s%5d%5d /FILMEM = bndlfl  /TYPE = %-5s /INDM = T /ISEL = %4d'%(wl,a_style,len(ne),len(te),typ,i))
        L+=e82(ne); L+=e82(te)
        for j in range(len(ne)): L+=e82(pec[j])
    L.append('C'+'-'*79); L.append('C'); L.append('C  ISEL  WAVELENGTH      TRANSITION       TYPE'); L.append('C  ----  ----------  ----------------   -----')
    for i,(wl,up,lo,typ,ne,te,pec) in enumerate(blocks,1):
        L.append('C  %3d.  %9.1f      N=%2d - N=%2d      %-5s'%(i,wl,up,lo,typ))
    L.append('C'); L.append('C'+'-'*79)
    open(path,'w').write('\n'.join(L)+'\n')
def mk(nne,nte,k):
    ne=np.array([float('%8.2E'%v) for v in np.geomspace(5e7,1e15,nne)]) if nne>1 else np.array([1e10])
    te=np.array([float('%8.2E'%v) for v in np.geomspace(0.2,1e4,nte)]) if nte>1 else np.array([10.])
    pec=np.array([[float('%8.2E'%(1e-9*(k+1+i+100*j))) for j in range(nte)] for i in range(nne)])
    return ne,te,pec
for nne,nte,style in [(24,29,'A'),(24,29,' A'),(8,9,'A'),(9,8,'A'),(1,1,'A'),(7,17,'A')]:
    bl=[(6561.9,3,2,'EXCIT')+mk(nne,nte,0),(6561.9,3,2,'RECOM')+mk(nne,nte,1),(4860.0,4,2,'EXCIT')+mk(nne,nte,2),(1215.2,2,1,'CHEXC')+mk(nne,nte,3)]
    p=os.path.join(d,'pec12#h_pju#h0.dat'); write15_h(p,bl,style)
    try:
        rates,wl=parse_adf15(hydrogen,0,p)
        ok=True
        for (w,up,lo,typ,ne,te,pec) in bl:
            cls={'EXCIT':'excitation','RECOM':'recombination','CHEXC':'thermalcx'}[typ]
            r=rates[cls][hydrogen][0][(up,lo)]
            ok&=np.allclose(r['ne'],ne*1e6,rtol=1e-14) and np.allclose(r['te'],te,rtol=1e-14) and np.allclose(r['rate'],pec*1e-6,rtol=1e-14)
            ok&=abs(wl[hydrogen][0][(up,lo)]-w/10)<1e-12
        print(nne,nte,repr(style),'ok' if ok else 'MISMATCH')
    except Exception as ex: print(nne,nte,repr(style),'EXC',type(ex).__name__,str(ex)[:100])
