from raysect.optical import World
from raysect.optical.material.emitter.inhomogeneous import NumericalIntegrator
from cherab.core.laser import Laser
from cherab.core.model.laser import UniformEnergyDensity, ConstantSpectrum
w=World(); l=Laser(parent=w)
l.laser_profile=UniformEnergyDensity(); l.laser_spectrum=ConstantSpectrum(1000,1001,1)
try:
    l.integrator=NumericalIntegrator(step=0.01); print("ok")
except Exception as e: print("EXC",type(e).__name__,e)
