import time, numpy as np
from raysect.core import Vector3D, translate, Point3D
from raysect.optical import World, Ray
from cherab.core import Beam
from cherab.core.atomic import AtomicData, BeamStoppingRate, deuterium
from cherab.tools.plasmas.slab import build_constant_slab_plasma
from cherab.core.model import SingleRayAttenuator

class R(BeamStoppingRate):
    def __init__(self, v): self.v=v
    def evaluate(self,e,n,t): return self.v
class AD(AtomicData):
    def beam_stopping_rate(self,b,p,c): return R(1e-13)
world=World()
plasma=build_constant_slab_plasma(length=1,width=1,height=1,electron_density=1e19,electron_temperature=1e3,plasma_species=[(deuterium,1,1e19,1e3,Vector3D(0,0,0))])
plasma.atomic_data=AD(); plasma.parent=world
beam=Beam(transform=translate(0.5,0,0)); beam.atomic_data=AD(); beam.plasma=plasma
beam.attenuator=SingleRayAttenuator(clamp_to_zero=True)
beam.energy=50000; beam.power=1e6; beam.element=deuterium; beam.parent=world; beam.sigma=0.2; beam.length=10.
print("d before", beam.density(0,0,5.0))
beam.transform=translate(50,0,0)   # out of plasma -> no attenuation expected
print("d after move (stale?)", beam.density(0,0,5.0))
b2=Beam(transform=translate(50,0,0)); b2.atomic_data=AD(); b2.plasma=plasma; b2.attenuator=SingleRayAttenuator(clamp_to_zero=True)
b2.energy=50000; b2.power=1e6; b2.element=deuterium; b2.parent=world; b2.sigma=0.2; b2.length=10.
print("fresh", b2.density(0,0,5.0))
print(type(beam).__dict__.get('_modified'), hasattr(beam,'_modified'))
