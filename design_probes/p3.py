import time, numpy as np
from raysect.core import Vector3D, translate, Point3D
from raysect.optical import World, Ray, Spectrum
from raysect.primitive import Box
from cherab.core import Plasma, Species, Maxwellian, Line
from cherab.core.atomic import AtomicData, deuterium
from cherab.core.atomic import ImpactExcitationPEC
from cherab.core.model import ExcitationLine
from raysect.optical.material.emitter.inhomogeneous import NumericalIntegrator
class PEC(ImpactExcitationPEC):
    def __init__(s,v): s.v=v
    def evaluate(s,ne,te): return s.v
class AD(AtomicData):
    def wavelength(s,ion,ch,tr): return 656.1
    def impact_excitation_pec(s,ion,ch,tr): return PEC(1e-32)
def build():
    world=World()
    plasma=Plasma(parent=world, integrator=NumericalIntegrator(step=0.05))
    plasma.electron_distribution=Maxwellian(1e19,10.,Vector3D(0,0,0),9.1e-31)
    plasma.composition=[Species(deuterium,0,Maxwellian(1e18,5.,Vector3D(0,0,0),2*1.66e-27))]
    plasma.atomic_data=AD(); plasma.geometry=Box(Point3D(-.5,-.5,-.5),Point3D(.5,.5,.5))
    plasma.models=[ExcitationLine(Line(deuterium,0,(3,2)))]
    return world, plasma
t=time.time()
for i in range(200):
    w,p=build()
    r=Ray(origin=Point3D(0,0,-2),direction=Vector3D(0,0,1),min_wavelength=655,max_wavelength=657,bins=16)
    s=r.trace(w)
print("per build+trace ms", (time.time()-t)/200*1e3, s.samples.sum()*s.delta_wavelength)
