import numpy as np
from raysect.optical import Spectrum
s=Spectrum(400,410,5); s.samples[:]=[1,3,2,0,4]
c=s.wavelengths; print(c)
def ref(a,b):
    xs=np.concatenate(([min(a,c[0]-100)],c,[max(b,c[-1]+100)])); ys=np.concatenate(([s.samples[0]],s.samples,[s.samples[-1]]))
    # exact integral of piecewise linear
    pts=np.unique(np.concatenate(([a,b],xs[(xs>a)&(xs<b)])))
    v=np.interp(pts,xs,ys); return np.sum(0.5*(v[1:]+v[:-1])*np.diff(pts))
for a,b in [(400,410),(401,403),(400,401),(400.3,400.9),(402.5,407.25),(409,410)]:
    print(a,b,s.integrate(a,b),ref(a,b), "hist:", sum(s.samples[i]*max(0,min(b,400+2*(i+1))-max(a,400+2*i)) for i in range(5)))
