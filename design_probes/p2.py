import time, numpy as np
from raysect.core import Vector3D, translate, Point3D
from raysect.optical import World, Ray
from raysect.primitive import Box
from cherab.core import Beam, Plasma, Species, Maxwellian
from cherab.core.atomic import AtomicData, BeamStoppingRate, deuterium
from cherab.core.model import SingleRayAttenuator
from cherab.core.math import Constant3D
from raysect.core.math.function.float import Arg3D, Exp3D
class R(BeamStoppingRate):
    def __init__(self, v): self.v=v
    def evaluate(self,e,n,t): return self.v
class AD(AtomicData):
    def beam_stopping_rate(self,b,p,c): return R(1e-13)
world=World()
plasma=Plasma(parent=world)
dens = 1e19*Exp3D(-Arg3D('x')*Arg3D('x'))
plasma.electron_distribution=Maxwellian(dens,1e3,Vector3D(0,0,0),9.1e-31)
plasma.composition=[Species(deuterium,1,Maxwellian(dens,1e3,Vector3D(0,0,0),2*1.66e-27))]
plasma.atomic_data=AD()
def mk(x):
    beam=Beam(transform=translate(x,0,0)); beam.atomic_data=AD(); beam.plasma=plasma
    beam.attenuator=SingleRayAttenuator(clamp_to_zero=True)
    beam.energy=50000; beam.power=1e6; beam.element=deuterium; beam.parent=world; beam.sigma=0.2; beam.length=10.
    return beam
beam=mk(0.0)
print("d before", beam.density(0,0,5.0))
beam.transform=translate(3,0,0)
print("d after move (stale?)", beam.density(0,0,5.0))
print("fresh", mk(3.0).density(0,0,5.0))
# plasma move
b=mk(0.0); print(b.density(0,0,5.0)); plasma.transform=translate(3,0,0); print("after plasma move", b.density(0,0,5.0)); print("fresh", mk(0.0).density(0,0,5.0))
