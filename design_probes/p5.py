import numpy as np, time
from cherab.core.atomic import AtomicData, neon, hydrogen, carbon, argon, IonisationRate, RecombinationRate, ThermalCXRate
from cherab.tools.plasmas.ionisation_balance import fractional_abundance, from_elementdensity, match_plasma_neutrality
class F:
    def __init__(s,f): s.f=f
    def __call__(s,n,t): return s.f(n,t)
class AD(AtomicData):
    def ionisation_rate(s,el,z): return F(lambda n,t: 1e-14*(1+z)**-2*np.exp(-13.6*(z+1)**2/ (t*20)))
    def recombination_rate(s,el,z): return F(lambda n,t: 3e-19*z**2*(t)**-0.5*(1+n/1e21))
    def thermal_cx_rate(s,d,dz,el,z): return F(lambda n,t: 1e-15*z)
ad=AD()
for el in (hydrogen,carbon,neon,argon):
  for ne in (1e17,1e19,1e21):
    for te in (1.,30.,3000.):
      for nd in (0, 1e15,1e18):
        t=time.time()
        fa=fractional_abundance(ad,el,ne,te,tcx_donor=hydrogen if nd else None,tcx_donor_n=nd if nd else None)
        x=np.array([fa[i][0] for i in range(el.atomic_number+1)])
        S=[ad.ionisation_rate(el,z)(ne,te) for z in range(el.atomic_number)]
        A=[ad.recombination_rate(el,z)(ne,te)+nd/ne*ad.thermal_cx_rate(hydrogen,0,el,z)(ne,te) for z in range(1,el.atomic_number+1)]
        # exact
        r=np.ones(el.atomic_number+1)
        for z in range(el.atomic_number): r[z+1]=r[z]*S[z]/A[z]
        ex=r/r.sum()
        err=np.max(np.abs(x-ex))
        bal=max(abs(x[z]*S[z]-x[z+1]*A[z])/max(x[z]*S[z],x[z+1]*A[z],1e-300) for z in range(el.atomic_number))
        if err>1e-8: print(el.symbol,ne,te,nd,"maxabs err",err,"sum",x.sum(), "relbal", bal, time.time()-t)
print("done")
fd=from_elementdensity(ad,carbon,1e17,1e19,30.,tcx_donor=hydrogen,tcx_donor_n=1e18)
fa=fractional_abundance(ad,carbon,1e19,30.,tcx_donor=hydrogen,tcx_donor_n=1e18)
print([fd[i][0]/1e17 for i in range(7)]); print([fa[i][0] for i in range(7)])
