import time, numpy as np
t=time.time()
from cherab.tools.equilibrium import example_equilibrium
eq=example_equilibrium(); print("example", time.time()-t, eq.r_data.shape, eq.z_data.shape, eq.psi_axis, eq.psi_lcfs)
t=time.time()
from cherab.generomak.equilibrium import load_equilibrium
g=load_equilibrium(); print("generomak", time.time()-t, g.r_data.shape, g.psi_axis, g.psi_lcfs)
r,z=eq.magnetic_axis.x+0.3, eq.magnetic_axis.y
f=eq.map2d(lambda p: 3*p+1); print(f(r,z), 3*eq.psi_normalised(r,z)+1, eq.inside_lcfs(r,z))
b=eq.b_field(r,z); p=eq.poloidal_vector(r,z); n=eq.surface_normal(r,z); print(b, p, n, b.dot(n))
t=time.time(); c=0
for ri in eq.r_data:
    for zi in eq.z_data:
        try: f(ri,zi); c+=1
        except Exception as e: pass
print(c, "evals", time.time()-t)
