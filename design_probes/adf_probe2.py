import numpy as np, tempfile, os
from cherab.core.atomic import carbon, hydrogen, deuterium
from cherab.openadas.parse import parse_adf21, parse_adf15, parse_adf12
d=tempfile.mkdtemp()
def e93(vals, per=8, letter='E'):
    out=[]
    for i in range(0,len(vals),per):
        out.append(''.join(' '+('%9.3E'%v).replace('E',letter) for v in vals[i:i+per]))
    return out
def write21(path, eb, dt, sv, tt, svt, letter='E'):
    L=[]
    L.append('%5d /SVREF=%9.3E /SPEC=%-2s   /DATE=%8s /CODE=%s'%(1,9.734e-8,'H','23/10/97','ADAS310'))
    L.append('-'*80)
    L.append('%5d%5d /TREF=%9.3E'%(len(eb),len(dt),2000.))
    L.append('-'*80)
    L+=e93(eb,8,letter); L+=e93(dt,8,letter)
    L.append('-'*80)
    for j in range(len(dt)): L+=e93(sv[:,j],8,letter)
    L.append('-'*80)
    L.append('%5d /EREF=%9.3E /NREF=%9.3E'%(len(tt),6.5e4,6e13))
    L.append('-'*80)
    L+=e93(tt,8,letter); L.append('-'*80); L+=e93(svt,8,letter)
    open(path,'w').write('\n'.join(L)+'\n')
for neb,ndt,ntt,let in [(25,25,12,'E'),(8,9,7,'D'),(1,1,1,'E'),(9,1,8,'E'),(17,16,25,'D')]:
    eb=np.array([float('%9.3E'%v) for v in np.geomspace(5e3,1.5e5,neb)]) if neb>1 else np.array([5e3])
    dt=np.array([float('%9.3E'%v) for v in np.geomspace(1e12,1e15,ndt)]) if ndt>1 else np.array([1e13])
    tt=np.array([float('%9.3E'%v) for v in np.geomspace(1e1,1e4,ntt)]) if ntt>1 else np.array([2e3])
    sv=np.array([[float('%9.3E'%(1e-7*(1+i+10*j))) for j in range(ndt)] for i in range(neb)])
    svt=np.array([float('%9.3E'%(1e-7*(2+k))) for k in range(ntt)])
    p=os.path.join(d,'b.dat'); write21(p,eb,dt,sv,tt,svt,let)
    try:
        r=parse_adf21(hydrogen,carbon,6,p)[hydrogen][carbon][6]
        ok=np.allclose(r['e'],eb,rtol=1e-14) and np.allclose(r['n'],dt*1e6,rtol=1e-14) and np.allclose(r['sen'],sv*1e-6,rtol=1e-14) and np.allclose(r['st'],svt*1e-6,rtol=1e-14) and np.allclose(r['t'],tt) and abs(r['sref']-9.734e-14)<1e-25 and r['eref']==6.5e4 and abs(r['nref']-6e19)<1e6 and r['tref']==2000.
        print(neb,ndt,ntt,let,'ok' if ok else 'MISMATCH')
    except Exception as ex: print(neb,ndt,ntt,let,'EXC',type(ex).__name__,ex)
print(open(p).read()[:700])
for k in ('e','n','t','sen','st','eref','nref','tref','sref'):
    print(k, r[k] if np.ndim(r[k])==0 else np.ravel(r[k])[:4])
print(eb[:4], dt[:4]*1e6, sv.ravel()[:4]*1e-6)
