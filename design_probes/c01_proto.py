import numpy as np, itertools, math, sys, time
from raysect.core import Vector3D, translate, rotate_y, Point3D
from raysect.core.scenegraph import Node
from raysect.optical import World, Ray
from raysect.primitive import Box, Sphere
from raysect.optical.material.emitter.inhomogeneous import NumericalIntegrator
from raysect.core.math.function.float import Arg3D, Exp3D
from cherab.core import Beam, Plasma, Species, Maxwellian, Line
from cherab.core.atomic import AtomicData, deuterium, hydrogen, carbon
from cherab.core.atomic import BeamStoppingRate, BeamCXPEC, BeamPopulationRate, BeamEmissionPEC, ImpactExcitationPEC, RecombinationPEC
from cherab.core.model import SingleRayAttenuator, BeamCXLine, BeamEmissionLine, ExcitationLine, RecombinationLine

class BS(BeamStoppingRate):
    def __init__(s,k): s.k=k
    def evaluate(s,e,n,t): return s.k*1e-13*(1+1e-5*e)**0.1
class CX(BeamCXPEC):
    def __init__(s,m,k): super().__init__(m); s.k=k
    def evaluate(s,e,t,n,z,b): return s.k*1e-33*(1+1e-5*e)*(1+1e-3*t)
class BE(BeamEmissionPEC):
    def __init__(s,k): s.k=k
    def evaluate(s,e,n,t): return s.k*1e-34*(1+1e-5*e)
class AD(AtomicData):
    def __init__(s,k): s.k=k
    def wavelength(s,ion,ch,tr): return 656.1 if ion.atomic_number==1 else 529.0
    def beam_stopping_rate(s,b,p,c): return BS(s.k*(1+c))
    def beam_cx_pec(s,d,r,c,tr): return [CX(1,s.k)]
    def beam_emission_pec(s,b,p,c,tr): return BE(s.k)
    def beam_population_rate(s,*a): raise NotImplementedError
ADS={'A':AD(1.0),'B':AD(2.5)}
dens = 1e19*Exp3D(-Arg3D('x')*Arg3D('x'))
def mkplasma(parent, shift):
    p=Plasma(parent=parent, transform=translate(shift,0,0))
    p.electron_distribution=Maxwellian(dens,1e3,Vector3D(0,0,0),9.1e-31)
    p.composition=[Species(deuterium,1,Maxwellian(dens*0.9,1e3,Vector3D(0,0,0),2*1.66e-27)),Species(carbon,6,Maxwellian(dens*0.1/6,800.,Vector3D(0,0,0),12*1.66e-27))]
    p.b_field=Vector3D(0,0,1.)
    return p
DEFAULT=dict(energy=50000.,power=1e6,temperature=10.,element='D',divx=0.,divy=0.,length=3.,sigma=0.1,ad='A',plasma='P1',att=0,att_step=0.05,clamp_sigma=5.,models=('cx',),integ=0.05,btr=0.,bparent='world',mtr=0.,p1tr=0.)
VALS=dict(energy=[50000.,80000.],power=[1e6,2e6],temperature=[10.,50.],element=['D','H'],divx=[0.,2.],divy=[0.,3.],length=[3.,5.],sigma=[0.1,0.2],ad=['A','B'],plasma=['P1','P2'],att=[0,1],att_step=[0.05,0.02],clamp_sigma=[5.,2.],models=[('cx',),('cx','bes'),()],integ=[0.05,0.03],btr=[0.,1.5],bparent=['world','mount'],mtr=[0.,0.7],p1tr=[0.,-1.0])
EL={'D':deuterium,'H':hydrogen}
class Scene: pass
def mkmodels(names):
    out=[]
    for n in names:
        if n=='cx': out.append(BeamCXLine(Line(carbon,5,(8,7))))
        if n=='bes': out.append(BeamEmissionLine(Line(hydrogen,0,(3,2)))) 
    return out
def build(cfg):
    s=Scene(); s.world=World(); s.mount=Node(parent=s.world, transform=translate(cfg['mtr'],0,0))
    s.P={'P1':mkplasma(s.world,cfg['p1tr']),'P2':mkplasma(s.world,0.5)}
    b=Beam(parent=s.world if cfg['bparent']=='world' else s.mount, transform=translate(cfg['btr'],0,-1.5))
    b.plasma=s.P[cfg['plasma']]; b.atomic_data=ADS[cfg['ad']]
    b.energy=cfg['energy']; b.power=cfg['power']; b.temperature=cfg['temperature']; b.element=EL[cfg['element']]
    b.divergence_x=cfg['divx']; b.divergence_y=cfg['divy']; b.length=cfg['length']; b.sigma=cfg['sigma']
    s.atts=[SingleRayAttenuator(step=cfg['att_step'],clamp_to_zero=True,clamp_sigma=cfg['clamp_sigma']) for _ in range(2)]
    b.attenuator=s.atts[cfg['att']]
    b.integrator=NumericalIntegrator(step=cfg['integ'])
    b.models=mkmodels(cfg['models'])
    s.beam=b
    return s
def apply(s,cfg,slot,v):
    b=s.beam
    if slot in('energy','power','temperature','length','sigma'): setattr(b,slot,v)
    elif slot=='element': b.element=EL[v]
    elif slot=='divx': b.divergence_x=v
    elif slot=='divy': b.divergence_y=v
    elif slot=='ad': b.atomic_data=ADS[v]
    elif slot=='plasma': b.plasma=s.P[v]
    elif slot=='att':
        a=s.atts[v]; a.step=cfg['att_step']; a.clamp_sigma=cfg['clamp_sigma']; b.attenuator=a
    elif slot=='att_step': b.attenuator.step=v
    elif slot=='clamp_sigma': b.attenuator.clamp_sigma=v
    elif slot=='models': b.models=mkmodels(v)
    elif slot=='integ': b.integrator=NumericalIntegrator(step=v)
    elif slot=='btr': b.transform=translate(v,0,-1.5)
    elif slot=='bparent': b.parent=s.world if v=='world' else s.mount
    elif slot=='mtr': s.mount.transform=translate(v,0,0)
    elif slot=='p1tr': s.P['P1'].transform=translate(v,0,0)
    cfg[slot]=v
PTS=[(0,0,0.5),(0.05,0.02,1.5),(0,0,2.9),(0.3,0,1.0),(0,0,4.0),(0,0,-0.1),(0.15,0.1,4.5)]
RAYS=[(Point3D(-3,0.02,0.0),Vector3D(1,0,0)),(Point3D(-3,0.0,2.5),Vector3D(1,0,0)),(Point3D(0.3,-3,0.5),Vector3D(0,1,0)),(Point3D(1.5,0.35,-3),Vector3D(0,0,1))]
def observe(s):
    out=[]
    for p in PTS:
        try: out.append(s.beam.density(*p))
        except Exception as e: out.append('EXC:'+type(e).__name__)
    for p in PTS[:3]:
        d=s.beam.direction(*p); out+= [d.x,d.y,d.z]
    for o,d in RAYS:
        try:
            sp=Ray(origin=o,direction=d,min_wavelength=500,max_wavelength=700,bins=8).trace(s.world); out+=list(sp.samples)
        except Exception as e: out.append('EXC:'+type(e).__name__)
    return out
def same(a,b):
    if len(a)!=len(b): return False
    for x,y in zip(a,b):
        if isinstance(x,str) or isinstance(y,str):
            if x!=y: return False
        elif abs(x-y)>1e-9*max(abs(x),abs(y),1e-300): return False
    return True
t0=time.time(); n=0; bad={}
for slot,vals in VALS.items():
    for v in vals[1:]:
        for obs_first in (False,True):
            cfg=dict(DEFAULT); s=build(cfg)
            if obs_first: o0=observe(s)
            try: apply(s,cfg,slot,v); o1=observe(s)
            except Exception as e: o1=['EXC-op:'+type(e).__name__+str(e)[:60]]
            ref=observe(build(cfg)); n+=1
            if not same(o1,ref):
                idx=[i for i,(x,y) in enumerate(zip(o1,ref)) if not same([x],[y])]
                bad[(slot,v,obs_first)]=idx[:6] if len(o1)==len(ref) else o1
print(n,'histories',time.time()-t0,'s'); 
for k,v in bad.items(): print(k,v)
nz=sum(1 for x in observe(build(dict(DEFAULT))) if not isinstance(x,str) and x!=0); print('nonzero obs',nz)
