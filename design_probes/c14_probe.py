import numpy as np, itertools, math, time
from cherab.core.math import Caching1D, Caching2D
f=lambda x: math.sin(3*x)+0.5*x
def mk(**kw): return Caching1D(f,(0.,1.),0.25,**kw)
P=[0.,0.1,0.25,0.26,0.5,0.6,0.75,0.9,1.0,0.25-1e-9,0.25+1e-9, 1+4e-8, -4e-8]
fresh={}
for p in P:
    try: fresh[p]=mk()(p)
    except Exception as e: fresh[p]='EXC '+type(e).__name__
print(fresh)
bad=0;n=0;t=time.time()
for seq in itertools.product(P,repeat=3):
    c=mk()
    for p in seq:
        try: v=c(p)
        except Exception as e: v='EXC '+type(e).__name__
        n+=1
        if v!=fresh[p]: 
            bad+=1
            if bad<5: print(seq,p,v,fresh[p])
print(n,bad,time.time()-t)
# node exactness and outside
c=mk(); xs=np.linspace(-1e-7,1+1e-7,5); print([c(x)-f(x) for x in [0.25,0.5,0.75]])
for p in (-0.1,1.1, 1+2e-7):
    try: print(p, mk()(p))
    except Exception as e: print(p,'EXC',type(e).__name__)
print(mk(no_boundary_error=True)(1.5), f(1.5))
print(mk(function_boundaries=(-2,3))(0.6)-mk()(0.6))
