import numpy as np, tempfile, os, io
from cherab.core.atomic import carbon, hydrogen
from cherab.openadas.parse import parse_adf11, parse_adf21, parse_adf15, parse_adf12

def f105(vals, per=8):
    out=[]
    for i in range(0,len(vals),per):
        out.append(''.join('%10.5f'%v for v in vals[i:i+per]))
    return out

def write_adf11(path, Z, name, ne, te, blocks, trailer=True, resolved=False):
    L=[]
    L.append('%5d%5d%5d%5d%5d     /%-19s/%s'%(Z,len(ne),len(te),min(blocks),max(blocks),name.upper(),'GCR PROJECT        '))
    L.append('-'*80)
    if resolved:
        L.append(''.join('%5d'%1 for _ in range(Z+1))); L.append('-'*80)
    L+=f105(ne); L+=f105(te)
    truth={}
    for z1,tab in blocks.items():
        L.append('-'*20+'/ IPRT=%2d  / IGRD=%2d  /'%(1,1)+'-'*8+'/ Z1=%2d   / DATE= 13/10/99'%z1)
        for it in range(len(te)):
            L+=f105(tab[:,it])
    if trailer:
        L.append('C'+'-'*79); L.append('C'); L.append('C  some comment')
    open(path,'w').write('\n'.join(L)+'\n')

d=tempfile.mkdtemp()
def trial(nne,nte,te0,trailer=True,resolved=False):
    ne=np.round(np.linspace(7.7,15.3,nne),5); te=np.round(np.linspace(te0,4,nte),5)
    blocks={z:np.round(-20+np.arange(nne*nte).reshape(nne,nte)*0.01+z,5) for z in range(1,7)}
    p=os.path.join(d,'a.dat'); write_adf11(p,6,'carbon',ne,te,blocks,trailer,resolved)
    try:
        r=parse_adf11(carbon,p)
        ok=all(np.array_equal(r[carbon][z]['rates'],blocks[z]) and np.array_equal(r[carbon][z]['ne'],ne) and np.array_equal(r[carbon][z]['te'],te) for z in blocks if z in r[carbon])
        return ('ok' if ok else 'MISMATCH', sorted(r[carbon].keys()))
    except Exception as e:
        return ('EXC',type(e).__name__,str(e)[:80])
for args in [(24,30,-0.7),(9,5,-0.7),(8,5,-0.7),(8,5,0.1),(3,2,-0.7),(1,1,0.5),(24,30,-0.7,False),(24,30,-0.7,True,True),(5,3,-0.7,True,True)]:
    print(args, trial(*args))
