import numpy as np, itertools, time
from fractions import Fraction
from cherab.core.math import PolygonMask2D
def test(poly):
    try:
        m=PolygonMask2D(np.array(poly,float)); return [m(x,y) for x,y in [(0.5,0.5),(1.5,0.5),(1.5,1.5),(0.5,1.5),(2.5,2.5)]]
    except Exception as e: return 'EXC '+type(e).__name__+' '+str(e)[:80]
L=[(0,0),(2,0),(2,2),(1,1),(0,2)]   # concave (arrow)
print('ccw',test(L)); print('cw',test(L[::-1])); print('rot',test(L[2:]+L[:2]))
print('collinear',test([(0,0),(1,0),(2,0),(2,2),(0,2)]))
# count simple polygons on 3x3 lattice with 3..6 vertices up to rotation/reflection
pts=[(x,y) for x in range(3) for y in range(3)]
def orient(a,b,c): return (b[0]-a[0])*(c[1]-a[1])-(b[1]-a[1])*(c[0]-a[0])
def onseg(a,b,c): return min(a[0],b[0])<=c[0]<=max(a[0],b[0]) and min(a[1],b[1])<=c[1]<=max(a[1],b[1])
def inter(p1,p2,p3,p4):
    o1,o2,o3,o4=orient(p1,p2,p3),orient(p1,p2,p4),orient(p3,p4,p1),orient(p3,p4,p2)
    if (o1>0)!=(o2>0) and o1!=0 and o2!=0 and (o3>0)!=(o4>0) and o3!=0 and o4!=0: return True
    if o1==0 and onseg(p1,p2,p3): return True
    if o2==0 and onseg(p1,p2,p4): return True
    if o3==0 and onseg(p3,p4,p1): return True
    if o4==0 and onseg(p3,p4,p2): return True
    return False
def simple(P):
    n=len(P)
    for i in range(n):
        if orient(P[i-1],P[i],P[(i+1)%n])==0: return False  # no collinear consecutive
    for i in range(n):
        for j in range(i+1,n):
            if j==i or (j+1)%n==i or (i+1)%n==j: continue
            if inter(P[i],P[(i+1)%n],P[j],P[(j+1)%n]): return False
    return True
t=time.time(); tot=0
for n in (3,4,5,6):
    seen=set(); c=0
    for P in itertools.permutations(pts,n):
        if P[0]!=min(P): continue
        if P[1]>P[-1]: continue
        if simple(P): c+=1
    print(n,c); tot+=c
print(tot,time.time()-t)
