import numpy as np
from raysect.core.math.function.float import Interpolator2DArray, Interpolator1DArray
try:
    f=Interpolator2DArray(np.array([1.]),np.array([1.,2.]),np.array([[1.,2.]]),'cubic','none',np.inf,np.inf); print(f(1,1.5))
except Exception as e: print("1pt axis:",type(e).__name__, e)
try:
    f=Interpolator2DArray(np.array([1.,2.]),np.array([1.,2.]),np.array([[1.,2.],[3,4]]),'cubic','none',np.inf,np.inf); print("2pt ok", f(1,1.5), f(2,2))
except Exception as e: print("2pt axis:",type(e).__name__, e)
from raysect.core.math.cython import utility
print([n for n in dir(utility) if not n.startswith('__')])
from raysect.core.math import random as rr
print([n for n in dir(rr) if not n.startswith('__')])
rr.seed(5); a=[rr.uniform() for _ in range(3)]; rr.seed(5); b=[rr.uniform() for _ in range(3)]; print(a==b)
