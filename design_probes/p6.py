import os, tempfile, numpy as np, traceback
os.environ['HOME']=tempfile.mkdtemp()
def t(name,f):
    try: print(name,'->',f())
    except Exception as e: print(name,'-> EXC',type(e).__name__,str(e)[:120])
# C13 remainder
from cherab.core.math.transform import PeriodicTransform1D
got=[]
f=PeriodicTransform1D(lambda x: got.append(x) or x, 1.0)
for x in (-1e-20,-0.0,0.0,1.0,-1.0,2.5,-2.5,1e300): f(x)
print("periodic inner args",got)
# C18 ConstantSpectrum
from cherab.core.model.laser import ConstantSpectrum, GaussianSpectrum
bad=0
for lo,hi,b in [(1063.9,1064.1,1),(1060,1070,7),(1000.3,1000.9,3),(500.1,777.7,13),(0.1,0.3,3)]:
    s=ConstantSpectrum(lo,hi,b); p=np.array(s.power_spectral_density)*s.delta_wavelength
    print("const",lo,hi,b,p.sum())
g=GaussianSpectrum(1000,1100,10,1050,5); a=np.array(g.power_spectral_density).copy(); g.mean=1070; print("gauss mean setter refreshes:", not np.allclose(a,g.power_spectral_density)); print("get_max", g.get_max_wavelenth())
# C16
from cherab.tools.spectroscopy import CzernyTurnerSpectrometer
c=CzernyTurnerSpectrometer(1,2e-3,1e9,2e4,10.,[(600,10)])
t("czerny pipeline_classes",lambda: c.pipeline_classes)
t("czerny bins",lambda: (c.min_wavelength,c.max_wavelength,c.spectral_bins))
# C06
from cherab.openadas import repository, OpenADAS
from cherab.core.atomic import hydrogen, carbon, deuterium
rp=tempfile.mkdtemp()
rate={'ne':[1e18,1e19],'te':[1.,10.],'rates':[[1,2],[3,4.]]}
t("add_thermal_cx_rate", lambda: repository.add_thermal_cx_rate(hydrogen,0,carbon,dict(rate),rp))
t("add_ionisation_rate", lambda: repository.add_ionisation_rate(carbon,1,dict(rate),rp))
t("add_continuum", lambda: repository.add_continuum_power_rate(carbon,1,dict(rate),rp))
t("get_continuum", lambda: repository.get_continuum_radiated_power_rate(carbon,1,rp)['rate'])
t("get_line", lambda: repository.get_line_radiated_power_rate(carbon,1,rp)['rate'])
ad=OpenADAS(rp,missing_rates_return_null=True)
t("null beam cx", lambda: ad.beam_cx_pec(deuterium,carbon,6,(8,7)))
t("null recomb pec", lambda: ad.recombination_pec(carbon,1,(3,2)))
t("null excit pec", lambda: ad.impact_excitation_pec(carbon,1,(3,2)))
t("ion 1pt", lambda: (repository.add_ionisation_rate(carbon,2,{'ne':[1e18],'te':[1.,10.],'rates':[[1,2.]]},rp), ad.ionisation_rate(carbon,2)(1e18,1.)))
print("home listing", os.listdir(os.environ['HOME']))
# C11 nnls zero
from cherab.tools.inversions import invert_regularised_nnls
t("nnls b=0", lambda: invert_regularised_nnls(np.eye(2),np.zeros(2)))
