import numpy as np, time
from raysect.optical import World, Ray, Point3D, Vector3D, translate
from cherab.tools.raytransfer import RayTransferBox, RayTransferCylinder
w=World()
rt=RayTransferBox(3.,2.,1.,3,2,1,parent=w)
r=Ray(origin=Point3D(-1,0.5,0.5),direction=Vector3D(1,0.2,0.1).normalise(),min_wavelength=500,max_wavelength=501,bins=rt.bins)
t=time.time()
for i in range(1000): s=r.trace(w)
print("box trace us",(time.time()-t)*1e3, s.samples, s.samples.sum(), rt.step)
# along a cell border exactly
r=Ray(origin=Point3D(-1,1.0,0.5),direction=Vector3D(1,0,0),min_wavelength=500,max_wavelength=501,bins=rt.bins)
print("on border", r.trace(w).samples)
w2=World()
rc=RayTransferCylinder(2.,1.,2,1,radius_inner=1.,n_polar=4,period=90.,parent=w2)
for d in [(1,0,0),(1,1e-17,0),(1,-1e-17,0),(0,1,0),(-1,0,0),(0,-1,0)]:
    r=Ray(origin=Point3D(0,0,0.5),direction=Vector3D(*d).normalise(),min_wavelength=500,max_wavelength=501,bins=rc.bins)
    try: print(d, r.trace(w2).samples)
    except Exception as e: print(d,"EXC",type(e).__name__,e)
# observer subclass
from cherab.tools.observers import SightLineGroup
from raysect.optical.observer import SightLine
class SL(SightLine):
    n=0
    def observe(self): SL.n+=1
g=SightLineGroup(observers=[SL(),SL()]); g.observe(); print("observe count",SL.n)
