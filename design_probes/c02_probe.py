import numpy as np
from scipy.integrate import quad
from scipy.special import hyp2f1
from raysect.optical import Spectrum
from cherab.core.model.lineshape.stark import add_lorentzian_line
from cherab.core.model.lineshape.gaussian import add_gaussian_line
from cherab.core.math.integrators import GaussianQuadrature
def stark(x,x0,w):
    a=(0.5*w)**2.5; norm=(0.5*w)**1.5/(4*50*hyp2f1(0.4,1,1.4,-(2*50)**2.5))
    return norm/(abs(x-x0)**2.5+a)
w=0.3; x0=500.
I=quad(stark,x0-50*w,x0+50*w,args=(x0,w),points=[x0],limit=400)[0]; print("ref integral over cutoff",I)
for (lo,hi,b) in [(x0-60*w,x0+60*w,240),(x0-60*w,x0+60*w,7),(x0-0.1,x0+5,16),(x0+51*w,x0+60*w,4),(x0-50*w,x0+50*w,1)]:
    s=Spectrum(lo,hi,b); add_lorentzian_line(1.0,x0,w,s,GaussianQuadrature())
    got=s.samples.sum()*s.delta_wavelength
    a=max(lo,x0-50*w); c=min(hi,x0+50*w)
    ref=quad(stark,a,c,args=(x0,w),points=[x0] if a<x0<c else None,limit=400)[0] if c>a else 0.
    print((lo,hi,b),got,ref,abs(got-ref)/max(ref,1e-300))
s=Spectrum(499,501,3); add_gaussian_line(2.0,500.,0.05,s); print(s.samples.sum()*s.delta_wavelength)
