"""C15 - observer groups broadcast settings faithfully and keep members consistent (engine H).

Closed system: ONE group object (of each of the seven group classes) whose members are thin Python
subclasses of the real observer types with a counting ``observe()``.  All short sequences of
add / assign / rename / replace-member-list operations are replayed on a fresh live group and, in
lock-step, on the list-of-dicts reference model of mc/refs/groups.py; after EVERY operation the
complete observable state of the live group (member list, parents, every member's own attributes,
every group getter, index/slice/name look-ups, observe counters) is compared with the model.  Every
history is executed a second time without the intermediate observations (only the final one), and
the final group is compared with a group freshly built from the model state (differential oracle).
"""
import itertools
import os

from mc.refs import groups as G

PROPERTY = "C15"
DRIVER = ("one observer group per class in {SightLineGroup, FibreOpticGroup, PixelGroup, TargettedPixelGroup, "
          "SpectroscopicSightLineGroup, SpectroscopicFibreOpticGroup, BolometerCamera}; members = counting subclasses of the "
          "real observers; drivers: I (introspection of the property table vs hand list), M (membership/rename/look-up "
          "alphabet), A (one attribute: all value kinds + add/reorder/drop), P (two attributes: cross-talk)")
ALPHABET = {
    "classes": G.CLASS_ORDER,
    "attributes": {c: G.CLASSES[c]["attrs"] for c in G.CLASS_ORDER},
    "value kinds": {"a": "scalar (pool[0])", "b": "another scalar (pool[1])", "list": "list of group length, distinct values",
                    "tuple": "tuple of group length, other distinct values", "nd": "numpy array of group length (only attributes whose setter names ndarray)",
                    "list+1": "list one too long", "list-1": "list one too short", "empty": "[] (wrong length unless the group is empty)",
                    "nd+1": "numpy array one too long"},
    "membership ops": ["add_observer/add_foil_detector(new member)", "add_sight_line (spectroscopic alias)",
                       "add of a wrong-typed observer / a bare Node / a non-node object",
                       "observers|foil_detectors = reversed list | rotated tuple | all but last | [new, first] | [] | current+[wrong-typed]",
                       "sight_lines = reversed list (spectroscopic alias)",
                       "names = fresh list | fresh tuple | reversed current | all 'dup' | one too long | one too short",
                       "group[0].name = 'dup', group[-1].name = fresh | 'dup'",
                       "group[0].<attr> = value (member-level assignment, driver A)"],
    "observation (after every op)": ["member list", "len", "parent/children", "every attribute of every member (and of ex-members)",
                                     "every group getter", "group[i] for -n<=i<n and i in {n,-n-1}", "group[slice] for 7 slices",
                                     "group[name] for every present name and an absent one", "observe() counters"],
}
BOUND = {
    "quick": "group size 0..3; M: all sequences of <=2 ops of the full membership alphabet + all length-3 sequences of the core alphabet; "
             "A: all sequences of <=2 ops per (class, attribute); P: all sequences of <=2 ops per (class, attribute pair) at size 2; "
             "each history with observation after every op and with a final observation only",
    "thorough": "group size 0..4; M: all sequences of <=3 ops of the full alphabet + all length-4 sequences of the core alphabet; "
                "A: all sequences of <=3 ops per (class, attribute); P: all sequences of <=3 ops per (class, attribute pair) at size 2 and of <=2 ops at size 3; "
                "each history with observation after every op and with a final observation only",
}
RULE = ("a case batches all histories of one (driver, class, attribute(s), start size[, first op]); a history is non-trivial if at "
        "least one of its operations changed the reference-model state or exercised a rejection (wrong length / wrong type); "
        "distinct key = (driver, class, start size, operation sequence)")
ASSUMPTIONS = [
    "member observers (raysect SightLine/FibreOptic/Pixel/TargettedPixel, cherab SpectroscopicSightLine/SpectroscopicFibreOptic/BolometerFoil) "
    "store and return the values assigned to them directly (they are the measuring instrument for the group)",
    "observe() of the members is replaced by a counter: 'observes every member once' is decided on the dispatch, not on ray tracing",
    "BolometerCamera members are BolometerFoil objects (BolometerIRVB not built); BolometerCamera documents look-up by int or str only, "
    "so the slice look-up of the property statement is asserted for the Observer0DGroup classes only",
    "duplicate-name look-up is unspecified by the property: only 'if something is returned it bears that name' is asserted",
    "value pools are valid for every member in every state (no member-level validation error is provoked on purpose)",
]
# caps, not targets: ~150 CPU-s (quick) / ~3600 CPU-s (thorough) of work; generous so that a machine shared with other checks does not truncate the space
BUDGET_S = {"quick": 600, "thorough": 3600}
STATES_MEANING = "distinct reference-model states (member list with all attribute values) reached"

SIZES = {"quick": [0, 1, 2, 3], "thorough": [0, 1, 2, 3, 4]}
SLICES = [(None, None, None), (1, None, None), (None, -1, None), (None, None, 2), (None, None, -1), (0, 0, None), (1, 3, None)]


def _required():
    req = ["drv:I", "drv:M", "drv:A", "drv:P", "expect:ok", "expect:ValueError", "expect:reject", "expect:n/a",
           "lookup:index", "lookup:out-of-range", "lookup:slice", "lookup:unique-name", "lookup:dup-name", "lookup:absent-name",
           "observe", "fresh-diff", "op:member-level-assignment", "final-only-run", "column:non-uniform", "size:0", "size:1", "size:2", "size:3"]
    for c in G.CLASS_ORDER:
        req.append("class:" + c)
        for a in G.CLASSES[c]["attrs"]:
            req.append("attr:%s.%s" % (c, a))
    req += ["kind:" + k for k in G.SET_KINDS]
    for c in ("SightLineGroup", "SpectroscopicFibreOpticGroup", "BolometerCamera"):
        for op in G.membership_alphabet(c, True):
            lab = "op:" + G.op_label(op, c, 1)
            if not op[0] == "set" and lab not in req:
                req.append(lab)
    return req


REQUIRED_CLASSES = _required()


# =============================================================================================
# cases
# =============================================================================================
def cases(tier):
    out = []
    thorough = tier == "thorough"
    sizes = SIZES[tier]
    for c in G.CLASS_ORDER:
        out.append({"drv": "I", "cls": c, "label": "I:%s" % c})
    # M: membership
    for c in G.CLASS_ORDER:
        full, core = G.membership_alphabet(c, True), G.membership_alphabet(c, False)
        for n in sizes:
            if not thorough:
                out.append({"drv": "M", "cls": c, "size": n, "alphabet": full, "min": 0, "max": 2, "label": "M:%s" % c})
                out.append({"drv": "M", "cls": c, "size": n, "alphabet": core, "min": 3, "max": 3, "label": "M:%s" % c})
            else:
                for f in range(len(full)):
                    out.append({"drv": "M", "cls": c, "size": n, "alphabet": full, "min": 0 if f == 0 else 1, "max": 3, "first": f, "label": "M:%s" % c})
                for f in range(len(core)):
                    out.append({"drv": "M", "cls": c, "size": n, "alphabet": core, "min": 4, "max": 4, "first": f, "label": "M:%s" % c})
    # A: one attribute
    for c in G.CLASS_ORDER:
        for a in G.CLASSES[c]["attrs"]:
            for n in sizes:
                out.append({"drv": "A", "cls": c, "attrs": [a], "size": n, "alphabet": G.attribute_alphabet(a), "min": 0,
                            "max": 3 if thorough else 2, "label": "A:%s.%s" % (c, a)})
    # P: pairs of attributes
    for c in G.CLASS_ORDER:
        for a1, a2 in itertools.combinations(G.CLASSES[c]["attrs"], 2):
            for n, mx in ([(2, 3), (3, 2)] if thorough else [(2, 2)]):
                out.append({"drv": "P", "cls": c, "attrs": [a1, a2], "size": n, "alphabet": G.pair_alphabet(a1, a2), "min": 0,
                            "max": mx, "label": "P:%s.%s+%s" % (c, a1, a2)})
    return out


def _histories(case):
    alpha = case["alphabet"]
    k = len(alpha)
    first = case.get("first")
    for L in range(case["min"], case["max"] + 1):
        if L == 0:
            yield ()
        elif first is None:
            for seq in itertools.product(range(k), repeat=L):
                yield seq
        else:
            for seq in itertools.product(range(k), repeat=L - 1):
                yield (first,) + seq


# =============================================================================================
# worker globals: real classes, counting member subclasses, shared immutable objects
# =============================================================================================
_W = {}


def setup_worker(tier):
    if _W:
        return
    os.environ.setdefault("MPLBACKEND", "Agg")
    import numpy as np
    from raysect.core import Node, Point3D, Vector3D
    from raysect.core.workflow import SerialEngine
    from raysect.primitive import Sphere
    from raysect.optical.observer import (SightLine, FibreOptic, Pixel, TargettedPixel, SpectralRadiancePipeline0D,
                                          SpectralPowerPipeline0D, RadiancePipeline0D, PowerPipeline0D)
    import cherab.tools.observers as obs
    from cherab.tools.observers import (SpectroscopicSightLine, SpectroscopicFibreOptic, BolometerFoil, BolometerSlit, BolometerCamera)

    def counting(T):
        class Counting(T):
            count = 0

            def observe(self):
                self.count = self.count + 1
        Counting.__name__ = "Counting" + T.__name__
        return Counting

    types = {"SightLine": SightLine, "FibreOptic": FibreOptic, "Pixel": Pixel, "TargettedPixel": TargettedPixel,
             "SpectroscopicSightLine": SpectroscopicSightLine, "SpectroscopicFibreOptic": SpectroscopicFibreOptic,
             "BolometerFoil": BolometerFoil}
    _W.update(np=np, Node=Node, Point3D=Point3D, Vector3D=Vector3D, Sphere=Sphere,
              SpecRad=SpectralRadiancePipeline0D, SpecPow=SpectralPowerPipeline0D, Rad=RadiancePipeline0D, Pow=PowerPipeline0D,
              BolometerSlit=BolometerSlit,
              member={k: counting(v) for k, v in types.items()},
              group={c: getattr(obs, c) for c in G.CLASS_ORDER},
              engines={lab: SerialEngine() for lab in G.ATTR["render_engine"]["pool"]},
              targets={"tgt%d" % i: Sphere(0.1 + 0.01 * i) for i in range(G.N_TARGETS)},
              fresh_cache={},
              atab={c: [(a, G.ATTR[a]["type"], G.ATTR[a]["type"] in ("int", "float", "bool")) for a in G.CLASSES[c]["attrs"]] for c in G.CLASS_ORDER})
    _W["shared_ids"] = {id(o): lab for d in (_W["engines"], _W["targets"]) for lab, o in d.items()}


class Objs:
    """label <-> real object registry of one history (pipelines are per history, engines/targets per worker)."""

    def __init__(self, model):
        self.model = model
        self.pipe = {}
        self.ids = {}

    def get(self, lab):
        o = _W["engines"].get(lab) or _W["targets"].get(lab)
        if o is not None:
            return o
        o = self.pipe.get(lab)
        if o is None:
            d = self.model.pipes[lab]
            idx = int(lab[2:])
            if d["spectral"]:
                o = (_W["SpecRad"] if idx % 2 == 0 else _W["SpecPow"])(accumulate=d["accumulate"], display_progress=d["display_progress"])
            else:
                o = (_W["Rad"] if idx % 2 == 0 else _W["Pow"])(accumulate=d["accumulate"])
            self.pipe[lab] = o
            self.ids[id(o)] = lab
        return o

    def label(self, o):
        lab = self.ids.get(id(o))
        if lab is None:
            lab = _W["shared_ids"].get(id(o))
        return lab if lab is not None else "unknown:" + type(o).__name__


def _real(objs, typ, v, seq_of=list):
    if typ == "engine":
        return objs.get(v)
    if typ in ("pipelines", "targets"):
        return seq_of(objs.get(x) for x in v)
    if typ == "point":
        return _W["Point3D"](*v)
    if typ == "vector":
        return _W["Vector3D"](*v)
    return v


def _plain(objs, typ, v):
    if typ == "engine":
        return objs.label(v)
    if typ in ("pipelines", "targets"):
        return tuple(objs.label(x) for x in v)
    if typ in ("point", "vector"):
        return (v.x, v.y, v.z)
    if typ == "pflag":
        return list(v)
    return v


def _eq(typ, a, b):
    if typ in ("point", "vector"):
        # orthonormalisation in rotate_basis may round in the last place; the pools are axis aligned / short decimals
        try:
            return len(a) == 3 and all(abs(x - y) <= 1e-12 for x, y in zip(a, b))
        except TypeError:
            return False
    if typ in ("int", "float", "bool"):
        try:
            return bool(a == b) and not isinstance(a, (list, tuple))
        except Exception:
            return False
    return a == b


def _member_plain(objs, lm, attr, typ):
    if typ == "pflag":
        # read the flag on the pipeline objects themselves (None where the pipeline has no such flag)
        return [getattr(p, attr, None) for p in lm.pipelines]
    return _plain(objs, typ, getattr(lm, attr))


def _make_member(cls, model, objs, m, slits):
    spec = G.CLASSES[cls]
    T = _W["member"][spec["member"]]
    P3, V3 = _W["Point3D"], _W["Vector3D"]
    if spec["member"] == "BolometerFoil":
        lm = T(m["name"], P3(0.001 * m["id"], 0, -0.05), V3(1, 0, 0), 0.002, V3(0, 1, 0), 0.004, slits[m["id"] % 2])
        return lm
    pipes = [objs.get(x) for x in m["pipelines"]]
    if spec["member"] == "TargettedPixel":
        lm = T([objs.get(x) for x in m["targets"]], pipelines=pipes, name=m["name"], render_engine=objs.get(m["render_engine"]))
    elif spec["member"].startswith("Spectroscopic"):
        lm = T(pipelines=pipes, name=m["name"])
    else:
        lm = T(pipelines=pipes, name=m["name"], render_engine=objs.get(m["render_engine"]))
    for a in model.attrs:
        typ = G.ATTR[a]["type"]
        if typ in ("pipelines", "targets"):
            continue
        setattr(lm, a, _real(objs, typ, m[a]))
    return lm


class Abort(Exception):
    pass



def _scribble(container):
    """Modify the caller's container in place after it has been assigned (lists and ndarrays only): duplicate the
    first element at the end and drop the original first element, so that both length and order change."""
    np = _W.get("np")
    if isinstance(container, list):
        if container:
            container.append(container[0])
            del container[0]
            container.append(container[0])
        else:
            container.append(None)
    elif np is not None and isinstance(container, np.ndarray) and container.size:
        try:
            container[...] = container[::-1].copy() * 3 + 1
        except Exception:  # noqa - object arrays etc.
            pass


class Run:
    """One history on one live group."""

    def __init__(self, case, R):
        self.case, self.R = case, R
        self.cls = case["cls"]
        self.spec = G.CLASSES[self.cls]
        self.model = G.Model(self.cls)
        self.objs = Objs(self.model)
        self.byid = {}
        self.wrongs = []
        self.slits = None
        self.camera = self.cls == "BolometerCamera"
        if self.camera:
            P3, V3 = _W["Point3D"], _W["Vector3D"]
            self.slits = [_W["BolometerSlit"]("slit%d" % i, P3(0.01 * i, 0, 0), V3(1, 0, 0), 0.005, V3(0, 1, 0), 0.005) for i in range(2)]
        self.viol_here = 0

    # ------------------------------------------------------------------------------------------
    def V(self, tail, what, expected, observed, hist):
        sig = "C15:%s:%s" % (self.cls, tail)
        self.viol_here += 1
        if sig not in self.R["viol"]:
            self.R["viol"][sig] = {"sig": sig, "what": "%s | %s start size %d, history %s" % (what, self.cls, self.case["size"], hist),
                                   "expected": expected, "observed": observed}

    def live_member(self, m):
        lm = self.byid.get(m["id"])
        if lm is None:
            lm = _make_member(self.cls, self.model, self.objs, m, self.slits)
            self.byid[m["id"]] = lm
        return lm

    def build(self, size):
        ms = [self.model.new_member() for _ in range(size)]
        self.model.members = list(ms)
        Gc = _W["group"][self.cls]
        if self.camera:
            self.group = Gc(name="grp")
            for m in ms:
                self.group.add_foil_detector(self.live_member(m))
        else:
            self.group = Gc(name="grp", observers=[self.live_member(m) for m in ms])

    # ------------------------------------------------------------------------------------------
    # (see _scribble below: after an accepted assignment the caller's own container is modified in place; the group
    # must not be affected - it may not keep a reference to a mutable argument)
    def perform(self, op, plan):
        """Execute `op` on the live group; returns None or the exception."""
        g, spec, objs = self.group, self.spec, self.objs
        kind = op[0]
        try:
            if kind == "set":
                attr = plan["attr"]
                typ = G.ATTR[attr]["type"]
                if plan["scalar"]:
                    val = _real(objs, typ, plan["value"])
                else:
                    cont = plan["container"]
                    inner = tuple if cont == "tuple" else list
                    vals = [_real(objs, typ, v, inner) for v in plan["value"]]
                    val = _W["np"].array(vals) if cont == "nd" else (tuple(vals) if cont == "tuple" else vals)
                setattr(g, attr, val)
                _scribble(val)
            elif kind in ("add", "add_alias"):
                lm = self.live_member(plan["new"][0])
                getattr(g, spec["add"] if kind == "add" else spec["alias"][1])(lm)
            elif kind == "add_wrong":
                getattr(g, spec["add"])(self.wrong(plan["wrong"]))
            elif kind in ("obs", "obs_alias"):
                lst = [self.wrong("observer") if i == "WRONG" else self.live_member(self.member_by_id(i)) for i in plan["members"]]
                if plan["container"] == "tuple":
                    lst = tuple(lst)
                setattr(g, spec["members_attr"] if kind == "obs" else spec["alias"][0], lst)
                _scribble(lst)
            elif kind == "names":
                v = plan["value"]
                v = tuple(v) if plan["container"] == "tuple" else list(v)
                g.names = v
                _scribble(v)
            elif kind == "rename":
                g[plan["index"]].name = plan["value"]
            elif kind == "mset":
                setattr(g[0], plan["attr"], _real(objs, G.ATTR[plan["attr"]]["type"], plan["value"]))
            else:
                raise RuntimeError("unknown op %r" % (op,))
        except Exception as e:  # noqa
            return e
        return None

    def member_by_id(self, i):
        return self.model.everyone[i]

    def wrong(self, which):
        if which == "observer":
            name = self.spec["wrong"]
            T = _W["member"][name]
            if name == "TargettedPixel":
                w = T([_W["targets"]["tgt0"]], name="wrong")
            else:
                w = T(name="wrong")
            self.wrongs.append(w)
            return w
        if which == "node":
            w = _W["Node"](name="wrong-node")
            self.wrongs.append(w)
            return w
        return object()

    # ------------------------------------------------------------------------------------------
    def check(self, label, hist):
        """Full observation of the live group against the model.  Returns True when the member-level
        state has diverged (the history is abandoned: later observations would only repeat it)."""
        R, g, model, objs, spec = self.R, self.group, self.model, self.objs, self.spec
        cl = R["classes"]
        exp = [self.byid[m["id"]] for m in model.members]
        n = len(exp)
        cl["size:%d" % n] = cl.get("size:%d" % n, 0) + 1
        # 1. member list ---------------------------------------------------------------------
        try:
            got = list(getattr(g, spec["members_attr"]))
        except Exception as e:  # noqa
            self.V("%s:membership" % label, "reading the member list raised", "members %s" % [m["id"] for m in model.members], type(e).__name__, hist)
            return True
        if len(got) != n or any(a is not b for a, b in zip(got, exp)):
            ids = {id(v): k for k, v in self.byid.items()}
            self.V("%s:membership" % label, "member list after the operation differs from the model", [m["id"] for m in model.members],
                   [ids.get(id(x), "foreign:" + type(x).__name__) for x in got], hist)
            return True
        try:
            ln = len(g)
        except Exception as e:  # noqa
            ln = type(e).__name__
        if ln != n:
            self.V("len:mismatch", "len(group)", n, ln, hist)
        if self.camera:
            it = list(iter(g))
            if len(it) != n or any(a is not b for a, b in zip(it, exp)):
                self.V("iter:mismatch", "iteration over the camera does not give the members in order", n, len(it), hist)
        if "alias" in spec:
            al = list(getattr(g, spec["alias"][0]))
            if len(al) != n or any(a is not b for a, b in zip(al, exp)):
                self.V("%s:getter-mismatch" % spec["alias"][0], "alias of the member list differs from the members", n, len(al), hist)
        # 2. scene graph ---------------------------------------------------------------------
        ch = g.children
        for m, lm in zip(model.members, exp):
            if lm.parent is not g or not any(c is lm for c in ch):
                self.V("%s:parent-not-group" % label, "a member's scene-graph parent is not the group", "parent is group", "member %d: parent %s" % (m["id"], type(lm.parent).__name__), hist)
                return True
        for w in self.wrongs:
            if w.parent is g:
                self.V("%s:rejected-object-parented" % label, "a rejected wrong-typed object became a child of the group", "parent None", "parent is group", hist)
                break
        # 3. every member's own attributes (ex-members included: nothing may touch them) ------------
        bad = {}
        atab = _W["atab"][self.cls]
        byid = self.byid
        for m in model.everyone:
            lm = byid.get(m["id"])
            if lm is None:
                continue
            if lm.name != m["name"]:
                bad.setdefault("name", (m["id"], m["name"], lm.name))
            for a, typ, simple in atab:
                if simple:
                    want = m[a]
                    have = getattr(lm, a)
                    if have != want or have.__class__ is list or have.__class__ is tuple:
                        bad.setdefault(a, (m["id"], want, have))
                    continue
                want = model.member_value(m, a)
                have = _member_plain(objs, lm, a, typ)
                if not _eq(typ, have, want):
                    bad.setdefault(a, (m["id"], want, have))
        if bad:
            for a in sorted(bad):
                i, want, have = bad[a]
                self.V("%s:member.%s" % (label, a), "after the operation member %d has a different %s than the model" % (i, a), want, have, hist)
            return True
        # 4. group getters ---------------------------------------------------------------------
        nonuni = 0
        for a, typ, simple in atab:
            want = model.column(a)
            try:
                have = getattr(g, a)
                have = list(have) if simple else [_plain(objs, typ, v) for v in have]
            except Exception as e:  # noqa
                self.V("%s:getter-raises:%s" % (a, type(e).__name__), "reading group.%s raised" % a, want, type(e).__name__, hist)
                continue
            if simple:
                ok = have == want and not any(x.__class__ is list or x.__class__ is tuple for x in have)
            else:
                ok = len(have) == len(want) and all(_eq(typ, x, y) for x, y in zip(have, want))
            if not ok:
                self.V("%s:getter-mismatch" % a, "group.%s does not return the members' values in member order" % a, want, have, hist)
            if n >= 2 and want.count(want[0]) != n:
                nonuni += 1
        if nonuni:
            cl["column:non-uniform"] = cl.get("column:non-uniform", 0) + nonuni
        if "names" in spec["structural"]:
            want = model.names()
            try:
                have = list(g.names)
            except Exception as e:  # noqa
                have = type(e).__name__
            if have != want:
                self.V("names:getter-mismatch", "group.names does not return the members' names in member order", want, have, hist)
        # 5. look-ups ------------------------------------------------------------------------
        for i in range(-n, n):
            try:
                r = g[i]
            except Exception as e:  # noqa
                r = e
            cl["lookup:index"] = cl.get("lookup:index", 0) + 1
            if r is not exp[i]:
                self.V("getitem:index-mismatch", "group[i] is not the i-th member", "member %d" % model.members[i]["id"], type(r).__name__, hist)
                break
        for i in (n, -n - 1):
            cl["lookup:out-of-range"] = cl.get("lookup:out-of-range", 0) + 1
            try:
                r = g[i]
                self.V("getitem:out-of-range-accepted", "group[i] with i out of range returned something", "IndexError", type(r).__name__, hist)
            except Exception:  # noqa
                pass
        for s in SLICES:
            sl = slice(*s)
            try:
                r = g[sl]
            except Exception as e:  # noqa
                r = e
            if self.camera and isinstance(r, TypeError):
                cl["lookup:slice:camera-documents-int-or-str"] = cl.get("lookup:slice:camera-documents-int-or-str", 0) + 1
                continue
            cl["lookup:slice"] = cl.get("lookup:slice", 0) + 1
            want = exp[sl]
            if isinstance(r, Exception) or len(r) != len(want) or any(a is not b for a, b in zip(r, want)):
                self.V("getitem:slice-mismatch", "group[slice] is not the corresponding slice of the member list", "members %s" % [m["id"] for m in model.members[sl]],
                       type(r).__name__ if isinstance(r, Exception) else "%d objects" % len(r), hist)
                break
        names = model.names()
        for nm in sorted(set(names)):
            cnt = names.count(nm)
            try:
                r = g[nm]
            except Exception as e:  # noqa
                r = e
            if cnt == 1:
                cl["lookup:unique-name"] = cl.get("lookup:unique-name", 0) + 1
                if r is not exp[names.index(nm)]:
                    self.V("getitem:name-mismatch", "group[name] with a unique name is not that member", "member %d" % model.members[names.index(nm)]["id"], type(r).__name__, hist)
                    break
            else:
                cl["lookup:dup-name"] = cl.get("lookup:dup-name", 0) + 1
                if not isinstance(r, Exception) and not (any(r is x for x in exp) and r.name == nm):
                    self.V("getitem:dup-name-returns-other", "group[name] with a duplicated name returned an object that does not bear the name", "a member named so, or an error", type(r).__name__, hist)
                    break
        cl["lookup:absent-name"] = cl.get("lookup:absent-name", 0) + 1
        try:
            r = g["no-such-name"]
            self.V("getitem:absent-name-returned", "group[name] with an absent name returned something", "an error", type(r).__name__, hist)
        except Exception:  # noqa
            pass
        # 6. observe -------------------------------------------------------------------------
        everyone = [self.byid[m["id"]] for m in model.everyone if m["id"] in self.byid]
        others = [w for w in self.wrongs if hasattr(w, "count")]
        before = [x.count for x in everyone + others]
        try:
            ret = g.observe()
        except Exception as e:  # noqa
            self.V("observe:raises:%s" % type(e).__name__, "group.observe() raised", "every member observed once", type(e).__name__, hist)
            ret = None
        else:
            after = [x.count for x in everyone + others]
            want = [1 if any(x is y for y in exp) else 0 for x in everyone + others]
            have = [b - a for a, b in zip(before, after)]
            cl["observe"] = cl.get("observe", 0) + 1
            if have != want:
                self.V("observe:count-mismatch", "observe() did not observe every member exactly once (and nothing else)", want, have, hist)
            if self.camera and (not isinstance(ret, list) or len(ret) != n):
                self.V("observe:return-length", "BolometerCamera.observe() must return one value per foil", n, type(ret).__name__, hist)
        return False

    # ------------------------------------------------------------------------------------------
    def dump(self, g, objs):
        d = {"len": len(g)}
        for a in self.spec["attrs"]:
            typ = G.ATTR[a]["type"]
            try:
                d[a] = [_plain(objs, typ, v) for v in getattr(g, a)]
            except Exception as e:  # noqa
                d[a] = "EXC:" + type(e).__name__
        mem = list(getattr(g, self.spec["members_attr"]))
        d["member-names"] = [x.name for x in mem]
        d["parents"] = [x.parent is g for x in mem]
        return d

    def fresh_diff(self, hist):
        """Differential oracle: the live group must be indistinguishable (through its getters) from a
        group freshly built, member by member, from the model state."""
        model = self.model
        key = model.state()
        cache = _W["fresh_cache"]
        ref = cache.get(key)
        if ref is None:
            fobjs = Objs(model)
            Gc = _W["group"][self.cls]
            fg = Gc(name="fresh")
            for m in model.members:
                getattr(fg, self.spec["add"])(_make_member(self.cls, model, fobjs, m, self.slits))
            ref = self.dump(fg, fobjs)
            if len(cache) < 100000:
                cache[key] = ref
        cur = self.dump(self.group, self.objs)
        self.R["classes"]["fresh-diff"] = self.R["classes"].get("fresh-diff", 0) + 1
        for k in sorted(ref):
            a, b = cur[k], ref[k]
            typ = G.ATTR[k]["type"] if k in G.ATTR else None
            same = (isinstance(a, list) and isinstance(b, list) and len(a) == len(b) and all(_eq(typ, x, y) for x, y in zip(a, b))) if typ in ("point", "vector") else (a == b)
            if not same:
                self.V("fresh-build:%s-differs" % k, "live group differs from a group freshly built from the model state", b, a, hist)

    # ------------------------------------------------------------------------------------------
    def run(self, seq, observe_all):
        R, case, cls, model = self.R, self.case, self.cls, self.model
        alpha = case["alphabet"]
        cl = R["classes"]
        hist = []
        self.build(case["size"])
        R["states"].add(hash(model.state()))
        nontrivial = False
        try:
            if observe_all and self.check("init", hist):
                raise Abort()
            for oi in seq:
                op = alpha[oi]
                n = len(model.members)
                before = model.state()
                plan = model.apply(op)
                label = G.op_label(op, cls, n)
                hist.append(label)
                exp = plan["expect"]
                if observe_all:
                    cl["expect:" + exp] = cl.get("expect:" + exp, 0) + 1
                    if op[0] == "set":
                        cl["kind:" + op[2]] = cl.get("kind:" + op[2], 0) + 1
                        k = "attr:%s.%s" % (cls, op[1])
                        cl[k] = cl.get(k, 0) + 1
                    elif op[0] == "mset":
                        cl["op:member-level-assignment"] = cl.get("op:member-level-assignment", 0) + 1
                    else:
                        cl["op:" + label] = cl.get("op:" + label, 0) + 1
                if exp == "n/a":
                    continue
                err = self.perform(op, plan)
                R["transitions"] += 1
                after = model.state()
                R["states"].add(hash(after))
                if after != before or exp != "ok":
                    nontrivial = True
                en = type(err).__name__ if err is not None else None
                if op[0] == "set" and isinstance(err, AttributeError):
                    prop = getattr(_W["group"][cls], op[1], None)
                    if isinstance(prop, property) and prop.fset is None:
                        self.V("%s:no-setter" % op[1], "group.%s cannot be assigned: the property has no setter" % op[1], "assignment is broadcast to the members", "AttributeError: " + str(err), hist)
                        raise Abort()
                if exp == "ok" and err is not None:
                    self.V("%s:raises:%s" % (label, en), "a valid operation raised", "accepted", "%s: %s" % (en, str(err)[:120]), hist)
                    raise Abort()
                if exp == "ValueError":
                    if err is None:
                        self.V("%s:wrong-length-accepted" % label, "a sequence of the wrong length was accepted", "ValueError", "no exception", hist)
                        raise Abort()
                    if not isinstance(err, ValueError):
                        self.V("%s:wrong-length-raises:%s" % (label, en), "a sequence of the wrong length must raise ValueError", "ValueError", en, hist)
                if exp == "reject" and err is None:
                    self.V("%s:accepted" % label, "an object/value of the wrong type was accepted", "an exception", "no exception", hist)
                    raise Abort()
                if observe_all and self.check(label, hist):
                    raise Abort()
            if observe_all:
                self.fresh_diff(hist)
            else:
                self.check("final", hist)
        except Abort:
            cl["aborted-after-divergence"] = cl.get("aborted-after-divergence", 0) + 1
        return nontrivial


# =============================================================================================
# driver I: introspection of the property table against the hand list
# =============================================================================================
def _introspect(case, R):
    cls = case["cls"]
    spec = G.CLASSES[cls]
    Gc = _W["group"][cls]
    Node = _W["Node"]
    props = {}
    for k in Gc.__mro__:
        if k is Node:
            break
        for n, v in vars(k).items():
            if isinstance(v, property) and n not in props:
                props[n] = v
    settable = sorted(n for n, v in props.items() if v.fset is not None)
    hand = sorted(spec["attrs"] + spec["structural"])
    unknown = [n for n in props if n not in hand and n not in spec.get("readonly", [])]
    if unknown:
        return {"harness_error": "class %s has properties the hand list of mc/refs/groups.py does not know: %s - extend the check" % (cls, unknown)}
    for n in hand:
        R["n"] += 1
        if n not in props:
            R["viol"]["C15:%s:%s:no-property" % (cls, n)] = {"sig": "C15:%s:%s:no-property" % (cls, n), "what": "documented group attribute is not a property of the class",
                                                           "expected": "property with getter and setter", "observed": "absent"}
        elif props[n].fset is None:
            sig = "C15:%s:%s:no-setter" % (cls, n)
            R["viol"][sig] = {"sig": sig, "what": "group.%s cannot be assigned: the property has no setter (introspection of %s)" % (n, cls),
                              "expected": "property with getter and setter", "observed": "fset is None; settable properties: %s" % settable}
    R["classes"]["drv:I"] = 1
    R["classes"]["class:" + cls] = 1
    R["nontrivial"].add(("I", cls))
    R["states"].add(hash(("I", cls)))
    return None


# =============================================================================================
def run_case(case):
    setup_worker(None)
    R = {"viol": {}, "classes": {}, "states": set(), "transitions": 0, "nontrivial": set(), "n": 0}
    if case["drv"] == "I":
        he = _introspect(case, R)
        if he:
            return he
        return {"viol": list(R["viol"].values()), "classes": R["classes"], "outcome": ("I", case["cls"], sorted(R["viol"])), "n": R["n"],
                "states": R["states"], "transitions": 0, "nontrivial": R["nontrivial"]}
    cl = R["classes"]
    cl["drv:" + case["drv"]] = 1
    cl["class:" + case["cls"]] = 1
    nh = 0
    for seq in _histories(case):
        nh += 1
        r = Run(case, R)
        nt = r.run(seq, True)
        if nt:
            R["nontrivial"].add(hash((case["drv"], case["cls"], tuple(case.get("attrs", ())), case["size"], len(case["alphabet"]), seq)))
        if r.viol_here == 0 and seq:
            # the same history with a final observation only: observations must not be what keeps the group consistent
            r2 = Run(case, {"viol": {}, "classes": {}, "states": set(), "transitions": 0, "nontrivial": set(), "n": 0})
            r2.run(seq, False)
            cl["final-only-run"] = cl.get("final-only-run", 0) + 1
            if r2.viol_here:
                first = sorted(r2.R["viol"])[0]
                sig = "C15:%s:unobserved-history-differs" % case["cls"]
                if sig not in R["viol"]:
                    v = dict(r2.R["viol"][first])
                    v["what"] = "history is consistent when observed after every operation but not when observed only at the end: " + v["what"]
                    v["sig"] = sig
                    R["viol"][sig] = v
    R["n"] = nh
    return {"viol": [R["viol"][s] for s in sorted(R["viol"])], "classes": cl,
            "outcome": (case["label"], case["size"], nh, R["transitions"], sorted(R["viol"]), cl.get("aborted-after-divergence", 0)),
            "n": nh, "states": R["states"], "transitions": R["transitions"], "nontrivial": R["nontrivial"],
            "keep_sample": False}
