"""C05 - beam CX emission is a population-weighted mean of metastable-resolved coefficients, beam emission a charged
sum; both vanish where beam or receiver density is zero (engine L: exhaustive input lattice).

Driver: World -> Plasma (analytic, position dependent Maxwellians given as Python callables) + Beam (translated w.r.t.
the plasma, stub BeamAttenuator with an analytic density) + one BeamCXLine or BeamEmissionLine; the model's
``emission(beam_point, plasma_point, beam_direction, observation_direction, Spectrum)`` is called directly.
The mock AtomicData provider returns closed-form coefficients (mc/refs/c05_ref.py) in which every argument matters and
which *log* every evaluation (request key, arguments, returned value).  Neutrals get the provider's null rates
(cherab.openadas NullBeamPopulationRate / NullBeamEmissionPEC).
"""
import itertools
import math

from mc.refs import c05_ref as R

PROPERTY = "C05"
DRIVER = ("BeamCXLine.emission / BeamEmissionLine.emission called directly on a stub plasma + stub beam density with a "
          "logging closed-form mock AtomicData; wavelength-integrated result compared with the documented formulae")
ALPHABET = {
    "model": ["BeamCXLine", "BeamEmissionLine"],
    "ion pool": {k: R.SPECIES[k][:2] for k in R.ION_POOL},
    "composition": "every subset of the ion pool with 1-3 ions (CX: containing the receiver), optionally plus neutral D0 "
                   "(null rates) placed last (thorough: also first, and the reversed species order)",
    "cx receiver / line": {k: list(v[:2]) + [list(v[2])] for k, v in R.CX_LINE.items()},
    "metastables": "M in {1,2,3}; position of the ground-state rate in the provider's list: first / last (thorough: middle)",
    "provider": {"D": "excited metastable m=2 populated but with a null CX coefficient", "A": "q increasing with m, small populations", "B": "q decreasing with m, populations > 1",
                 "C": "ground-state q in the middle (thorough)"},
    "flow": R.FLOW_DIR, "B field": ["zero", "position dependent, |B| ~ 2 T"],
    "beam energy eV/amu": {"quick": [1e4, 8e4], "thorough": [1e4, 4e4, 8e4]},
    "beam direction": R.BEAM_DIR,
    "beam points (beam space)": R.BEAM_POINTS, "plasma points (plasma space)": R.PLASMA_POINTS,
}
BOUND = {
    "quick": "receivers {C6, D1}; neutral last; M-config {1, 2 ground-first, 3 ground-last}; providers A,B,D; 3 flows; 2 B; "
             "BES: all 25 ion subsets; inner lattice 2 energies x 2 beam directions x 5 beam points x 6 plasma points",
    "thorough": "all 5 receivers; neutral absent/first/last; species order as listed and reversed; 6 M-configs; providers A,B,C,D; "
                "3 flows; 2 B; inner lattice 3 energies x 3 beam directions x 5 beam points x 6 plasma points",
}
RULE = ("one case per (model, ordered composition, receiver, metastable configuration, provider, flow, B) = one scene built; "
        "inside, the full product energy x beam direction x beam point x plasma point is evaluated (each a lattice point = state). "
        "A sub-case is non-trivial when beam density and receiver density (BES: sum Z_i n_i) are both > 0, i.e. the "
        "coefficients were really evaluated and the total compared with the reference; distinct sub-cases are keyed by "
        "(scene, plasma point class, beam direction) - energies and the two in-beam points are not counted separately")
ASSUMPTIONS = [
    "beam density is supplied by a stub BeamAttenuator (analytic function of the beam-space point); Beam.density's own "
    "clamp to 0 <= z <= length is part of the driver's expectation (C04 covers real attenuators)",
    "physical constants e (exact SI) and m_u (CODATA 2018, the documented vintage of cherab.core.utility.constants) are "
    "used by the reference for the eV/amu <-> m/s conversions",
    "species temperatures and electron density/temperature are > 0 wherever the reference expects emission "
    "(T_r = 0 and n_e = 0 shortcuts of the line-shape code are outside the stated property)",
    "wavelength-integrated emission = sum(samples) * delta_wavelength on a window that contains the whole line "
    "(+-30 nm for CX, 600-720 nm for beam emission); line-shape normalisation itself is C02's subject",
    "neutral species carry the provider's null coefficients and are not ions (they do not enter the total ion density)",
    "claim holds only on the declared lattice",
]
REQUIRED_CLASSES = [
    "cx:species-replaced-after-evaluation", "bes:species-replaced-after-evaluation", "cx:composition-reassigned-without-a-species", "bes:composition-reassigned-without-a-species", "cx:emitting", "cx:zero:beam", "cx:zero:receiver", "cx:neutral-present", "cx:ions-only", "cx:M=1", "cx:M=2", "cx:M=3",
    "cx:ground-last", "cx:flow=none", "cx:flow=along", "cx:flow=oblique", "cx:B=zero", "cx:B=on", "cx:single-ion",
    "cx:multi-ion", "cx:other-ion-zero", "cx:q-spread", "cx:population>1", "cx:population<1", "cx:nonunit-direction",
    "bes:emitting", "bes:zero:beam", "bes:zero:ions", "bes:neutral-present", "bes:ions-only", "bes:single-ion",
    "bes:multi-ion", "bes:some-ion-zero", "bes:only-neutral-nonzero",
]
BUDGET_S = {"quick": 90, "thorough": 900}

# DESIGN.md allows rel 1e-10 for the integrated emission; the computation is a telescoping erf sum plus a handful of float
# operations on identical constants (measured deviation on the unmodified tree <= 6e-16), so the tighter 1e-12 is used.
REL_TOTAL = 1e-12
REL_ARG = 1e-11     # arguments handed to the coefficients: a few float operations on identical constants

MCFG = {  # name -> (M, order of donor_metastable values in the list returned by the provider)
    "M1": (1, [1]), "M2-gfirst": (2, [1, 2]), "M2-glast": (2, [2, 1]),
    "M3-gfirst": (3, [1, 2, 3]), "M3-gmid": (3, [3, 1, 2]), "M3-glast": (3, [2, 3, 1]),
}
CX_ARG_NAMES = ("energy", "temperature", "ion_density", "z_effective", "b_field")
BEAM_ARG_NAMES = ("energy", "density", "temperature")


# ----------------------------------------------------------------------------------------------------------------------
# enumeration
# ----------------------------------------------------------------------------------------------------------------------
def _ion_subsets(must=None):
    out = []
    for r in (1, 2, 3):
        for sub in itertools.combinations(R.ION_POOL, r):
            if must is None or must in sub:
                out.append(list(sub))
    return out


def _compositions(tier, must=None):
    """ordered compositions (lists of species keys) with the neutral variants"""
    out = []
    for sub in _ion_subsets(must):
        orders = [sub] if tier == "quick" else ([sub, sub[::-1]] if len(sub) > 1 else [sub])
        for o in orders:
            out.append((o, "none"))
            out.append((o + [R.NEUTRAL], "last"))
            if tier != "quick":
                out.append(([R.NEUTRAL] + o, "first"))
    return out


def cases(tier):
    quick = tier == "quick"
    receivers = ["C6", "D1"] if quick else ["C6", "D1", "He2", "C5", "Ne10"]
    mcfgs = ["M1", "M2-gfirst", "M3-glast"] if quick else ["M1", "M2-gfirst", "M3-glast", "M2-glast", "M3-gfirst", "M3-gmid"]
    provs = ["A", "B", "D"] if quick else ["A", "B", "C", "D"]      # D: an excited metastable with a null CX coefficient and a non-zero population
    flows = ["none", "along", "oblique"]
    bs = ["zero", "on"]
    out = []
    for recv in receivers:
        for comp, neut in _compositions(tier, recv):
            for mc in mcfgs:
                for prov in provs:
                    for flow in flows:
                        for b in bs:
                            out.append({"kind": "cx", "comp": comp, "neutral": neut, "role": recv, "mcfg": mc, "prov": prov,
                                        "flow": flow, "b": b, "tier": tier, "label": "cx"})
    for comp, neut in _compositions(tier):
        role = [k for k in comp if k != R.NEUTRAL][0]
        for prov in provs:
            for flow in flows:
                for b in bs:
                    out.append({"kind": "bes", "comp": comp, "neutral": neut, "role": role, "mcfg": "M1", "prov": prov,
                                "flow": flow, "b": b, "tier": tier, "label": "bes"})
    return out


def crash_label(case):
    return "%s:%s" % (case["kind"], "neutral-present" if case["neutral"] != "none" else "ions-only")


def _inner(tier):
    energies = [1e4, 8e4] if tier == "quick" else [1e4, 8e4, 4e4]
    dirs = ["axis", "oblique-nonunit"] if tier == "quick" else ["axis", "oblique-nonunit", "transverse"]
    return energies, dirs


# ----------------------------------------------------------------------------------------------------------------------
# the mock provider (built lazily: cherab is imported inside functions only)
# ----------------------------------------------------------------------------------------------------------------------
LOG = []
_M = {}


def _mocks():
    if _M:
        return _M
    from cherab.core.atomic import AtomicData, BeamCXPEC, BeamPopulationRate, BeamEmissionPEC
    from cherab.core.beam import BeamAttenuator
    from cherab.openadas.rates.beam import NullBeamPopulationRate, NullBeamEmissionPEC

    class CX(BeamCXPEC):
        def __init__(self, prov, m, req):
            super().__init__(m)
            self.prov, self.m, self.req = prov, m, req

        def evaluate(self, energy, temperature, density, z_effective, b_field):
            v = R.cx_coeff(self.prov, self.m, self.req[2], energy, temperature, density, z_effective, b_field)
            LOG.append(("cx", self.m, self.req, (energy, temperature, density, z_effective, b_field), v))
            return v

    class POP(BeamPopulationRate):
        def __init__(self, prov, m, req):
            self.prov, self.m, self.req = prov, m, req

        def evaluate(self, energy, density, temperature):
            v = R.pop_coeff(self.prov, self.m, self.req[3], energy, density, temperature)
            LOG.append(("pop", self.m, self.req, (energy, density, temperature), v))
            return v

    class BES(BeamEmissionPEC):
        def __init__(self, prov, req):
            self.prov, self.req = prov, req

        def evaluate(self, energy, density, temperature):
            v = R.bes_coeff(self.prov, self.req[2], energy, density, temperature)
            LOG.append(("bes", 1, self.req, (energy, density, temperature), v))
            return v

    class Provider(AtomicData):
        def __init__(self, prov, order):
            self.prov, self.order = prov, order

        def wavelength(self, ion, charge, transition):
            return R.WAVELENGTH[ion.name]

        def beam_cx_pec(self, donor, receiver, receiver_charge, transition):
            req = (donor.name, receiver.name, int(receiver_charge), tuple(transition))
            return [CX(self.prov, m, req) for m in self.order]

        def beam_population_rate(self, beam_species, metastable, target_ion, target_charge):
            if target_charge == 0:
                return NullBeamPopulationRate()
            return POP(self.prov, int(metastable), (beam_species.name, int(metastable), target_ion.name, int(target_charge)))

        def beam_emission_pec(self, beam_species, target_ion, target_charge, transition):
            if target_charge == 0:
                return NullBeamEmissionPEC()
            return BES(self.prov, (beam_species.name, target_ion.name, int(target_charge), tuple(transition)))

    class StubAttenuator(BeamAttenuator):
        clamp_sigma = 5.0

        def density(self, x, y, z):
            return R.attenuator_density(x, y, z)

    _M.update(Provider=Provider, StubAttenuator=StubAttenuator)
    return _M


def _build(case):
    from raysect.core import Vector3D, translate
    from raysect.optical import World
    from cherab.core import Beam, Plasma, Species, Maxwellian, Line
    from cherab.core.atomic import elements as em
    from cherab.core.model import BeamCXLine, BeamEmissionLine
    mk = _mocks()
    comp, role, flow = case["comp"], case["role"], case["flow"]
    rk = R.ranks(comp, role)
    M, order = MCFG[case["mcfg"]]

    def dens(k):
        r = rk[k]
        return lambda x, y, z: R.density(k, r, x, y, z)

    def temp(k):
        return lambda x, y, z: R.temperature(k, x, y, z)

    def vel(k):
        return lambda x, y, z: Vector3D(*R.velocity(k, flow, x, y, z))

    def n_e(x, y, z):
        return math.fsum(R.SPECIES[k][1] * R.density(k, rk[k], x, y, z) for k in comp)

    world = World()
    plasma = Plasma(parent=world)
    plasma.electron_distribution = Maxwellian(n_e, 1.0e3, Vector3D(0, 0, 0), 9.1093837e-31)
    species = []
    for k in comp:
        el = getattr(em, R.SPECIES[k][0])
        species.append(Species(el, R.SPECIES[k][1], Maxwellian(dens(k), temp(k), vel(k), el.atomic_weight * R.AMU)))
    plasma.composition = species
    bcl = case["b"]
    if bcl == "zero":
        plasma.b_field = Vector3D(0, 0, 0)
    else:
        plasma.b_field = lambda x, y, z: Vector3D(*R.b_field(bcl, x, y, z))
    provider = mk["Provider"](case["prov"], order)
    plasma.atomic_data = provider

    beam = Beam(parent=world, transform=translate(*R.BEAM_SHIFT))
    beam.plasma = plasma
    beam.atomic_data = provider
    beam.energy = 5e4
    beam.power = 1e6
    beam.temperature = 10.0
    beam.element = em.deuterium
    beam.length = R.BEAM_LENGTH
    beam.sigma = 0.1
    beam.attenuator = mk["StubAttenuator"]()
    if case["kind"] == "cx":
        le, lc, ltr = R.CX_LINE[role]
        model = BeamCXLine(Line(getattr(em, le), lc, ltr))
        lam = R.WAVELENGTH[le]
        window = (lam - 30.0, lam + 30.0, 4)    # a bin edge sits on the rest wavelength
    else:
        model = BeamEmissionLine(Line(em.deuterium, 0, (3, 2)))
        window = (600.0, 720.0, 6)
    beam.models = [model]
    return world, plasma, beam, model, window


# ----------------------------------------------------------------------------------------------------------------------
# oracles
# ----------------------------------------------------------------------------------------------------------------------
def _close(a, b, rel):
    return abs(a - b) <= rel * max(abs(a), abs(b))


def _arg_mismatch(names, got, want):
    return [nm for nm, g, w in zip(names, got, want) if not (g == w or _close(g, w, REL_ARG))]


def _gpos(case):
    M, order = MCFG[case["mcfg"]]
    return "M=1" if M == 1 else ("ground-first" if order[0] == 1 else "ground-not-first")


def _label(cause, case, dirname):
    """class label of the failing input, chosen by what the cause can depend on"""
    neut = "neutral-present" if case["neutral"] != "none" else "ions-only"
    nions = sum(1 for k in case["comp"] if R.SPECIES[k][1] >= 1)
    multi = "multi-ion" if nions > 1 else "single-ion"
    first = cause.split("+")[0]
    if "ion_density" in first:
        return neut
    if "z_effective" in first or first.endswith(".density"):
        return neut + ":" + multi
    if "energy" in first:
        # with a flow the frame matters whatever the direction; without one only the direction class can
        return "flow=%s" % case["flow"] if case["flow"] != "none" else "flow=none:dir=%s" % dirname
    if "b_field" in first:
        return "B=" + case["b"]
    if "request" in first:
        return "receiver=" + case["role"]
    if first in ("weights", "coefficient-not-evaluated"):
        return "%s:%s" % (_gpos(case), neut)
    return multi


def _cx_eval(case, ref, obs, dirname, viol, classes):
    """ref: cx_reference dict for an emitting point; obs: integrated emission; LOG holds this call's evaluations."""
    M = ref["q"].__len__()
    le, lc, ltr = R.CX_LINE[case["role"]]
    want_req_cx = ("deuterium", le, lc + 1, tuple(ltr))
    causes = set()
    ret_q, ret_pop = {}, {}
    nmap = {k: n for k, _, n in ref["ions"]}
    for kind, m, req, args, val in LOG:
        if kind == "cx":
            if req != want_req_cx:
                causes.add("cx-request")
            for nm in _arg_mismatch(CX_ARG_NAMES, args, ref["cx_args"]):
                causes.add("cx-arg." + nm)
            ret_q[m] = val
        elif kind == "pop":
            key = next((k for k in case["comp"] if (R.SPECIES[k][0], R.SPECIES[k][1]) == (req[2], req[3])), None)
            if key is None or req[0] != "deuterium" or (m, key) not in ref["pop_args"] or req[1] != m:
                causes.add("pop-request")
                continue
            if nmap[key] > 0.0:      # arguments of a zero-weight coefficient are immaterial
                for nm in _arg_mismatch(BEAM_ARG_NAMES, args, ref["pop_args"][(m, key)]):
                    causes.add("pop-arg." + nm)
            ret_pop[(m, key)] = val
        else:
            causes.add("foreign-rate-evaluated")
    # the documented combination applied to the values the provider actually returned
    comb_ok = None
    live = [i for i in ref["ions"] if i[2] > 0.0]     # a coefficient whose weight Z_i n_i is zero need not be evaluated
    if len(ret_q) == M and all((m, k) in ret_pop for m in range(2, M + 1) for k, _, _ in live):
        s1 = math.fsum(z * n for _, z, n in live)
        ks = {m: math.fsum(z * n * ret_pop[(m, k)] for k, z, n in live) / s1 for m in range(2, M + 1)}
        qm = (ret_q[1] + math.fsum(ks[m] * ret_q[m] for m in ks)) / (1.0 + math.fsum(ks.values()))
        comb_ok = _close(obs, ref["n_b"] * ref["n_r"] * qm / R.FOUR_PI, REL_TOTAL)
    total_ok = _close(obs, ref["total"], REL_TOTAL)
    if comb_ok is None and not total_ok:
        causes.add("coefficient-not-evaluated")
    if comb_ok is False:
        causes.add("weights")       # independent of any argument defect: combination of the *returned* values is wrong
    cause = "+".join(sorted(causes))
    if not total_ok:
        if not cause:
            cause = "unexplained"
        viol.append({"sig": "C05:BeamCXLine:emission-total:%s:%s" % (cause, _label(cause, case, dirname)),
                     "what": "integrated CX emission differs from (1/4pi) n_b n_r q; cause = which coefficient argument(s) differ "
                             "from the documented ones ('weights' = arguments right, combination of returned coefficients wrong)",
                     "expected": {"total": ref["total"], "cx_args(E,T,n_ion,Zeff,B)": ref["cx_args"], "q_m": ref["q"], "k_m": ref["k"]},
                     "observed": {"total": obs, "calls": [list(map(_js, e)) for e in LOG]}})
    elif cause:
        viol.append({"sig": "C05:BeamCXLine:rate-args:%s:%s" % (cause, _label(cause, case, dirname)),
                     "what": "a coefficient was evaluated at arguments other than the documented ones (total still agrees)",
                     "expected": {"cx_args": ref["cx_args"], "pop_args": {str(k): v for k, v in ref["pop_args"].items()}},
                     "observed": [list(map(_js, e)) for e in LOG]})
    # population-weighted mean lies between the smallest and the largest coefficient actually returned
    if ret_q:
        qobs = obs * R.FOUR_PI / (ref["n_b"] * ref["n_r"])
        lo, hi = min(ret_q.values()), max(ret_q.values())
        if qobs < lo * (1 - 1e-12) or qobs > hi * (1 + 1e-12):
            viol.append({"sig": "C05:BeamCXLine:mean-outside-coefficient-range:%s" % _gpos(case),
                         "what": "4pi I/(n_b n_r) is not between the smallest and largest metastable-resolved coefficient returned",
                         "expected": [lo, hi], "observed": qobs})
        if hi > 1.1 * lo:
            classes.append("cx:q-spread")
    if ref["k"]:
        classes.append("cx:population>1" if max(ref["k"].values()) > 1.0 else "cx:population<1")


def _bes_eval(case, ref, obs, dirname, viol, classes):
    causes = set()
    ret = {}
    nmap = {k: n for k, _, n in ref["ions"]}
    for kind, m, req, args, val in LOG:
        if kind != "bes":
            causes.add("foreign-rate-evaluated")
            continue
        key = next((k for k in case["comp"] if (R.SPECIES[k][0], R.SPECIES[k][1]) == (req[1], req[2])), None)
        if key is None or key not in ref["args"] or req[0] != "deuterium" or req[3] != (3, 2):
            causes.add("bes-request")
            continue
        if nmap[key] > 0.0:          # arguments of a zero-weight coefficient are immaterial
            for nm in _arg_mismatch(BEAM_ARG_NAMES, args, ref["args"][key]):
                causes.add("bes-arg." + nm)
        ret[key] = val
    comb_ok = None
    live = [i for i in ref["ions"] if i[2] > 0.0]     # a coefficient whose weight Z_i n_i is zero need not be evaluated
    if all(k in ret for k, _, _ in live):
        comb_ok = _close(obs, ref["n_b"] * math.fsum(z * n * ret[k] for k, z, n in live) / R.FOUR_PI, REL_TOTAL)
    total_ok = _close(obs, ref["total"], REL_TOTAL)
    if comb_ok is None and not total_ok:
        causes.add("coefficient-not-evaluated")
    if comb_ok is False:
        causes.add("sum")
    cause = "+".join(sorted(causes))
    if not total_ok:
        if not cause:
            cause = "unexplained"
        viol.append({"sig": "C05:BeamEmissionLine:emission-total:%s:%s" % (cause, _label(cause, case, dirname)),
                     "what": "integrated beam emission differs from (1/4pi) n_b sum_i Z_i n_i q_i(E_i, sum_j Z_j^2 n_j / Z_i, T_i)",
                     "expected": {"total": ref["total"], "args(E,n_equiv,T)": ref["args"]},
                     "observed": {"total": obs, "calls": [list(map(_js, e)) for e in LOG]}})
    elif cause:
        viol.append({"sig": "C05:BeamEmissionLine:rate-args:%s:%s" % (cause, _label(cause, case, dirname)),
                     "what": "a beam emission coefficient was evaluated at arguments other than the documented ones",
                     "expected": ref["args"], "observed": [list(map(_js, e)) for e in LOG]})


def _js(x):
    return list(x) if isinstance(x, tuple) else x


def run_case(case):
    from raysect.core import Point3D, Vector3D
    from raysect.optical import Spectrum
    kind = case["kind"]
    cfg = dict(case)
    cfg["M"] = MCFG[case["mcfg"]][0]
    world, plasma, beam, model, window = _build(case)
    energies, dirs = _inner(case["tier"])
    mname = "BeamCXLine" if kind == "cx" else "BeamEmissionLine"
    neut = "neutral-present" if case["neutral"] != "none" else "ions-only"
    nions = sum(1 for k in case["comp"] if R.SPECIES[k][1] >= 1)
    viol, classes, nontrivial = [], [], set()
    n = 0
    nz = 0
    acc = 0.0
    ckey = (kind, tuple(case["comp"]), case["role"], case["mcfg"], case["prov"], case["flow"], case["b"])
    obs_dir = Vector3D(0.8, 0.0, 0.6)
    for ie, energy in enumerate(energies):
        beam.energy = energy
        for dname in dirs:
            bdir = R.BEAM_DIR[dname]
            for ib, (bcls, bp) in enumerate(R.BEAM_POINTS):
                for ip, (pcls, pp) in enumerate(R.PLASMA_POINTS):
                    idx = (ie, dname, ib, ip)
                    n += 1
                    ref = (R.cx_reference if kind == "cx" else R.bes_reference)(cfg, energy, bdir, bp, pp)
                    spectrum = Spectrum(*window)
                    del LOG[:]
                    try:
                        out = model.emission(Point3D(*bp), Point3D(*pp), Vector3D(*bdir), obs_dir, spectrum)
                    except Exception as e:  # noqa
                        ecls = "emitting" if ref["total"] > 0 else "zero-expected"
                        viol.append({"sig": "C05:%s:raises:%s:%s:%s" % (mname, type(e).__name__, ecls, neut),
                                     "what": "emission() raised", "expected": ref["total"], "observed": repr(e)[:200]})
                        continue
                    samples = [float(s) for s in out.samples]
                    obs = math.fsum(samples) * out.delta_wavelength
                    if not all(math.isfinite(s) for s in samples):
                        viol.append({"sig": "C05:%s:nonfinite:%s" % (mname, neut), "what": "non-finite spectral sample",
                                     "expected": ref["total"], "observed": samples})
                        continue
                    if min(samples) < 0.0:
                        viol.append({"sig": "C05:%s:negative-sample" % mname, "what": "negative spectral sample",
                                     "expected": ">= 0", "observed": samples})
                    if ref["total"] == 0.0:
                        # exact zero where beam or receiver density (BES: every Z_i n_i) vanishes
                        if ref["n_b"] == 0.0:
                            zc = "beam"
                        else:
                            zc = "receiver" if kind == "cx" else "ions"
                        classes.append("%s:zero:%s" % (kind, zc))
                        if kind == "bes" and zc == "ions" and pcls == "ions=0" and case["neutral"] != "none":
                            classes.append("bes:only-neutral-nonzero")
                        if any(s != 0.0 for s in samples):
                            viol.append({"sig": "C05:%s:not-zero:%s-density-zero:%s" % (mname, zc, bcls if zc == "beam" else pcls),
                                         "what": "emission is not exactly zero where the %s density is zero" % zc,
                                         "expected": 0.0, "observed": samples})
                        continue
                    nz += 1
                    acc += obs
                    nontrivial.add((ckey, pcls, dname))
                    classes.append(kind + ":emitting")
                    if dname == "oblique-nonunit":
                        classes.append(kind + ":nonunit-direction")
                    if pcls == "second=0" and nions > 1:
                        classes.append("cx:other-ion-zero" if kind == "cx" else "bes:some-ion-zero")
                    if kind == "bes" and pcls == "role=0":
                        classes.append("bes:some-ion-zero")
                    if kind == "cx":
                        _cx_eval(case, ref, obs, dname, viol, classes)
                    else:
                        _bes_eval(case, ref, obs, dname, viol, classes)
    # ---- a species replaced through composition.add() after the model has been evaluated (engine-H style step inside this
    # lattice check): the live model must then give what a scene gives in which the species was replaced before any evaluation
    try:
        from cherab.core import Species, Maxwellian
        from cherab.core.atomic import elements as em

        def replace_first_ion(pl):
            k = next(k for k in case["comp"] if R.SPECIES[k][1] >= 1)
            old = pl.composition.get(getattr(em, R.SPECIES[k][0]), R.SPECIES[k][1])
            od = old.distribution
            new = Maxwellian(lambda x, y, z: 2.5 * od.density(x, y, z), lambda x, y, z: 0.6 * od.effective_temperature(x, y, z),
                             lambda x, y, z: od.bulk_velocity(x, y, z), old.element.atomic_weight * R.AMU)
            pl.composition.add(Species(old.element, old.charge, new))

        def evaluate(mdl, bm):
            # (no setter is called here: any beam setter would notify the model and hide a missing composition notification)
            vals = []
            for (bcls, bp), (pcls, pp) in ((R.BEAM_POINTS[0], R.PLASMA_POINTS[0]), (R.BEAM_POINTS[1], R.PLASMA_POINTS[1])):
                sp = Spectrum(*window)
                o = mdl.emission(Point3D(*bp), Point3D(*pp), Vector3D(*R.BEAM_DIR[dirs[0]]), obs_dir, sp)
                vals.append(math.fsum(float(v) for v in o.samples) * o.delta_wavelength)
            return vals

        beam.energy = energies[0]
        before = evaluate(model, beam)
        replace_first_ion(plasma)
        live = evaluate(model, beam)
        w2, p2, b2, m2, _ = _build(case)
        b2.energy = energies[0]
        replace_first_ion(p2)
        fresh = evaluate(m2, b2)
        n += 4
        classes.append(kind + ":species-replaced-after-evaluation")
        if any(f != b for f, b in zip(fresh, before)):
            nontrivial.add((ckey, "species-replaced"))
        if not all(_close(a, b, 1e-12) or a == b for a, b in zip(live, fresh)):
            viol.append({"sig": "C05:%s:species-replaced-after-evaluation:differs-from-scene-with-the-replacement-made-before-any-evaluation:%s" % (mname, neut),
                         "what": "plasma.composition.add(Species(same element and charge, 2.5 x density, 0.6 x temperature)) after the model was evaluated",
                         "expected": fresh, "observed": live})
    except Exception as e:  # noqa
        viol.append({"sig": "C05:%s:species-replaced-after-evaluation:raises:%s" % (mname, type(e).__name__), "what": "replacing a species after an evaluation",
                     "expected": "an emission value", "observed": repr(e)[:200]})
    # ---- the composition is assigned twice more on the live plasma: first with one more ion, then without it again.  The scene must
    # then be the one in which that ion never existed (the scene `fresh` above was evaluated in).
    try:
        xk = next(k for k in R.ION_POOL[::-1] if k not in case["comp"])
        xel = getattr(em, R.SPECIES[xk][0])
        xsp = Species(xel, R.SPECIES[xk][1], Maxwellian(lambda x, y, z: 3.0e18, lambda x, y, z: 800.0, lambda x, y, z: Vector3D(0, 0, 0), xel.atomic_weight * R.AMU))
        current = list(plasma.composition)
        plasma.composition = current + [xsp]
        with_x = evaluate(model, beam)
        plasma.composition = current
        live2 = evaluate(model, beam)
        n += 4
        classes.append(kind + ":composition-reassigned-without-a-species")
        if any(f != b for f, b in zip(with_x, fresh)):
            nontrivial.add((ckey, "species-dropped"))
        if not all(_close(a, b, 1e-12) or a == b for a, b in zip(live2, fresh)):
            viol.append({"sig": "C05:%s:composition-reassigned-without-a-species:differs-from-scene-that-never-had-it:%s" % (mname, neut),
                         "what": "plasma.composition = species + [%s], evaluate, plasma.composition = species, evaluate" % xk,
                         "expected": fresh, "observed": live2})
    except Exception as e:  # noqa
        viol.append({"sig": "C05:%s:composition-reassigned-without-a-species:raises:%s" % (mname, type(e).__name__), "what": "re-assigning the composition after an evaluation",
                     "expected": "an emission value", "observed": repr(e)[:200]})
    # per-case class labels
    classes += [kind + ":" + neut, kind + (":multi-ion" if nions > 1 else ":single-ion")]
    if kind == "cx":
        classes += ["cx:M=%d" % cfg["M"], "cx:flow=" + case["flow"], "cx:B=" + case["b"]]
        if MCFG[case["mcfg"]][1][-1] == 1 and cfg["M"] > 1:
            classes.append("cx:ground-last")
    # one violation record per signature and case is enough
    seen, uniq = set(), []
    for v in viol:
        if v["sig"] not in seen:
            seen.add(v["sig"])
            uniq.append(v)
    return {"viol": uniq, "classes": classes, "outcome": (ckey, nz, "%.9e" % acc, len(uniq)), "n": n,
            "transitions": n, "nontrivial": sorted(nontrivial)}
