"""C16 - spectroscopic instruments.

Engine H: every setter history (bounded length) on Spectrometer, CzernyTurnerSpectrometer and
Polychromator, with every placement of reads of the lazily computed settings; after the history (and
at every read) the live instrument is compared, exactly, with an instrument constructed directly
with the final parameters (differential oracle), and with independent statements of the property
(range covers every pixel / filter, bin width <= narrowest / min_bins, pixel centres, pipelines per
filter ...).

Engine L: calibrate() over a lattice of source spectra x pixel layouts, compared with the exact
rational integral of the raysect-defined spectrum (mc/refs/spectrum_pl.py).
"""
import itertools
import math
import zlib

PROPERTY = "C16"
DRIVER = ("instruments: setter histories on Spectrometer / CzernyTurnerSpectrometer / Polychromator vs a freshly "
          "constructed instrument; Spectrometer.calibrate over a spectrum x pixel-layout lattice vs exact rational integral")

# ---------------------------------------------------------------------------------------------
# alphabets.  An op is (slot, value key); the value objects are built per worker in _values().
# Thorough lists extend the quick lists (quick ops keep their indices).
# ---------------------------------------------------------------------------------------------
SPEC_OPS_Q = [
    ("wavelength_to_pixel", "W1"), ("wavelength_to_pixel", "W2"), ("wavelength_to_pixel", "W3"),
    ("wavelength_to_pixel", "Wempty"), ("wavelength_to_pixel", "Wnonmono"), ("wavelength_to_pixel", "Wshort"),
    ("wavelength_to_pixel", "Wbad2nd"), ("wavelength_to_pixel", "Wflat"),
    ("min_bins_per_pixel", "mb1"), ("min_bins_per_pixel", "mb3"), ("min_bins_per_pixel", "mb0"),
    ("name", "na"), ("name", "nb"),
]
SPEC_OPS_T = SPEC_OPS_Q + [("wavelength_to_pixel", "W4"), ("wavelength_to_pixel", "W2d"), ("min_bins_per_pixel", "mb2.7")]
SPEC_INITS = [
    {"wavelength_to_pixel": "W2", "min_bins_per_pixel": "mb1", "name": "na"},
    {"wavelength_to_pixel": "W3", "min_bins_per_pixel": "mb3", "name": "nb"},
]

CT_OPS_Q = [
    ("diffraction_order", "m1"), ("diffraction_order", "m2"), ("diffraction_order", "m0"),
    ("grating", "g1"), ("grating", "g2"), ("grating", "gneg"),
    ("focal_length", "f1"), ("focal_length", "f2"), ("focal_length", "f0"),
    ("pixel_spacing", "p1"), ("pixel_spacing", "p2"), ("pixel_spacing", "p0"),
    ("diffraction_angle", "a10"), ("diffraction_angle", "a20"), ("diffraction_angle", "a0"),
    ("accommodated_spectra", "A1"), ("accommodated_spectra", "A2"), ("accommodated_spectra", "A3"),
    ("accommodated_spectra", "Abad"),
    ("min_bins_per_pixel", "mb1"), ("min_bins_per_pixel", "mb3"), ("min_bins_per_pixel", "mb0"),
    ("name", "na"), ("name", "nb"),
]
CT_OPS_T = CT_OPS_Q + [("accommodated_spectra", "Aempty"), ("accommodated_spectra", "A4")]
CT_INITS = [
    {"diffraction_order": "m1", "grating": "g1", "focal_length": "f1", "pixel_spacing": "p1", "diffraction_angle": "a10",
     "accommodated_spectra": "A2", "min_bins_per_pixel": "mb1", "name": "na"},
    {"diffraction_order": "m2", "grating": "g2", "focal_length": "f2", "pixel_spacing": "p2", "diffraction_angle": "a20",
     "accommodated_spectra": "A3", "min_bins_per_pixel": "mb3", "name": "nb"},
]

PO_OPS_Q = [
    ("filters", "F1"), ("filters", "F2"), ("filters", "F3"), ("filters", "F4"), ("filters", "F6"), ("filters", "F7"), ("filters", "F0"), ("filters", "Fbad"),
    ("min_bins_per_window", "mb1"), ("min_bins_per_window", "mb10"), ("min_bins_per_window", "mb0"),
    ("name", "na"), ("name", "nb"),
]
PO_OPS_T = PO_OPS_Q + [("filters", "F5"), ("min_bins_per_window", "mb7.9")]
PO_INITS = [
    {"filters": "F1", "min_bins_per_window": "mb10", "name": "na"},
    {"filters": "F2", "min_bins_per_window": "mb1", "name": "nb"},
]

CLASSES = {
    "Spectrometer": (SPEC_OPS_Q, SPEC_OPS_T, SPEC_INITS),
    "CzernyTurnerSpectrometer": (CT_OPS_Q, CT_OPS_T, CT_INITS),
    "Polychromator": (PO_OPS_Q, PO_OPS_T, PO_INITS),
}

# value class of each key (goes into signatures / class labels)
VALUE_CLASS = {
    "Wempty": "empty", "Wnonmono": "invalid", "Wshort": "invalid", "Wbad2nd": "invalid", "Wflat": "invalid", "W2d": "invalid",
    "mb0": "invalid", "m0": "invalid", "gneg": "invalid", "f0": "invalid", "p0": "invalid", "a0": "invalid", "Abad": "invalid",
    "Aempty": "empty", "F0": "empty", "Fbad": "invalid", "mb2.7": "non-integer", "mb7.9": "non-integer",
}
EMPTY_SLOT = {"Spectrometer": ("wavelength_to_pixel", "Wempty"), "CzernyTurnerSpectrometer": ("accommodated_spectra", "Aempty"),
              "Polychromator": ("filters", "F0")}

# calibration lattice
L_BINS_Q = [1, 2, 5, 16, 17]
L_BINS_T = [1, 2, 3, 5, 16, 17, 64]
L_RANGES_Q = [(400.0, 410.0), (653.27, 659.91)]
L_RANGES_T = L_RANGES_Q + [(300.5, 1100.25)]
L_PATTERNS = ["ramp", "alternating", "spike", "constant", "squares", "mixed"]

ALPHABET = {
    "Spectrometer ops": SPEC_OPS_T, "CzernyTurnerSpectrometer ops": CT_OPS_T, "Polychromator ops": PO_OPS_T,
    "initial configurations": {"Spectrometer": SPEC_INITS, "CzernyTurnerSpectrometer": CT_INITS, "Polychromator": PO_INITS},
    "values": {
        "W1": "((500,501,502,503),) tuple", "W2": "([400,400.5,401,401.5],[600,602,604]) two pitches", "W3": "(ndarray [650,650.25,651.5,651.6,655],) non-uniform",
        "W4": "three arrays, unordered and overlapping", "Wempty": "()", "Wnonmono/Wshort/Wbad2nd/Wflat/W2d": "rejected by the constructor",
        "CT": "order {1,2}, grating {1.2e-3,5e-4}, focal {1e9,7.5e8}, spacing {2e4,1.3e4}, angle {10,20}; A1 one spectrum, A2 two, A3 three unordered, A4 list with float pixel count; 0/negative values rejected",
        "F1": "[Trapezoidal 656.1/3/1]", "F2": "(two overlapping trapezoids) tuple", "F3": "[Trapezoidal flat_top=window]",
        "F4": "[PolychromatorFilter unsorted non-zero ends, Trapezoidal]", "F5": "three filters incl. a repeated one", "F6": "[broad band 630-670, line filter 656.1/3 inside it with the outermost centre]",
        "F7": "(line filter 464.8/3, broad band 455-485 containing it)", "F0": "[]", "Fbad": "[filter, 'str']",
    },
    "observation kinds between ops": {"quick": ["none", "all"], "thorough": ["none", "spectral", "pipeline (not CzernyTurner)", "all"]},
    "calibration": {"bins": L_BINS_T, "ranges": L_RANGES_T, "sample patterns (integers)": L_PATTERNS,
                    "layouts": ["aligned", "aligned-span2", "single-full", "half-offset", "irrational", "sub-bin-first", "sub-bin-last",
                                "sub-bin-mid", "nonuniform", "interior-wide", "tiny-at-centre", "(thorough) aligned-span3, quarter-offset, irrational2, tiny-at-edge"],
                    "instruments": "every single layout, every ordered pair, cyclic triples; narrower-than-instrument spectra must be rejected; "
                                   "CzernyTurner layouts for 8 optical configurations"},
}
BOUND = {
    "quick": "all op sequences of length <= 3 from 2 initial configurations per class (1 for CzernyTurner), read-or-not before every op (2^k masks), read twice at the end; "
             "calibration: 5 bin counts x 2 ranges x 6 sample patterns x (11 layouts + all ordered pairs + triples)",
    "thorough": "length <= 3 with 4 observation kinds before every op (4^k; CzernyTurner 3^k on the first and 2^k on the second initial configuration), plus length 4 reading before every op "
                "(not for the second CzernyTurner configuration), 2 initial configurations per class, larger alphabets; "
                "calibration: 7 bin counts x 3 ranges x 6 patterns x (15 layouts + pairs + triples)",
}
RULE = ("H: one case per (class, initial configuration, first two ops) enumerating every completion and every observation mask; each history is run on a new live "
        "instrument.  Non-trivial sub-case = distinct (class, configuration before, what was read since the previous op, op) in which the op changes the "
        "model configuration or is rejected.  L: one case per (range, bins, pattern); non-trivial = distinct (spectrum, instrument layout tuple).")
ASSUMPTIONS = [
    "raysect's Spectrum.integrate is the documented trapezium integral of the bin-centre samples with nearest-neighbour extrapolation (the reference integrates exactly that function in rational arithmetic)",
    "bin centres are stored as doubles: pixel integrals are compared at 1e-12 of (peak sample x pixel width)",
    "filter objects are immutable parameters shared by the live and the fresh instrument",
    "CzernyTurnerSpectrometer.resolution() (public) is used only for a consistency oracle between pixel edges and current parameters; the dispersion formula itself is not judged",
    "in-place mutation of containers returned by getters (e.g. polychromator.filters.append) is not a setter and is outside the alphabet",
]
REQUIRED_CLASSES = [
    "H:Spectrometer", "H:CzernyTurnerSpectrometer", "H:Polychromator",
    "op:changes-config", "op:same-value", "op:rejected", "op:after-read", "op:cold",
    "cfg:empty", "model:range-covers", "model:bin-width", "model:ct-recurrence", "model:pipelines",
    "L:range-equal", "L:range-wider", "L:narrower-rejected", "L:arrays=1", "L:arrays=2", "L:arrays=3", "L:CzernyTurner",
    "L:pixel-sub-bin", "L:pixel-spans-several", "L:full-span-total",
]
BUDGET_S = {"quick": 240, "thorough": 1500}
CHUNK = 8

_W = {}


# ---------------------------------------------------------------------------------------------
# cases
# ---------------------------------------------------------------------------------------------
def _ops(cls, tier):
    q, t, inits = CLASSES[cls]
    return (q if tier == "quick" else t), inits


def cases(tier):
    out = []
    for cls in CLASSES:
        ops, inits = _ops(cls, tier)
        n_init = len(inits)
        if tier == "quick" and cls == "CzernyTurnerSpectrometer":
            n_init = 1
        for ii in range(n_init):
            out.append({"kind": "H", "cls": cls, "init": ii, "prefix": [], "label": "H:" + cls})
            for a in range(len(ops)):
                for b in range(len(ops)):
                    out.append({"kind": "H", "cls": cls, "init": ii, "prefix": [a, b], "label": "H:" + cls})
    ranges = L_RANGES_Q if tier == "quick" else L_RANGES_T
    bins = L_BINS_Q if tier == "quick" else L_BINS_T
    for ri in range(len(ranges)):
        for nb in bins:
            for pat in L_PATTERNS:
                out.append({"kind": "L", "range": ri, "bins": nb, "pattern": pat, "label": "L:calibrate"})
    for ci in range(8):
        out.append({"kind": "LCT", "cfg": ci, "label": "L:calibrate-CT"})
    return out


def crash_label(case):
    return case.get("label", "case")


# ---------------------------------------------------------------------------------------------
# worker state
# ---------------------------------------------------------------------------------------------
def setup_worker(tier):
    import numpy as np
    from raysect.optical import Spectrum
    from cherab.tools.spectroscopy import (Spectrometer, CzernyTurnerSpectrometer, Polychromator, TrapezoidalFilter,
                                           PolychromatorFilter)
    _W.clear()
    _W["tier"] = tier
    _W["np"] = np
    fl = {
        "Ha": TrapezoidalFilter(656.1, 3., 1., "Ha"),
        "C3": TrapezoidalFilter(464.8, 3., 1., "CIII"),
        "C3b": TrapezoidalFilter(465.9, 2., 0.5, "CIIIb"),
        "flat": TrapezoidalFilter(500., 4.),
        "pf": PolychromatorFilter([658, 654, 656], [0.5, 0.5, 1], name="pf"),
        "wide": TrapezoidalFilter(400., 6., 2., "wide"),
        # broad bands that contain a line filter whose centre lies further out than the band's own centre
        "rband": TrapezoidalFilter(650., 40., 10., "red band"),
        "bband": TrapezoidalFilter(470., 30., 10., "blue band"),
    }
    _W["filters"] = fl
    _W["filter_key"] = {id(f): k for k, f in fl.items()}
    # independent description of the filters: (lower bound, upper bound, window) from the constructor arguments
    _W["filter_model"] = {"Ha": (656.1, 3.), "C3": (464.8, 3.), "C3b": (465.9, 2.), "flat": (500., 4.), "wide": (400., 6.),
                          "pf": (656., 4.), "rband": (650., 40.), "bband": (470., 30.)}
    V = {
        "W1": ((500., 501., 502., 503.),),
        "W2": ([400., 400.5, 401., 401.5], [600., 602., 604.]),
        "W3": (np.array([650., 650.25, 651.5, 651.6, 655.]),),
        "W4": [[700., 701.], (300., 300.1, 300.3), np.array([500, 503])],
        "Wempty": (),
        "Wnonmono": ([400., 401., 400.5],),
        "Wshort": ([400.],),
        "Wbad2nd": ([410., 411.], [500., 499.]),
        "Wflat": [400., 401., 402.],
        "W2d": ([[400., 401.], [402., 403.]],),
        "mb1": 1, "mb3": 3, "mb0": 0, "mb2.7": 2.7, "mb10": 10, "mb7.9": 7.9,
        "na": "a", "nb": "b",
        "m1": 1, "m2": 2, "m0": 0,
        "g1": 1.2e-3, "g2": 5.e-4, "gneg": -1.e-3,
        "f1": 1.e9, "f2": 7.5e8, "f0": 0.,
        "p1": 2.e4, "p2": 1.3e4, "p0": 0.,
        "a10": 10., "a20": 20., "a0": 0.,
        "A1": ((400., 4),),
        "A2": ((400., 3), (600., 5)),
        "A3": ((650., 2), (380., 6), (500., 1)),
        "A4": [[450., 2.0], [451., 3]],
        "Abad": ((400., 3), (600., 0)),
        "Aempty": (),
        "F1": [fl["Ha"]],
        "F2": (fl["C3"], fl["C3b"]),
        "F3": [fl["flat"]],
        "F4": [fl["pf"], fl["wide"]],
        "F5": [fl["Ha"], fl["C3"], fl["Ha"]],
        "F6": [fl["rband"], fl["Ha"]],
        "F7": (fl["C3"], fl["bband"]),
        "F0": [],
        "Fbad": [fl["Ha"], "not a filter"],
    }
    _W["V"] = V
    probe = Spectrum(100., 1500., 70)
    probe.samples[:] = [(i * 7 + 3) % 10 + 1 for i in range(70)]
    _W["probe"] = probe
    _W["ctor"] = {"Spectrometer": Spectrometer, "CzernyTurnerSpectrometer": CzernyTurnerSpectrometer, "Polychromator": Polychromator}
    _W["fresh"] = {}
    _W["ctor_outcome"] = {}


def _build(cls, cfg):
    V = _W["V"]
    C = _W["ctor"][cls]
    if cls == "Spectrometer":
        return C(V[cfg["wavelength_to_pixel"]], min_bins_per_pixel=V[cfg["min_bins_per_pixel"]], name=V[cfg["name"]])
    if cls == "CzernyTurnerSpectrometer":
        return C(V[cfg["diffraction_order"]], V[cfg["grating"]], V[cfg["focal_length"]], V[cfg["pixel_spacing"]],
                 V[cfg["diffraction_angle"]], V[cfg["accommodated_spectra"]], min_bins_per_pixel=V[cfg["min_bins_per_pixel"]],
                 name=V[cfg["name"]])
    return C(V[cfg["filters"]], min_bins_per_window=V[cfg["min_bins_per_window"]], name=V[cfg["name"]])


def _ckey(cls, cfg):
    return (cls,) + tuple(sorted(cfg.items()))


def _exc(e):
    return "EXC:" + type(e).__name__


def _try(f):
    try:
        return f()
    except Exception as e:  # noqa
        return _exc(e)


def _plain(x):
    """numpy scalars / arrays / nested containers -> plain hashable python values"""
    t = type(x)
    if t is float or t is int or t is str or x is None or t is bool:
        return x
    np = _W["np"]
    if t is np.ndarray:
        return tuple(x.tolist()) if x.ndim == 1 else tuple(_plain(v) for v in x.tolist())
    if isinstance(x, np.generic):
        return x.item()
    if t is tuple or t is list:
        return tuple(_plain(v) for v in x)
    k = _W["filter_key"].get(id(x))
    if k is not None:
        return "filter:" + k
    return "obj:" + type(x).__name__


def _kwargs_plain(kw):
    return tuple(tuple(sorted((str(k), _plain(v)) for k, v in d.items())) for d in kw)


def _pipelines_plain(pl):
    return tuple((type(p).__name__, p.name, _plain(getattr(p, "filter", None))) for p in pl)


PARAMS = {
    "Spectrometer": ("min_bins_per_pixel", "name"),
    "CzernyTurnerSpectrometer": ("diffraction_order", "grating", "focal_length", "pixel_spacing", "diffraction_angle",
                                 "accommodated_spectra", "min_bins_per_pixel", "name"),
    "Polychromator": ("min_bins_per_window", "name"),
}
S_GROUPS = ("spectral", "pixels", "params", "calibrate")
P_GROUPS = ("pipeline_kwargs", "pipeline_classes", "pipelines")


def observe(cls, inst, kind):
    """kind: 'S' spectral settings, 'P' pipeline settings, 'A' both.  Fixed read order."""
    out = {}
    if kind in ("S", "A"):
        out["spectral"] = (_try(lambda: _plain(inst.min_wavelength)), _try(lambda: _plain(inst.max_wavelength)),
                           _try(lambda: _plain(inst.spectral_bins)))
        if cls == "Polychromator":
            out["pixels"] = (_try(lambda: (type(inst.filters).__name__, _plain(inst.filters))),)
            out["calibrate"] = "n/a"
        else:
            out["pixels"] = (_try(lambda: _plain(inst.wavelengths)), _try(lambda: _plain(inst.wavelength_to_pixel)))
            out["calibrate"] = _try(lambda: _plain(inst.calibrate(_W["probe"])))
        out["params"] = tuple(_try(lambda a=a: _plain(getattr(inst, a))) for a in PARAMS[cls])
    if kind in ("P", "A"):
        out["pipeline_kwargs"] = _try(lambda: _kwargs_plain(inst.pipeline_kwargs))
        out["pipeline_classes"] = _try(lambda: tuple(c.__name__ for c in inst.pipeline_classes))
        out["pipelines"] = _try(lambda: _pipelines_plain(inst.create_pipelines()))
    return out


def fresh_obs(cls, cfg):
    k = _ckey(cls, cfg)
    r = _W["fresh"].get(k)
    if r is None:
        r = observe(cls, _build(cls, cfg), "A")
        _W["fresh"][k] = r
    return r


def ctor_outcome(cls, cfg):
    k = _ckey(cls, cfg)
    r = _W["ctor_outcome"].get(k)
    if r is None:
        try:
            _build(cls, cfg)
            r = "ok"
        except Exception as e:  # noqa
            r = _exc(e)
        _W["ctor_outcome"][k] = r
    return r


def cfg_class(cls, cfg):
    slot, key = EMPTY_SLOT[cls]
    return (slot + "=empty") if cfg[slot] == key else "regular"


def V(viol, sig, what, expected, observed):
    viol.append({"sig": "C16:" + sig, "what": what, "expected": expected, "observed": observed})


# ---------------------------------------------------------------------------------------------
# independent statements of the property on one observation
# ---------------------------------------------------------------------------------------------
def _is_exc(v):
    return isinstance(v, str) and v.startswith("EXC:")


def model_oracles(cls, cfg, inst, obs, fresh, viol, classes, hist):
    from fractions import Fraction as Fr
    Vv = _W["V"]
    ccl = cfg_class(cls, cfg)
    mn, mx, bins = obs["spectral"]
    spectral_ok = not any(_is_exc(v) for v in obs["spectral"])

    def bad(sig, what, exp, got):
        V(viol, "%s:model:%s:%s" % (cls, sig, ccl), what + " | history " + hist, exp, got)

    # parameter getters return what was set
    for a, got in zip(PARAMS[cls], obs["params"]):
        want = Vv[cfg[a]]
        if a in ("min_bins_per_pixel", "min_bins_per_window", "diffraction_order"):
            want = int(want)
        elif a == "name":
            want = str(want)
        else:
            want = _plain(want)
        if a == "diffraction_angle":
            # stored in radians, returned in degrees: two roundings
            ok = (not _is_exc(got)) and abs(got - want) <= 4e-16 * abs(want)
        else:
            ok = got == want
        if not ok:
            bad("getter:" + a, "getter of %s does not return the value set" % a, want, got)

    if cls == "Polychromator":
        keys = [k for k in _plain(Vv[cfg["filters"]])]
        fm = _W["filter_model"]
        names = {k: f.name for k, f in _W["filters"].items()}
        if obs["pixels"][0] != (type(Vv[cfg["filters"]]).__name__, tuple(keys)):
            bad("getter:filters", "filters getter does not return the filters set", keys, obs["pixels"][0])
        if spectral_ok and keys:
            lo = [Fr(fm[k[7:]][0]) - Fr(fm[k[7:]][1]) / 2 for k in keys]
            hi = [Fr(fm[k[7:]][0]) + Fr(fm[k[7:]][1]) / 2 for k in keys]
            eps = Fr(1, 10 ** 13)
            classes.append("model:range-covers")
            if not (Fr(mn) <= min(lo) * (1 + eps) and Fr(mx) >= max(hi) * (1 - eps)):
                bad("range-covers", "spectral range does not cover every filter", [float(min(lo)), float(max(hi))], [mn, mx])
            narrow = min(Fr(fm[k[7:]][1]) for k in keys)
            mb = int(Vv[cfg["min_bins_per_window"]])
            classes.append("model:bin-width")
            if not (isinstance(bins, int) and bins >= 1 and (Fr(mx) - Fr(mn)) / bins <= narrow / mb * (1 + Fr(1, 10 ** 12))):
                bad("bin-width", "bin width exceeds narrowest window / min_bins_per_window", float(narrow / mb),
                    {"min": mn, "max": mx, "bins": bins})
        # one pipeline per filter, carrying that filter and named after instrument and filter
        nm = str(Vv[cfg["name"]])
        for grp in ("pipeline_kwargs", "pipelines"):
            got = obs[grp]
            if _is_exc(got):
                if fresh[grp] == got:
                    classes.append("obs:%s:%s-raises-%s-on-fresh-and-live" % (cls, grp, got[4:]))
                continue  # a difference is reported by the differential oracle
            classes.append("model:pipelines")
            if grp == "pipeline_kwargs":
                recs = [(dict(d).get("filter"), dict(d).get("name")) for d in got]
            else:
                recs = [(p[2], p[1]) for p in got]
            okp = len(recs) == len(keys) and all(r[0] == k and isinstance(r[1], str) and nm in r[1] and names[k[7:]] in r[1]
                                                 for r, k in zip(recs, keys))
            if not okp:
                bad(grp, "%s are not one per filter (in order, with the filter, named after instrument and filter)" % grp,
                    [(k, nm, names[k[7:]]) for k in keys], recs)
        return

    # spectrometers -------------------------------------------------------------------------
    centres, edges = obs["pixels"]
    if _is_exc(centres) or _is_exc(edges):
        bad("pixels:raises", "wavelengths / wavelength_to_pixel raise", "arrays", [centres, edges])
        return
    if cls == "Spectrometer":
        want = tuple(tuple(float(x) for x in _W["np"].asarray(a, dtype=float).tolist()) for a in Vv[cfg["wavelength_to_pixel"]])
        if edges != want:
            bad("wavelength_to_pixel", "wavelength_to_pixel differs from the arrays set", want, edges)
    else:
        acc = Vv[cfg["accommodated_spectra"]]
        okc = len(edges) == len(acc) and all(len(e) == int(p) + 1 and e[0] == float(w) for e, (w, p) in zip(edges, acc))
        if not okc:
            bad("ct-layout", "pixel arrays do not start at the accommodated min_wavelength with pixels+1 edges",
                [(float(w), int(p) + 1) for w, p in acc], [(e[0] if e else None, len(e)) for e in edges])
        # consistency: edge[i+1] - edge[i] is the resolution at edge[i] for the *current* optical parameters
        worst = 0.0
        for e in edges:
            for i in range(len(e) - 1):
                r = float(inst.resolution(e[i]))
                worst = max(worst, abs(e[i + 1] - (e[i] + r)) / abs(e[i]))
        classes.append("model:ct-recurrence")
        if not worst <= 1e-13:
            bad("ct-recurrence", "pixel edges are not consistent with resolution() at the current parameters (relative defect)", "<= 1e-13", worst)
    # pixel centres
    for e, c in zip(edges, centres):
        want = [float((Fr(e[i]) + Fr(e[i + 1])) / 2) for i in range(len(e) - 1)]
        if len(c) != len(want) or any(abs(x - y) > 4e-16 * abs(y) for x, y in zip(c, want)):
            bad("wavelengths", "wavelengths are not the pixel centres", want, c)
            break
    if len(centres) != len(edges):
        bad("wavelengths", "number of wavelength arrays differs from number of pixel arrays", len(edges), len(centres))
    if spectral_ok and edges:
        classes.append("model:range-covers")
        if not (all(mn <= x <= mx for e in edges for x in e)):
            bad("range-covers", "spectral range does not cover every pixel", [min(e[0] for e in edges), max(e[-1] for e in edges)], [mn, mx])
        narrow = min(Fr(e[i + 1]) - Fr(e[i]) for e in edges for i in range(len(e) - 1))
        mb = int(Vv[cfg["min_bins_per_pixel"]])
        classes.append("model:bin-width")
        if not (isinstance(bins, int) and bins >= 1 and (Fr(mx) - Fr(mn)) / bins <= narrow / mb * (1 + Fr(1, 10 ** 12))):
            bad("bin-width", "bin width exceeds narrowest pixel / min_bins_per_pixel", float(narrow / mb), {"min": mn, "max": mx, "bins": bins})
    # pipelines: one spectral pipeline named after the instrument
    nm = str(Vv[cfg["name"]])
    for grp in ("pipeline_kwargs", "pipeline_classes", "pipelines"):
        got = obs[grp]
        if _is_exc(got):
            if spectral_ok and edges:
                # a validly configured instrument (its spectral settings can be read) whose pipeline settings cannot: they do not
                # "equal those of an instrument constructed directly", they do not exist (the class docstring itself calls create_pipelines())
                bad(grp + ":raises:" + got[4:], "%s cannot be read on a validly configured instrument" % grp, "one spectral pipeline named %r" % nm, got)
            elif fresh[grp] == got:
                classes.append("obs:%s:%s-raises-%s-on-fresh-and-live" % (cls, grp, got[4:]))
            continue
        classes.append("model:pipelines")
        if grp == "pipeline_kwargs":
            okp = len(got) == 1 and dict(got[0]).get("name") == nm
        elif grp == "pipelines":
            okp = len(got) == 1 and got[0][1] == nm
        else:
            okp = len(got) == 1
        if not okp:
            bad(grp, "%s is not a single entry named after the instrument" % grp, nm, got)


# ---------------------------------------------------------------------------------------------
# engine H
# ---------------------------------------------------------------------------------------------
def _explain(cls, cfgs, opslots, group, value):
    """which op does a stale value date from: the op right after the latest configuration whose fresh value is the one seen"""
    for j in range(len(cfgs) - 2, -1, -1):
        if fresh_obs(cls, cfgs[j])[group] == value:
            return "stale-since=" + opslots[j]
    return "not-stale"


def run_history(cls, init, ops, seq, kinds, res):
    """kinds[i] in ('', 'S', 'P', 'A'): what is read before op i."""
    viol, classes = res["viol"], res["classes"]
    cfg = dict(init)
    live = _build(cls, cfg)
    cfgs = [dict(cfg)]
    opslots = []
    hist = "%s(%s)" % (cls, ",".join("%s=%s" % kv for kv in sorted(cfg.items())))

    def compare(obs, where, first=True):
        fr = fresh_obs(cls, cfg)
        for g, val in obs.items():
            if val != fr[g]:
                ex = _explain(cls, cfgs, opslots, g, val)
                V(viol, "%s:live!=fresh:%s:%s:%s" % (cls, g, ex, cfg_class(cls, cfg)),
                  "%s of the live instrument differs from a freshly constructed one (%s) | history %s" % (g, where, hist), fr[g], val)
        return fr

    for i, oi in enumerate(seq):
        k = kinds[i]
        if k:
            compare(observe(cls, live, k), "read before op %d" % i)
            res["transitions"] += 1
            hist += " ; read(%s)" % k
        slot, key = ops[oi]
        new = dict(cfg)
        new[slot] = key
        want = ctor_outcome(cls, new)
        try:
            setattr(live, slot, _W["V"][key])
            got = "ok"
        except Exception as e:  # noqa
            got = _exc(e)
        res["transitions"] += 1
        hist += " ; %s=%s" % (slot, key)
        vcl = VALUE_CLASS.get(key, "valid")
        if got != want:
            V(viol, "%s:setter-vs-constructor:%s:%s:%s-vs-%s" % (cls, slot, vcl, got.replace("EXC:", ""), want.replace("EXC:", "")),
              "setter outcome differs from the constructor's for the same value | history " + hist, want, got)
        changed = want == "ok" and new != cfg
        res["states"].add((cls, _ckey(cls, cfg), k))
        if want != "ok":
            classes.append("op:rejected")
        elif changed:
            classes.append("op:changes-config")
        else:
            classes.append("op:same-value")
        classes.append("op:after-read" if k else "op:cold")
        if changed or want != "ok":
            res["nontrivial"].add((cls, _ckey(cls, cfg), k, oi))
        if want == "ok":
            cfg = new
        opslots.append(slot + ("(rejected)" if want != "ok" else ""))
        cfgs.append(dict(cfg))
    # final: read everything twice
    o1 = observe(cls, live, "A")
    fr = compare(o1, "final read")
    o2 = observe(cls, live, "A")
    if o2 != o1:
        compare(o2, "second final read")
    res["transitions"] += 2
    res["states"].add((cls, _ckey(cls, cfg), "final"))
    if cfg_class(cls, cfg) != "regular":
        classes.append("cfg:empty")
    # the independent oracles are a function of (configuration, observation): evaluate each distinct pair once per case
    mk = (_ckey(cls, cfg), tuple(sorted(o1.items())))
    memo = res["model_memo"].get(mk)
    if memo is None:
        mv, mc = [], []
        model_oracles(cls, cfg, live, o1, fr, mv, mc, hist)
        res["model_memo"][mk] = memo = (mv, mc)
    viol.extend(memo[0])
    classes.extend(memo[1])
    res["n"] += 1
    return o1


def _kinds_sets(tier, cls, init, length):
    """what is read before each op.  quick: nothing / everything.  thorough: length <= 3 nothing / spectral / pipeline / everything
    (CzernyTurner: nothing / spectral / everything on the first initial configuration, nothing / everything on the second);
    length 4: everything before every op."""
    if length > 3:
        return [("A",) * length]
    if tier == "quick" or (cls == "CzernyTurnerSpectrometer" and init == 1):
        return list(itertools.product(("", "A"), repeat=length))
    if cls == "CzernyTurnerSpectrometer":
        return list(itertools.product(("", "S", "A"), repeat=length))
    return list(itertools.product(("", "S", "P", "A"), repeat=length))


def run_H(case):
    tier = _W["tier"]
    cls = case["cls"]
    ops, inits = _ops(cls, tier)
    init = inits[case["init"]]
    maxlen = 3 if tier == "quick" else 4
    if cls == "CzernyTurnerSpectrometer" and case["init"] == 1:
        maxlen = 3
    res = {"viol": [], "classes": ["H:" + cls], "n": 0, "states": set(), "transitions": 0, "nontrivial": set(), "model_memo": {}}
    prefix = tuple(case["prefix"])
    if not prefix:
        seqs = [()] + [(a,) for a in range(len(ops))]
    else:
        seqs = [prefix + s for L in range(0, maxlen - len(prefix) + 1) for s in itertools.product(range(len(ops)), repeat=L)]
    outc = 0
    for seq in seqs:
        for kinds in _kinds_sets(tier, cls, case["init"], len(seq)):
            o = run_history(cls, init, ops, seq, kinds, res)
            outc = zlib.crc32(repr(sorted(o.items())).encode(), outc)
    # collapse: one record per signature
    seen, viol = set(), []
    for v in res["viol"]:
        if v["sig"] not in seen:
            seen.add(v["sig"])
            viol.append(v)
    return {"viol": viol, "classes": res["classes"], "outcome": (cls, case["init"], prefix, outc, len(seen)), "n": res["n"],
            "states": res["states"], "transitions": res["transitions"], "nontrivial": res["nontrivial"]}


# ---------------------------------------------------------------------------------------------
# engine L: calibration
# ---------------------------------------------------------------------------------------------
def _samples(pattern, n):
    if pattern == "ramp":
        return [i + 1 for i in range(n)]
    if pattern == "alternating":
        return [3 if i % 2 == 0 else 0 for i in range(n)]
    if pattern == "spike":
        return [7 if i == n // 2 else 0 for i in range(n)]
    if pattern == "constant":
        return [2] * n
    if pattern == "squares":
        return [((n - i) * (n - i)) % 10 for i in range(n)]
    return [(i * 7 + 3) % 10 for i in range(n)]


def layouts(smin, smax, bins, tier):
    d = (smax - smin) / bins
    out = []

    def add(label, es):
        es = [min(max(float(e), smin), smax) for e in es]
        # strictly increasing after clipping to the spectrum's range
        mono = [es[0]] if es else []
        for e in es[1:]:
            if e > mono[-1]:
                mono.append(e)
        if len(mono) >= 2:
            out.append((label, mono))

    add("aligned", [smin + j * d for j in range(bins)] + [smax])
    if bins >= 2:
        add("aligned-span2", [smin + j * d for j in range(0, bins, 2)] + ([smax] if bins % 2 == 0 else []))
        add("half-offset", [smin + (j + 0.5) * d for j in range(bins)])
    add("single-full", [smin, smax])
    es, x = [], smin + d * (math.sqrt(2.) - 1.)
    while x <= smax:
        es.append(x)
        x += d * math.pi / 8
    add("irrational", es)
    add("sub-bin-first", [smin + d * f for f in (0, 0.1, 0.35, 0.5, 0.8, 1.0)])
    add("sub-bin-last", [smax - d * f for f in (1.0, 0.8, 0.5, 0.35, 0.1, 0)])
    add("sub-bin-mid", [smin + d * (bins // 2) + d * f for f in (0.2, 0.45, 0.5, 0.55, 0.9)])
    es, x, k = [], smin + 0.05 * d, 0
    widths = (0.3, 1.7, 0.05, 2.9, 0.45, 1.0, 0.7, 3.3)
    while x <= smax and len(es) < 24:
        es.append(x)
        x += d * widths[k % len(widths)]
        k += 1
    add("nonuniform", es)
    add("interior-wide", [smin + 0.25 * d, smax - 0.25 * d])
    c = smin + (bins // 2 + 0.5) * d
    add("tiny-at-centre", [c - 1e-6 * d, c + 1e-6 * d])
    if tier != "quick":
        if bins >= 3:
            add("aligned-span3", [smin + j * d for j in range(0, bins, 3)] + ([smax] if bins % 3 == 0 else []))
        add("quarter-offset", [smin + (j + 0.25) * d for j in range(bins)] + [smax])
        es, x = [], smin + d * (math.e - 2.)
        while x <= smax:
            es.append(x)
            x += d * math.sqrt(3.) / 4
        add("irrational2", es)
        e0 = smin + (bins // 2) * d
        add("tiny-at-edge", [e0 - 1e-6 * d, e0, e0 + 1e-6 * d])
    return out


def check_calibration(inst, cname, lay, smin, smax, samples, ref, refcache, viol, classes):
    """lay: list of (label, edges) the instrument was built with (edges as the instrument reports them)."""
    from fractions import Fraction as Fr
    from raysect.optical import Spectrum
    sp = Spectrum(smin, smax, len(samples))
    sp.samples[:] = samples
    peak = max(samples) or 1
    na = len(lay)
    lo, hi = min(e[0] for _, e in lay), max(e[-1] for _, e in lay)
    rclass = "range-equal" if (lo == smin and hi == smax) else "range-wider"
    classes.append("L:" + rclass)
    classes.append("L:arrays=%d" % min(na, 3))
    try:
        cal = inst.calibrate(sp)
    except Exception as e:  # noqa
        V(viol, "calibrate:%s:covering-spectrum-rejected:%s" % (cname, rclass),
          "calibrate() raised for a spectrum whose range covers the instrument's", "calibrated arrays", _exc(e))
        return 0
    if len(cal) != na:
        V(viol, "calibrate:%s:number-of-arrays:arrays=%d" % (cname, na), "calibrate() returned a wrong number of arrays", na, len(cal))
        return 0
    d = (Fr(smax) - Fr(smin)) / len(samples)
    # tolerance, relative to max(|integral|, peak x width): raysect stores the bin centres as doubles (each within ~2 ulp of
    # the exact centre) and the interpolant's slope is at most peak/delta, so the integrand is uncertain by
    # 4 ulp(max)/delta x peak; plus 1e-12 for the float arithmetic of integrate() and of the division by the width
    rtol = Fr(1, 10 ** 12) + 4 * Fr(math.ulp(smax)) / d
    npix = 0
    for (label, edges), arr in zip(lay, cal):
        arr = [float(x) for x in arr]
        if len(arr) != len(edges) - 1:
            V(viol, "calibrate:%s:number-of-pixels" % cname, "layout " + label + ": wrong number of calibrated pixels", len(edges) - 1, len(arr))
            continue
        key = (label, tuple(edges))
        rr = refcache.get(key)
        if rr is None:
            rr = [ref.integral(edges[i], edges[i + 1]) for i in range(len(edges) - 1)]
            refcache[key] = rr
        tot_obs = Fr(0)
        for i in range(len(arr)):
            w = Fr(edges[i + 1]) - Fr(edges[i])
            got = Fr(arr[i]) * w
            tot_obs += got
            npix += 1
            if w < d:
                pcl = "narrower-than-bin"
                classes.append("L:pixel-sub-bin")
            elif w > 2 * d:
                pcl = "spans-several-bins"
                classes.append("L:pixel-spans-several")
            else:
                pcl = "about-one-bin"
            if abs(got - rr[i]) > rtol * max(abs(rr[i]), peak * w):
                V(viol, "calibrate:%s:pixel-integral:%s:%s" % (cname, pcl, "first-pixel" if i == 0 else "later-pixel"),
                  "value x width of a calibrated pixel differs from the exact integral of the spectrum over the pixel "
                  "(spectrum %r..%r, %d bins, samples %r; layout %s in an instrument of %d arrays, pixel %d = [%r, %r])"
                  % (smin, smax, len(samples), samples if len(samples) <= 20 else "...", label, na, i, edges[i], edges[i + 1]),
                  float(rr[i]), float(got))
                break
        else:
            span = ref.integral(edges[0], edges[-1])
            if abs(tot_obs - span) > rtol * max(abs(span), peak * (Fr(edges[-1]) - Fr(edges[0]))):
                V(viol, "calibrate:%s:additivity" % cname, "layout " + label + ": sum of value x width differs from the integral over the pixel span",
                  float(span), float(tot_obs))
            if edges[0] == smin and edges[-1] == smax:
                classes.append("L:full-span-total")
                tot = ref.histogram_total()
                if abs(tot_obs - tot) > rtol * max(abs(tot), peak * (Fr(smax) - Fr(smin))):
                    V(viol, "calibrate:%s:total-not-conserved" % cname,
                      "layout " + label + ": pixels tile the whole spectrum but sum of value x width differs from sum of samples x bin width", float(tot), float(tot_obs))
    return npix


def run_L(case):
    from cherab.tools.spectroscopy import Spectrometer
    from mc.refs.spectrum_pl import PLSpectrum
    tier = _W["tier"]
    ranges = L_RANGES_Q if tier == "quick" else L_RANGES_T
    smin, smax = ranges[case["range"]]
    nb = case["bins"]
    samples = _samples(case["pattern"], nb)
    ref = PLSpectrum(smin, smax, samples)
    lays = layouts(smin, smax, nb, tier)
    viol, classes, nontrivial = [], [], []
    refcache = {}
    n = 0
    combos = [(a,) for a in range(len(lays))]
    combos += [(a, b) for a in range(len(lays)) for b in range(len(lays))]
    combos += [(a, (a + 1) % len(lays), (a + 2) % len(lays)) for a in range(len(lays))]
    outc = 0
    for combo in combos:
        lay = [lays[i] for i in combo]
        inst = Spectrometer([e for _, e in lay], min_bins_per_pixel=1, name="L")
        # the instrument stores exactly the doubles handed in
        lay_i = [(l, [float(x) for x in w.tolist()]) for (l, _), w in zip(lay, inst.wavelength_to_pixel)]
        if [e for _, e in lay_i] != [e for _, e in lay]:
            V(viol, "calibrate:Spectrometer:edges-altered", "wavelength_to_pixel differs from the arrays passed", [e for _, e in lay], [e for _, e in lay_i])
        n += check_calibration(inst, "Spectrometer", lay_i, smin, smax, samples, ref, refcache, viol, classes)
        nontrivial.append((case["range"], nb, case["pattern"], combo))
        outc += 1
    # spectra narrower than the instrument must be refused (calibrate documents a covering spectrum)
    from raysect.optical import Spectrum
    d = (smax - smin) / nb
    sp = Spectrum(smin, smax, nb)
    sp.samples[:] = samples
    narrower = [("below", [[smin - 0.5 * d, smin + 0.5 * d]]), ("above", [[smax - 0.5 * d, smax + 0.5 * d]]),
                ("ulp-below", [[math.nextafter(smin, -math.inf), smax]]), ("ulp-above", [[smin, math.nextafter(smax, math.inf)]]),
                ("second-array-above", [[smin, smin + 0.5 * d], [smax - 0.25 * d, smax + 0.25 * d]])]
    for label, arrs in narrower:
        inst = Spectrometer(arrs, name="N")
        r = _try(lambda: [list(a) for a in inst.calibrate(sp)])
        classes.append("L:narrower-rejected")
        n += 1
        if r != "EXC:ValueError":
            V(viol, "calibrate:Spectrometer:narrower-spectrum-not-rejected:" + label,
              "calibrate() accepted a spectrum that does not cover the instrument's range", "ValueError", r)
    seen, vv = set(), []
    for v in viol:
        if v["sig"] not in seen:
            seen.add(v["sig"])
            vv.append(v)
    return {"viol": vv, "classes": classes, "outcome": ("L", case["range"], nb, case["pattern"], n, len(seen)), "n": n,
            "states": [(case["range"], nb, case["pattern"], i) for i in range(len(lays))], "transitions": outc + len(narrower),
            "nontrivial": nontrivial}


def run_LCT(case):
    from mc.refs.spectrum_pl import PLSpectrum
    ci = case["cfg"]
    cfg = {"diffraction_order": "m2" if ci & 1 else "m1", "grating": "g2" if ci & 2 else "g1", "focal_length": "f1", "pixel_spacing": "p1",
           "diffraction_angle": "a20" if ci & 4 else "a10", "accommodated_spectra": ("A1", "A2", "A3")[ci % 3], "min_bins_per_pixel": "mb1", "name": "na"}
    inst = _build("CzernyTurnerSpectrometer", cfg)
    lay = [("ct-array%d" % k, [float(x) for x in w.tolist()]) for k, w in enumerate(inst.wavelength_to_pixel)]
    lo, hi = min(e[0] for _, e in lay), max(e[-1] for _, e in lay)
    viol, classes, n = [], ["L:CzernyTurner"], 0
    tier = _W["tier"]
    spans = [(float(math.floor(lo) - 1), float(math.ceil(hi) + 1)), (lo, hi)]
    for smin, smax in spans:
        for nb in ([5, 17, 300] if tier == "quick" else [1, 5, 17, 300, 4001]):
            for pat in ("ramp", "mixed"):
                samples = _samples(pat, nb)
                ref = PLSpectrum(smin, smax, samples)
                n += check_calibration(inst, "CzernyTurnerSpectrometer", lay, smin, smax, samples, ref, {}, viol, classes)
    seen, vv = set(), []
    for v in viol:
        if v["sig"] not in seen:
            seen.add(v["sig"])
            vv.append(v)
    return {"viol": vv, "classes": classes, "outcome": ("LCT", ci, n, len(seen)), "n": n, "states": [("LCT", ci)], "transitions": 20,
            "nontrivial": [("LCT", ci)]}


def run_case(case):
    if not _W:
        setup_worker("quick")
    if case["kind"] == "H":
        return run_H(case)
    if case["kind"] == "L":
        return run_L(case)
    return run_LCT(case)
