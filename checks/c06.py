"""C06 - rate repository as a key-value store (engine H).

Every history of add_* / update_* / install_* operations up to the bound is executed on a fresh scratch
repository directory; after EVERY operation EVERY key of EVERY family (all spellings of the transition twins
included) is read back through the matching get_* function and compared with a dict reference model
(mc/refs/c06_model.py): written keys bit for bit, never-written keys RuntimeError, nothing outside the
repository directory, caller's payload unchanged, rejected updates leave stored keys readable.

When a read disagrees with the model the violation is attributed to the operation just executed and the model
*adopts the observed content* of that key, so that the rest of the history is still explored and one defect
does not echo through the following steps.
"""
import collections
import contextlib
import io
import itertools
import os
import shutil
import sys
import tempfile

from mc.refs import c06_model as M

PROPERTY = "C06"
DRIVER = ("one scratch repository directory per history (created by the code under test), scratch $HOME and scratch cwd; "
          "14 add_*/update_*/get_* families + 11 install_adf* front-ends fed with tiny fixed ADF files; dict reference model")
_OPS = M.build_alphabet()
_UNIVERSE = M.read_universe(_OPS)
_BYGROUP = {g: [o["i"] for o in _OPS if o["group"] == g] for g in M.GROUPS}
_COREGROUP = {g: [o["i"] for o in _OPS if o["group"] == g and o["core"]] for g in M.GROUPS}



def _unit(o):
    fams = {it[0] for it in o["items"]}
    if fams <= {"pexc", "prec"}:
        return "pexc+prec"
    return next(iter(fams)) if len(fams) == 1 else None


_UNITS = collections.OrderedDict()
for _o in _OPS:
    if _o["core"] and _unit(_o):
        _UNITS.setdefault(_unit(_o), []).append(_o["i"])

ALPHABET = {
    "families": {f: {"add": d["add"], "update": d["upd"], "get": d["get"], "key": list(d["key"]), "group": d["group"]} for f, d in M.FAMILIES.items()},
    "species": "hydrogen, carbon, deuterium (Isotope)",
    "charges": "0, 1 (+ 2 for carbon via ADF files; out-of-range charges as invalid input)",
    "transitions": [M.TI, M.TS, M.TU, "read also as " + repr(M.TI_STR), "never written " + repr(M.T_NEVER)],
    "metastables": [1, 2, "-1 as invalid input"],
    "payloads": "T1: lists, 2x3 tables; T2: numpy arrays, 3x2 tables with awkward float64 (0.1+0.2, 1/3, 5e-324, DBL_MAX, -0.0, "
                "subnormals, 2^53+1); T3: single-point tables; BAD: inconsistent shapes / non-numeric wavelength; every table unique (salt)",
    "operations": len(_OPS),
    "operations_by_function": dict(sorted(collections.Counter(o["fn"] for o in _OPS).items())),
    "operations_by_input_class": dict(sorted(collections.Counter(o["icls"] for o in _OPS).items())),
    "core_operations_per_group": {g: len(v) for g, v in _COREGROUP.items()},
    "operations_per_group": {g: len(v) for g, v in _BYGROUP.items()},
    "core_operations_per_family_unit": {u: len(v) for u, v in _UNITS.items()},
    "keys_read_after_every_operation": len(_UNIVERSE),
    "install": "install_adf11scd/acd/ccd/plt/prb/prc, install_adf12, install_adf15 (without / with a CHEXC block), install_adf21, "
               "install_adf22bmp, install_adf22bme; two files (A, B) each",
}
BOUND = {
    "quick": "all histories of length 0, 1 and 2 over the full alphabet; all histories of length 3 over the core operations of each "
             "collision group (adf11: ionisation/recombination/thermal CX; power: line/continuum/CX; pec: PEC x3 + wavelength; beam x4)",
    "thorough": "quick + all histories of length 3 over the full alphabet of each collision group + all histories of length 4 over the "
                "core operations of each single family (PEC excitation and recombination, which share update_pec_rates, as one unit)",
}
RULE = ("one history = one fresh repository directory, operations applied in order, full read-back of all keys after each; cases batch "
        "histories sharing a prefix; a history is non-trivial when an operation after the first one touches a key (or a key documented "
        "to live in the same file) that an earlier operation of the history touched, or is rejected while the repository is not empty; "
        "keyed by the tuple of operation indices")
ASSUMPTIONS = [
    "payload entry names: the six ADF11-type families (ionisation, recombination, thermal CX, line/continuum/CX power) take the table "
    "under 'rates' (what install_* passes and the code reads) although their docstrings say 'rate'; all others as documented",
    "add_thermal_cx_rate is called with the documented parameter list (donor_element, donor_charge, receiver_element, receiver_charge, rate)",
    "update_beam_stopping_rates takes {beam: {target: {charge: rate}}} (its 'where' list; the one-line form in the docstring shows a metastable level)",
    "within ONE update call two spellings of the same transition (case twins) may be applied in either order",
    "after a rejected call every key named in that call may hold its old or its new content; all other keys must be unchanged",
    "install_*: key placement as visible in install.py (scd/plt charge = Z1-1; acd/ccd/prb/prc charge = Z1; ADF15 CHEXC -> thermal CX PEC "
    "of donor H0 and receiver charge+1, td = [0.01, 1e4]); values compared with float(text) x unit conversion at rel 1e-12 "
    "(unit conversion is not bit-specified); parser correctness itself is C08's subject",
    "files outside the repository are looked for in $HOME (scratch, per worker), in the scratch current directory and next to the repository directory",
]
_FNS = sorted({o["fn"] for o in _OPS})
REQUIRED_CLASSES = (["op:" + f for f in _FNS] +
                    ["icls:" + c for c in sorted({o["icls"] for o in _OPS})] +
                    ["overwrite", "sibling-write", "twin-overwrite", "rejected-with-stored-keys", "partial-applied",
                     "never-written-raises-RuntimeError", "read:value", "empty-repository-readback", "other-family-present-during-write",
                     "history:len=0", "history:len=1", "history:len=2", "history:len=3", "rejected"])
# caps, not expectations (quick ~45 s, thorough ~5 min on 16 idle cores); VERIF_BUDGET_SCALE stretches them on a loaded machine
_SCALE = float(os.environ.get("VERIF_BUDGET_SCALE", "1") or 1)
BUDGET_S = {"quick": int(600 * _SCALE), "thorough": int(3000 * _SCALE)}
CHUNK = 2
STATES_MEANING = "distinct model states (set of (family, key, metastable, id of the table last written)) reached after an operation"

_CTX = None


def crash_label(case):
    return case.get("label", "case")


# ---------------------------------------------------------------------------------------------------------
# enumeration
# ---------------------------------------------------------------------------------------------------------
def _chunks(seq, n):
    for i in range(0, len(seq), n):
        yield seq[i:i + n]


def cases(tier):
    out = []
    allops = [o["i"] for o in _OPS]
    out.append({"label": "len<=1", "prefix": [], "lasts": [-1] + allops})
    for a in allops:
        for ch in _chunks(allops, 49):
            out.append({"label": "pairs", "prefix": [a], "lasts": ch})
    for g in M.GROUPS:
        core = _COREGROUP[g]
        for a in core:
            for b in core:
                out.append({"label": "triples:" + g + ":core", "prefix": [a, b], "lasts": core})
    if tier == "thorough":
        for g in M.GROUPS:
            full = _BYGROUP[g]
            core = set(_COREGROUP[g])
            for a in full:
                for b in full:
                    lasts = [c for c in full if not (a in core and b in core and c in core)]
                    out.append({"label": "triples:" + g, "prefix": [a, b], "lasts": lasts})
        for u, core in _UNITS.items():
            for a in core:
                for b in core:
                    for c3 in core:
                        out.append({"label": "quads:" + u, "prefix": [a, b, c3], "lasts": core})
    return out


# ---------------------------------------------------------------------------------------------------------
# worker context
# ---------------------------------------------------------------------------------------------------------
class _Ctx:
    pass


def setup_worker(tier):
    global _CTX
    if _CTX is not None:
        return
    scratch = os.environ.get("VERIF_SCRATCH")
    if not scratch or not os.path.isdir(scratch):
        scratch = tempfile.mkdtemp(prefix="c06_")
        os.environ["VERIF_SCRATCH"] = scratch
    c = _Ctx()
    c.base = tempfile.mkdtemp(prefix="c06w_", dir=scratch)
    # a private $HOME per worker so that a file written to the default repository by one worker is not seen by another
    # (DEFAULT_REPOSITORY_PATH is computed when cherab.openadas.repository is first imported)
    if "cherab.openadas.repository.utility" not in sys.modules:
        home = os.path.join(c.base, "home")
        os.mkdir(home)
        os.environ["HOME"] = home
    from cherab.core.atomic import hydrogen, carbon, deuterium
    from cherab.openadas import repository
    from cherab.openadas import install as inst
    c.home = os.path.expanduser("~")
    c.default_repo = repository.DEFAULT_REPOSITORY_PATH
    rh = os.path.realpath(c.home)
    if not any(rh.startswith(os.path.realpath(p) + os.sep) for p in (scratch, "/dev/shm", tempfile.gettempdir())) \
            or not os.path.realpath(c.default_repo).startswith(rh + os.sep):
        raise RuntimeError("C06 refuses to run: $HOME (%s) / default repository (%s) is not a scratch location" % (c.home, c.default_repo))
    c.watch = sorted({os.path.join(c.home, ".cherab"), c.default_repo.split(os.sep + "openadas")[0]})
    c.home_listing = sorted(os.listdir(c.home))
    c.sp = {"h": hydrogen, "c": carbon, "d": deuterium}
    c.repo = repository
    c.inst = inst
    c.fn = {}
    for f in M.FAMILIES.values():
        for k in ("add", "upd", "get"):
            c.fn[f[k]] = getattr(repository, f[k])
    for o in _OPS:
        if o["mode"] == "inst":
            c.fn[o["fn"]] = getattr(inst, o["fn"])
    c.adas = os.path.join(c.base, "adas")
    files, c.file_exp = M.adas_files()
    for rel, text in files.items():
        p = os.path.join(c.adas, rel)
        os.makedirs(os.path.dirname(p), exist_ok=True)
        with open(p, "w") as fh:
            fh.write(text)
    c.start_cwd = os.getcwd()
    # read plan: (family, key as written in the universe, slot, python arguments)
    c.reads = []
    for fam, key in _UNIVERSE:
        c.reads.append((fam, key, M.slot_of(fam, key), tuple(_pyarg(c, x) for x in key), c.fn[M.FAMILIES[fam]["get"]], M.FAMILIES[fam]["kind"]))
    _CTX = c


def _pyarg(c, x):
    if isinstance(x, str):
        return c.sp[x]
    if isinstance(x, (list, tuple)):
        return tuple(x)
    return x


# ---------------------------------------------------------------------------------------------------------
# driving the real code
# ---------------------------------------------------------------------------------------------------------
def _nest_path(c, fam, key, sub):
    k = [_pyarg(c, x) for x in key]
    if fam == "pexc":
        return ["excitation"] + k
    if fam == "prec":
        return ["recombination"] + k
    if fam == "bcx":
        return k + [sub]
    return k


def _call(c, op, rp):
    """Build the arguments of one operation and call the real function.  -> (exception name | None, payload objects)"""
    objs = []
    if op["mode"] == "inst":
        args = [_pyarg(c, x) for x in op["args"]]
        try:
            with contextlib.redirect_stdout(io.StringIO()):
                c.fn[op["fn"]](*args, op["file"], download=False, repository_path=rp, adas_path=c.adas)
        except Exception as e:  # noqa
            return type(e).__name__, objs, str(e)
        return None, objs, None
    for fam, key, pay, sub in op["items"]:
        objs.append(M.make_payload(fam, pay)[0])
    fn = c.fn[op["fn"]]
    try:
        if op["mode"] == "add":
            fam, key, pay, sub = op["items"][0]
            k = [_pyarg(c, x) for x in key]
            if fam == "bcx":   # add_beam_cx_rate(donor_ion, donor_metastable, receiver_ion, receiver_charge, transition, rate)
                k = [k[0], sub, k[1], k[2], k[3]]
            fn(*k, objs[0], repository_path=rp)
        else:
            tree = {}
            for (fam, key, pay, sub), obj in zip(op["items"], objs):
                path = _nest_path(c, fam, key, sub)
                d = tree
                for p in path[:-1]:
                    d = d.setdefault(p, {})
                d[path[-1]] = obj
            fn(tree, repository_path=rp)
    except Exception as e:  # noqa
        return type(e).__name__, objs, str(e)
    return None, objs, None


def _read_all(c, rp):
    """-> list aligned with c.reads of ('e', exception name) | ('v', {sub: content})"""
    out = []
    for fam, key, slot, args, get, kind in c.reads:
        try:
            r = get(*args, repository_path=rp)
        except Exception as e:  # noqa
            out.append(("e", type(e).__name__))
            continue
        if fam == "bcx":
            d = {}
            try:
                for m, rate in r:
                    if m in d:
                        d[("dup", m)] = {"<return>": "DUPLICATE"}
                    d[m] = M.extract(rate, kind)
            except Exception as e:  # noqa
                d = {None: {"<return>": "TYPE:" + type(r).__name__}}
            out.append(("v", d))
        else:
            out.append(("v", {None: M.extract(r, kind)}))
    return out


def _tree_files(root):
    out = []
    for dp, dn, fn in os.walk(root):
        for f in fn:
            out.append(os.path.relpath(os.path.join(dp, f), root))
    return sorted(out)


# ---------------------------------------------------------------------------------------------------------
# model side
# ---------------------------------------------------------------------------------------------------------
def _matches(obs, cand):
    """obs: ('e', name) | ('v', {sub: content}); cand: ('e', name) | {sub: (content, tag, approx)}"""
    if isinstance(cand, tuple):
        return obs == cand
    if obs[0] == "e":
        return (not cand) and obs[1] == "RuntimeError"
    d = obs[1]
    if d.keys() != cand.keys() or not cand:
        return False
    return all(M.same_content(d[s], cand[s][0], cand[s][2]) for s in d)


def _candidates(old, writes, strict):
    """old: model value of the slot; writes: [(sub, content|None, tag, approx)] of this call on the slot."""
    base = {} if isinstance(old, tuple) else dict(old)
    cands = []
    if strict:
        orders = itertools.permutations(writes) if len(writes) > 1 else [tuple(writes)]
    else:
        good = [w for w in writes if w[1] is not None]
        orders = [tuple(x) for r in range(len(good) + 1) for x in itertools.combinations(good, r)]
        if isinstance(old, tuple):
            cands.append(old)
    for order in orders:
        d = dict(base)
        for sub, content, tag, approx in order:
            d[sub] = (content, tag, approx)
        cands.append(d)
    return cands


def _relation(fam_a, key_a, touched):
    """relation of an untouched slot to the slots written by the operation (labels only)."""
    rel = "other-family"
    for fam_b, key_b in touched:
        if fam_a == fam_b:
            n = M.FAMILIES[fam_a]["infile"]
            same_file = n > 0 and key_a[:len(key_a) - n] == key_b[:len(key_b) - n]
            if same_file:
                return "same-file-sibling"
            rel = "same-family-other-file"
    return rel


def _show_obs(o):
    if o[0] == "e":
        return "raises " + o[1]
    return {str(s): M.show(v) for s, v in o[1].items()}


def _show_cand(cand):
    if isinstance(cand, tuple):
        return "raises " + cand[1]
    if not cand:
        return "raises RuntimeError (never written)"
    return {str(s): M.show(v[0]) for s, v in cand.items()}


# ---------------------------------------------------------------------------------------------------------
# one history
# ---------------------------------------------------------------------------------------------------------
def _run_history(c, idxs, acc):
    viol, classes = acc["viol"], acc["classes"]
    work = tempfile.mkdtemp(prefix="h_", dir=c.base)
    rp = os.path.join(work, "repo")
    cwd = os.path.join(work, "cwd")
    os.mkdir(cwd)
    os.chdir(cwd)
    model = {}          # slot -> {sub: (content, tag, approx)} | ('e', name)
    spelling = {}       # (slot, sub) -> key spelling that wrote it last
    hist_names = []
    nontrivial = False
    touched_hist = []   # (fam, slot key) touched by earlier operations
    try:
        steps = [None] if not idxs else idxs
        for step in steps:
            op = None if step is None else _OPS[step]
            # ----- apply
            if op is None:
                exc, objs, msg = None, [], None
                fn, icls = "get", "empty-repository"
                classes["empty-repository-readback"] += 1
                writes_by_slot, touched = {}, []
                strict = True
            else:
                fn, icls = op["fn"], op["icls"]
                hist_names.append("%s[%s #%d]" % (fn, icls, op["i"]))
                before = None
                items = op["items"]
                acc["transitions"] += 1
                classes["op:" + fn] += 1
                classes["icls:" + icls] += 1
                if op["mode"] != "inst":
                    pre = [M.make_payload(f, p)[0] for f, k, p, s in items]
                    before = [M.payload_numbers(x) for x in pre]
                exc, objs, msg = _call(c, op, rp)
                if msg:   # no scratch path (random name) may reach a signature, 'what' or 'observed'
                    msg = msg.replace(work, "<work>").replace(c.base, "<scratch>").replace(c.home, "~")
                strict = exc is None and op["valid"]
                if op["valid"] and exc is not None:
                    viol.append({"sig": "C06:%s:raises:%s" % (fn, exc),
                                 "what": "valid %s call (%s) raised %s: %s | history: %s" % (fn, icls, exc, (msg or "")[:160], " ; ".join(hist_names)),
                                 "expected": "the table is stored", "observed": "%s: %s" % (exc, (msg or "")[:200])})
                if not op["valid"]:
                    classes["rejected" if exc is not None else "invalid-accepted"] += 1
                    if exc is not None and model:
                        classes["rejected-with-stored-keys"] += 1
                        nontrivial = True
                # caller's payload still describes the same numbers
                if before is not None:
                    after = [M.payload_numbers(x) for x in objs]
                    if after != before:
                        viol.append({"sig": "C06:%s:mutates-caller-payload" % fn,
                                     "what": "%s changed the numbers in the caller's rate dictionary | history: %s" % (fn, " ; ".join(hist_names)),
                                     "expected": "same numbers as before the call", "observed": "entries differ: %s" % sorted(
                                         k for a, b in zip(after, before) if isinstance(a, dict) for k in set(a) | set(b) if a.get(k) != b.get(k))})
                # writes of this call
                writes_by_slot, touched = collections.OrderedDict(), []
                for fam, key, pay, sub in items:
                    slot = M.slot_of(fam, key)
                    if pay[0] == "file":
                        content, approx = M.file_content(pay, c.file_exp), True
                        tag = "file:%s" % ":".join(str(x) for x in pay[1:])
                    else:
                        content, approx = M.make_payload(fam, pay)[1], False
                        tag = "T%s#%d" % (pay[0], pay[1])
                    writes_by_slot.setdefault(slot, []).append((sub, content, tag, approx))
                    touched.append(slot)
                    # accounting of the interesting situations (before the model is updated)
                    old = model.get(slot)
                    if isinstance(old, dict) and sub in old:
                        classes["overwrite"] += 1
                        nontrivial = True
                        if spelling.get((slot, sub)) != repr(key):
                            classes["twin-overwrite"] += 1
                    for (f2, k2) in touched_hist:
                        if (f2, k2) != slot and _relation(fam, slot[1], [(f2, k2)]) == "same-file-sibling":
                            classes["sibling-write"] += 1
                            nontrivial = True
                            break
                    if any(s[0] != fam for s in model):
                        classes["other-family-present-during-write"] += 1
            # ----- read everything back
            obs = _read_all(c, rp)
            acc["n"] += len(obs)
            first_of_slot = {}
            op_contents = [(w[1], w[3]) for ws in writes_by_slot.values() for w in ws if w[1] is not None]
            new_model = dict(model)
            for (fam, key, slot, args, get, kind), o in zip(c.reads, obs):
                if o[0] == "e" and o[1] == "RuntimeError":
                    classes["never-written-raises-RuntimeError"] += 1
                elif o[0] == "v":
                    classes["read:value"] += 1
                if slot in first_of_slot:
                    # another spelling of a slot already read in this sweep: must agree exactly
                    o1 = first_of_slot[slot]
                    agree = (o1 == o) if (o1[0] == "e" or o[0] == "e") else (o1[1].keys() == o[1].keys() and all(M.same_content(o1[1][s], o[1][s], False) for s in o[1]))
                    if not agree:
                        viol.append({"sig": "C06:%s:spellings-of-one-transition-read-differently:%s" % (M.FAMILIES[fam]["get"], fam),
                                     "what": "reading %s %r gives something else than another spelling of the same key | history: %s" % (fam, key, " ; ".join(hist_names)),
                                     "expected": _show_obs(o1), "observed": _show_obs(o)})
                    continue
                first_of_slot[slot] = o
                old = model.get(slot, {})
                ws = writes_by_slot.get(slot)
                cands = _candidates(old, ws, strict) if ws else [old]
                hit = next((cd for cd in cands if _matches(o, cd)), None)
                if hit is not None:
                    if isinstance(hit, tuple):
                        new_model[slot] = hit
                    elif not hit:
                        new_model.pop(slot, None)
                    else:
                        new_model[slot] = {s: (o[1][s], hit[s][1], False) for s in hit}
                        if ws and not strict and any(hit.get(w[0], (None, None))[1] == w[2] for w in ws):
                            classes["partial-applied"] += 1
                    continue
                # ----- violation: classify, report, adopt the observation
                gfn = M.FAMILIES[fam]["get"]
                if op is None:
                    what = "never-written:%s:%s" % (fam, "read-raises:" + o[1] if o[0] == "e" else "returns-value")
                    sig = "C06:%s:%s" % (gfn, what)
                elif ws:
                    # "not stored" = the key still reads as before the call (never written -> RuntimeError, or the old table)
                    kindw = ("not-stored" if _matches(o, old) else "stored-key-lost" if (o[0] == "e" and o[1] == "RuntimeError")
                             else ("read-raises:" + o[1]) if o[0] == "e" else "wrong-value")
                    if strict:
                        sig = "C06:%s:%s:%s" % (fn, kindw, fam)
                    else:
                        sig = "C06:%s:rejected:%s:%s:%s" % (fn, icls, kindw, fam)
                else:
                    surfaced = o[0] == "v" and any(M.same_content(v, cont, ap) for v in o[1].values() for cont, ap in op_contents if v.keys() == cont.keys())
                    if surfaced:
                        sig = "C06:%s:reads-back-under:%s" % (fn, fam)
                    elif not old and o[0] == "e":
                        sig = "C06:%s:never-written:%s:read-raises:%s" % (fn, fam, o[1])
                    elif not old:
                        sig = "C06:%s:never-written:%s:returns-value" % (fn, fam)
                    else:
                        rel = _relation(fam, slot[1], touched)
                        lost = "key-lost" if (o[0] == "e" and o[1] == "RuntimeError") else ("read-raises:" + o[1]) if o[0] == "e" else "content-changed"
                        sig = "C06:%s:%sclobbers:%s:%s:%s" % (fn, "" if strict else "rejected:%s:" % icls, fam, rel, lost)
                viol.append({"sig": sig,
                             "what": "after %s, %s(%s) disagrees with the model | history: %s" % (fn, gfn, ", ".join(repr(x) for x in key), " ; ".join(hist_names)),
                             "expected": [_show_cand(cd) for cd in cands][:4], "observed": _show_obs(o)})
                if o[0] == "e":
                    if o[1] == "RuntimeError":
                        new_model.pop(slot, None)
                    else:
                        new_model[slot] = o
                else:
                    new_model[slot] = {s: (v, "observed", False) for s, v in o[1].items()}
            model = new_model
            if op is not None:
                for fam, key, pay, sub in op["items"]:
                    slot = M.slot_of(fam, key)
                    if isinstance(model.get(slot), dict) and sub in model[slot]:
                        spelling[(slot, sub)] = repr(key)
                    if slot not in touched_hist:
                        touched_hist.append(slot)
            # ----- nothing outside the repository
            stray = []
            for w in c.watch:
                if os.path.lexists(w):
                    stray += [os.path.join("~", os.path.relpath(w, c.home), f) for f in _tree_files(w)] or ["~/" + os.path.relpath(w, c.home) + "/"]
                    shutil.rmtree(w, ignore_errors=True)
            hl = sorted(os.listdir(c.home))
            if hl != c.home_listing:
                extra = [x for x in hl if x not in c.home_listing and not any(w.startswith(os.path.join(c.home, x)) for w in c.watch)]
                for x in extra:
                    stray.append("~/" + x)
                    p = os.path.join(c.home, x)
                    shutil.rmtree(p, ignore_errors=True) if os.path.isdir(p) else os.unlink(p)
            for x in os.listdir(cwd):
                stray.append("<cwd>/" + x)
                p = os.path.join(cwd, x)
                shutil.rmtree(p, ignore_errors=True) if os.path.isdir(p) else os.unlink(p)
            for x in os.listdir(work):
                if x not in ("repo", "cwd"):
                    stray.append("<next to repository>/" + x)
                    p = os.path.join(work, x)
                    shutil.rmtree(p, ignore_errors=True) if os.path.isdir(p) else os.unlink(p)
            if stray:
                viol.append({"sig": "C06:%s:file-outside-repository" % fn,
                             "what": "%s(repository_path=<scratch>/repo) created files outside the repository | history: %s" % (fn, " ; ".join(hist_names)),
                             "expected": "every created file under the repository path that was passed", "observed": stray[:8]})
            acc["states"].add(tuple(sorted((s[0], repr(s[1]), repr(sub), v[1]) for s, d in model.items() if isinstance(d, dict) for sub, v in d.items())))
    finally:
        os.chdir(c.start_cwd)
        shutil.rmtree(work, ignore_errors=True)
    classes["history:len=%d" % len(idxs)] += 1
    if nontrivial:
        acc["nontrivial"].append(tuple(idxs))


def run_case(case):
    setup_worker(None)
    c = _CTX
    acc = {"viol": [], "classes": collections.Counter(), "n": 0, "transitions": 0, "states": set(), "nontrivial": []}
    nh = 0
    for last in case["lasts"]:
        idxs = list(case["prefix"]) + ([] if last == -1 else [last])
        _run_history(c, idxs, acc)
        nh += 1
    # one record per signature per case is enough for the runner (it counts cases per signature)
    seen, viol = set(), []
    for v in acc["viol"]:
        if v["sig"] not in seen:
            seen.add(v["sig"])
            viol.append(v)
    outcome = (tuple(sorted(seen)), nh, len(acc["states"]), acc["classes"].get("rejected", 0))
    return {"viol": viol, "classes": acc["classes"], "outcome": outcome, "n": acc["n"], "states": acc["states"],
            "transitions": acc["transitions"], "nontrivial": acc["nontrivial"]}
