"""C10 - ray-transfer matrices (RayTransferBox / RayTransferCylinder): engine L.

Every lattice point is a depth-1 history  construct RT object -> trace one ray  on the real code; the
entries of the spectral array are compared with exact chord lengths from mc/refs/chords.py (slab
clipping for the box, event sorting for the (R, phi, Z) grid).  Voxel maps / masks are checked
differentially against the one-source-per-cell map of the same geometry, which is what the property
states ("each source's entry equals the sum of the entries of its cells under the one-source-per-cell map").
"""
import itertools
import math

PROPERTY = "C10"
DRIVER = ("World + one RayTransferBox / RayTransferCylinder (unequal cell sizes) under an object transform; "
          "Ray(bins=rt.bins, extinction_prob=0).trace(world).samples for every ray of a lattice of origins x directions "
          "(+ tangential / in-boundary-plane / through-rim specials, + periodic images); all masks / voxel maps of small grids")
ALPHABET = {
    "box shapes": "nx,ny,nz in {1,2,3}^3, cells (1.0, 0.5, 0.75) [thorough: + cells (0.3, 0.7, 1.1)]",
    "cylinder shapes": "n_r,n_phi,n_z in {1,2,3}^3, dr=0.5 dz=0.75, r_inner in {0, 0.5}, period in {360, 90, 60, 51.4286 (rounded decimal of 360/7)} "
                       "[thorough: + period 120, 72, 32.7273 and dr=0.3 dz=0.7 r_inner=0.45]",
    "steps": "default (0.1*min cell, constructor default), 0.3*min cell (constructor), 3*min cell (step setter; min_samples branch) "
             "[thorough: + 0.05*min cell, 1.0*min cell, 3*min cell with integrator.min_samples=5]",
    "transforms": "identity, translate, rotate_y(90deg), generic rigid (translate * Rz50 * Rx30 * Ry-20) "
                  "[quick: cylinder identity (all steps) + generic (default step) only; thorough: all four, all steps]",
    "ray origins": "4x4x4 per-axis lattice {outside below, centre of first cell, centre of grid, outside above} "
                   "(cylinder: x in {-1.5ro, -(ri+dr/2), 0, ri+(nr-1/2)dr}, y in {-1.5ro, 0, 0.25, ro}) [thorough: 5x5x5, + on the lower face / 1.5ro / -(ri+dr/2)]",
    "ray directions": "26 lattice directions in cell units and in metres, 1e-17 tilts of axis directions, 8 generic "
                      "[thorough: + 8 more generic; box: all primitive directions with components in {-2..2}]",
    "special rays": "cylinder: tangents to every grid radius, radial rays inside every phi boundary half-plane and at mid-cell angle, "
                    "vertical rays on the axis / on grid radii / mid-ring, ray through the outer rim; every ray also rotated by k*period "
                    "(k=1; thorough: every k < 360/period for the identity transform with the default and 0.3-cell steps)",
    "masks": "all 2^C-1 non-empty masks for C<=8 cells; single-off, single-on, checkerboard, shell, slabs above",
    "voxel maps": "all maps cells->{-1,0,1,2} in restricted-growth form (all set partitions into <=3 sources with holes) for C<=6 cells "
                  "+ label-reversed and gap-labelled variants; merged slabs / pairs / reversed identity / gaps / one source above",
    "pipelines": "VectorCamera(pixel rays = lattice rays) + RayTransferPipeline2D and SightLine(sensitivity 2.5) + RayTransferPipeline0D, "
                 "kind in {radiance, power}, pixel_samples in {1, 3}, one-source-per-cell map and a merged map with holes",
    "map application": "alternately via the mask/voxel_map setter of the live object and via the constructor argument of a fresh object",
}
BOUND = {
    "quick": "complete product of the quick alphabets (grids <= 3x3x3, 3 steps, 64 origins x ~60 directions, periodic image k=1)",
    "thorough": "complete product of the thorough alphabets (grids <= 3x3x3, 6 steps, 125 origins x ~70 (cylinder) / ~200 (box) directions, all periodic images, extra periods / cell sizes)",
}
RULE = ("one case per (kind, grid, step mode, transform) tracing every ray of the lattice with the one-source-per-cell map, and one case per "
        "(kind, grid, map family chunk) tracing the hitting rays for every map; evaluations = ray traces; "
        "non-trivial = a ray with a positive exact chord in the primitive, keyed by (geometry, ray index) / (geometry, map)")
ASSUMPTIONS = [
    "exact chords are those inside the documented bounding primitive (grid shrunk by 1e-5 cell; inner radius enlarged by 1e-5 dr, also for r_inner=0)",
    "Ray(extinction_prob=0): Russian-roulette termination of raysect rays of depth >= 3 is switched off (it is random and would rescale entries)",
    "integration step dt = length/max(min_samples, int(length/step)) per pass through the primitive; passes shorter than 0.1*step may be skipped "
    "by the integrator (then the sum may miss at most that length)",
    "rays lying inside a cell boundary surface have no unique owner cell: the per-cell oracle then uses lower/upper chord bounds (cells shrunk/grown by 1e-9 m)",
    "rigid object transforms only; ray directions are unit vectors",
]
REQUIRED_CLASSES = [
    "box:identity", "cyl:identity", "box:maps", "cyl:maps",
    "ray:miss", "ray:hit", "ray:inside-start", "ray:degenerate", "ray:axis-parallel", "ray:diagonal", "ray:tiny-tilt", "ray:generic",
    "integrator:NumericalIntegrator", "pipeline:re-used-for-several-observations", "pipeline:two-on-one-observer", "ray:tangent", "ray:in-phi-plane", "ray:vertical", "ray:two-passes", "ray:skippable-pass", "ray:periodic-image",
    "step:default", "step:0.3cell", "step:3cell", "n=min_samples",
    "map:mask", "map:voxel_map", "map:caller-array-overwritten-after-assignment", "map:via-setter", "map:via-constructor", "map:with-holes", "map:merged", "map:empty-bin",
    "tf:identity", "tf:translate", "tf:rotate_y90", "tf:generic",
    "cyl:hole", "cyl:solid", "cyl:period<360", "cyl:axisymmetric",
    "box:pipeline", "cyl:pipeline", "pipeline:2D:radiance", "pipeline:2D:power", "pipeline:0D:radiance", "pipeline:0D:power",
    "pipeline:pixel_samples=1", "pipeline:pixel_samples=3", "pipeline:identity-map", "pipeline:merged-map",
]
BUDGET_S = {"quick": 600, "thorough": 3600}      # caps for a loaded machine; measured CPU: quick ~170 s, thorough ~3000 s (16 workers: ~15 s / ~4 min)
CHUNK = 1

BOX_CELL = (1.0, 0.5, 0.75)
BOX_CELL2 = (0.3, 0.7, 1.1)
CYL_DR, CYL_DZ = 0.5, 0.75


# ---------------------------------------------------------------------------------------------------
# transforms (built here with numpy, independent of raysect's helpers)

def _transforms():
    import numpy as np

    def T(x, y, z):
        m = np.eye(4)
        m[:3, 3] = (x, y, z)
        return m

    def R(axis, deg):
        a = math.radians(deg)
        c, s = math.cos(a), math.sin(a)
        m = np.eye(4)
        i, j = {"x": (1, 2), "y": (2, 0), "z": (0, 1)}[axis]
        m[i, i], m[i, j], m[j, i], m[j, j] = c, -s, s, c
        return m
    return {
        "identity": np.eye(4),
        "translate": T(1.5, -2.25, 0.5),
        "rotate_y90": R("y", 90.0),
        "generic": T(0.3, -0.7, 1.1) @ R("z", 50.0) @ R("x", 30.0) @ R("y", -20.0),
    }


# ---------------------------------------------------------------------------------------------------
# geometries

def box_geoms(tier):
    out = []
    cells = [BOX_CELL] + ([BOX_CELL2] if tier == "thorough" else [])
    for cell in cells:
        for shape in itertools.product((1, 2, 3), repeat=3):
            out.append({"kind": "box", "shape": list(shape), "cell": list(cell)})
    return out


def cyl_geoms(tier):
    out = []
    variants = [(CYL_DR, CYL_DZ, (0.0, 0.5), (360.0, 90.0, 60.0))]
    # a period stated as a rounded decimal (360/7 = 51.428571...; the constructor accepts 360/period within 1e-3 of an integer): seven sectors
    variants.append((CYL_DR, CYL_DZ, (0.5,) if tier != "thorough" else (0.0, 0.5), (None, 51.4286)))
    if tier == "thorough":
        variants.append((CYL_DR, CYL_DZ, (0.0, 0.5), (None, 32.7273)))
        variants.append((CYL_DR, CYL_DZ, (0.0, 0.5), (120.0, 72.0)))
        variants.append((0.3, 0.7, (0.45,), (360.0, 90.0)))
    for dr, dz, rins, periods in variants:
        for shape in itertools.product((1, 2, 3), repeat=3):
            for rin in rins:
                for per in periods:
                    if per is None or (shape[1] == 1 and per != periods[0]):
                        continue      # axisymmetric: the period plays no role
                    out.append({"kind": "cyl", "shape": list(shape), "dr": dr, "dz": dz, "rin": rin, "period": per})
    return out


def geom_key(g):
    if g["kind"] == "box":
        return ("box", tuple(g["shape"]), tuple(g["cell"]))
    return ("cyl", tuple(g["shape"]), g["dr"], g["dz"], g["rin"], g["period"])


def step_modes(tier):
    m = ["default", "0.3cell", "3cell"]
    if tier == "thorough":
        m += ["0.05cell", "1cell", "3cell-ms5"]
    return m


def step_value(mode, mincell):
    return {"default": 0.1, "0.3cell": 0.3, "3cell": 3.0, "0.05cell": 0.05, "1cell": 1.0, "3cell-ms5": 3.0}[mode] * mincell


# ---------------------------------------------------------------------------------------------------
# rays (local frame of the grid)

def _directions(tier, scale, wide=True):
    """list of (vector, class)"""
    import numpy as np
    rng = (-2, -1, 0, 1, 2) if (tier == "thorough" and wide) else (-1, 0, 1)
    seen, out = set(), []

    def add(v, cls):
        v = np.asarray(v, float)
        n = np.linalg.norm(v)
        u = v / n
        key = tuple(np.round(u, 13)) + (cls == "tiny-tilt",)
        if key in seen:
            return
        seen.add(key)
        out.append((u, cls))
    for s in itertools.product(rng, repeat=3):
        if s == (0, 0, 0) or math.gcd(math.gcd(abs(s[0]), abs(s[1])), abs(s[2])) != 1:
            continue
        nz = sum(1 for c in s if c != 0)
        cls = "axis-parallel" if nz == 1 else "diagonal"
        add([s[0] * scale[0], s[1] * scale[1], s[2] * scale[2]], cls)
        add(s, cls)
    t = 1e-17
    for v in ((1, t, 0), (1, -t, 0), (-1, 0, t), (0, 1, -t), (t, -1, 0), (0, t, 1), (-t, 0, -1), (1, t, -t)):
        add(v, "tiny-tilt")
    for sx, sy, sz in itertools.product((1, -1), repeat=3):
        add((0.6 * sx, 0.3 * sy, 0.2 * sz), "generic")
    if tier == "thorough":
        for sx, sy, sz in itertools.product((1, -1), repeat=3):
            add((0.11 * sx, 0.93 * sy, 0.37 * sz), "generic")
    return out


def box_rays(g, tier):
    import numpy as np
    shape, cell = g["shape"], g["cell"]
    ext = [shape[a] * cell[a] for a in range(3)]
    axes = []
    for a in range(3):
        p = [-cell[a], 0.5 * cell[a], 0.5 * ext[a], ext[a] + cell[a]]
        if tier == "thorough":
            p += [0.0]
        axes.append(p)
    dirs = _directions(tier, cell)
    O, D, K = [], [], []
    for o in itertools.product(*axes):
        for u, cls in dirs:
            O.append(o)
            D.append(u)
            K.append(cls)
    return np.array(O, float), np.array(D, float), K


def cyl_rays(g, tier, all_images=False):
    """returns O, D, classes, n_base : the first n_base rays are the base set, the rest their periodic images"""
    import numpy as np
    nr, nphi, nz = g["shape"]
    dr, dz, ri, per = g["dr"], g["dz"], g["rin"], g["period"]
    ro = ri + nr * dr
    H = nz * dz
    X = [-1.5 * ro, -(ri + 0.5 * dr), 0.0, ri + (nr - 0.5) * dr]
    Y = [-1.5 * ro, 0.0, 0.25, ro]
    Z = [-0.6, 0.5 * dz, 0.5 * H, H + 0.6]
    if tier == "thorough":
        X += [1.5 * ro]
        Y += [-(ri + 0.5 * dr)]
        Z += [0.0]
    dirs = _directions(tier, (1.0, 1.0, dz / dr), wide=False)
    O, D, K = [], [], []
    for o in itertools.product(X, Y, Z):
        for u, cls in dirs:
            O.append(o)
            D.append(u)
            K.append(cls)
    zc = 0.5 * dz

    def add(o, d, cls):
        d = np.asarray(d, float)
        O.append(tuple(o))
        D.append(d / np.linalg.norm(d))
        K.append(cls)
    # tangents to every grid radius
    for i in range(nr + 1):
        rho = ri + i * dr
        if rho <= 0:
            continue
        for zz in (zc, 0.5 * H):
            add((-1.5 * ro, rho, zz), (1, 0, 0), "tangent")
            add((rho, 1.5 * ro, zz), (0, -1, 0.25), "tangent")
    # radial rays inside phi boundary half-planes and at mid-cell angles
    if nphi > 1:
        dphi = per / nphi
        nhalf = int(round(360.0 / dphi))
        angs = [(j * dphi, "in-phi-plane") for j in range(nhalf)] + [((j + 0.5) * dphi, "radial-mid") for j in range(nhalf)]
    else:
        angs = [(j * 45.0, "in-phi-plane") for j in range(8)]
    if tier != "thorough" and len(angs) > 16:
        # quick: the half-planes of the first two periods and the last one (the wrap), complete in thorough
        keep = set(range(0, 2 * nphi + 1)) | {nhalf - 1}
        angs = [a for k, a in enumerate(angs) if (k % nhalf) in keep]
    for al, cls in angs:
        c, s = math.cos(math.radians(al)), math.sin(math.radians(al))
        add((1.5 * ro * c, 1.5 * ro * s, zc), (-c, -s, 0), cls)
        add((1.5 * ro * c, 1.5 * ro * s, -0.6), (-c, -s, 0.45), cls)
    # vertical rays: axis, grid radii, mid-ring
    vr = [(0.0, 0.0, "vertical")]
    for i in range(nr + 1):
        rho = ri + i * dr
        if rho > 0:
            vr.append((rho, 0.0, "vertical"))
    for i in range(nr):
        rho = ri + (i + 0.5) * dr
        vr.append((rho * math.cos(math.radians(10.0)), rho * math.sin(math.radians(10.0)), "vertical"))
    for x, y, cls in vr:
        add((x, y, -0.6), (0, 0, 1), cls)
        add((x, y, H + 0.6), (0, 0, -1), cls)
    # through the outer rim and through the rim of the hole
    add((ro + 1.0, 0.0, H + 1.0), (-1, 0, -1), "rim")
    add((0.0, -(ro + 1.0), -1.0), (0, 1, 1), "rim")
    if ri > 0:
        add((ri - 0.25, 0.0, -0.25), (1, 0, 1), "rim")
    O = np.array(O, float)
    D = np.array(D, float)
    nb = len(K)
    # periodic images
    nsect = int(round(360.0 / per))
    if nphi == 1:
        ks = [1] if not all_images else [1, 3]
        ang = [k * 45.0 for k in ks]          # axisymmetric: any angle is a period; use 45 and 135 deg
    else:
        ks = [1] if not all_images else list(range(1, nsect)) or [1]
        ang = [k * per for k in ks]
    Os, Ds, Ks = [O], [D], list(K)
    for al in ang:
        a = math.radians(al)
        c, s = math.cos(a), math.sin(a)
        Rz = np.array([[c, -s, 0], [s, c, 0], [0, 0, 1.0]])
        Os.append(O @ Rz.T)
        Ds.append(D @ Rz.T)
        Ks += K
    return np.concatenate(Os), np.concatenate(Ds), Ks, nb


# ---------------------------------------------------------------------------------------------------
# maps

def _rg_maps(C, maxblocks=3):
    """all label strings of length C over {-1,0,..,maxblocks-1} in restricted growth form, not all -1"""
    out = []

    def rec(prefix, used):
        if len(prefix) == C:
            if used:
                out.append(tuple(prefix))
            return
        for lab in [-1] + list(range(min(used + 1, maxblocks))):
            rec(prefix + [lab], max(used, lab + 1))
    rec([], 0)
    return out


def map_family(shape, tier):
    """list of (kind, flat tuple, tag) ; kind in {'mask','voxel_map'}"""
    import numpy as np
    C = shape[0] * shape[1] * shape[2]
    idx = list(np.ndindex(*shape))
    fam = []
    if C <= 8:
        for bits in range(1, 1 << C):
            fam.append(("mask", tuple((bits >> i) & 1 for i in range(C)), "all-masks"))
    else:
        for i in range(C):
            fam.append(("mask", tuple(0 if j == i else 1 for j in range(C)), "single-off"))
            fam.append(("mask", tuple(1 if j == i else 0 for j in range(C)), "single-on"))
        for par in (0, 1):
            fam.append(("mask", tuple(1 if sum(ix) % 2 == par else 0 for ix in idx), "checkerboard"))
        shell = tuple(1 if any(ix[a] in (0, shape[a] - 1) for a in range(3)) else 0 for ix in idx)
        fam.append(("mask", shell, "shell"))
        if any(v == 0 for v in shell):
            fam.append(("mask", tuple(1 - v for v in shell), "core"))
        for a in range(3):
            for k in range(shape[a]):
                fam.append(("mask", tuple(1 if ix[a] == k else 0 for ix in idx), "slab"))
    if C <= 6:
        for m in _rg_maps(C):
            fam.append(("voxel_map", m, "partition"))
            nb = max(m) + 1
            if tier == "thorough" or C <= 4:
                if nb > 1:
                    fam.append(("voxel_map", tuple(-1 if v < 0 else nb - 1 - v for v in m), "partition-reversed"))
                fam.append(("voxel_map", tuple(-1 if v < 0 else 2 * v + 1 for v in m), "partition-gaps"))
    else:
        for a in range(3):
            fam.append(("voxel_map", tuple(ix[a] for ix in idx), "merged-slabs"))
        fam.append(("voxel_map", tuple(0 for _ in idx), "one-source"))
        fam.append(("voxel_map", tuple(i // 2 for i in range(C)), "pairs"))
        fam.append(("voxel_map", tuple(C - 1 - i for i in range(C)), "reversed-identity"))
        fam.append(("voxel_map", tuple(2 * i for i in range(C)), "gaps"))
        fam.append(("voxel_map", tuple(-1 if i == C // 2 else sum(ix) % 2 for i, ix in enumerate(idx)), "checker-hole"))
        fam.append(("voxel_map", tuple(-1 if sum(ix) % 3 == 0 else (ix[0] + 2 * ix[2]) % 3 for ix in idx), "mod3-holes"))
    return fam


MAP_CHUNK = 256


# ---------------------------------------------------------------------------------------------------
# case list

def cases(tier):
    out = []
    tfs_box = ["identity", "translate", "rotate_y90", "generic"]
    tfs_cyl = ["identity", "generic"] if tier != "thorough" else ["identity", "translate", "rotate_y90", "generic"]
    for g in box_geoms(tier):
        for sm in step_modes(tier):
            for tf in tfs_box:
                out.append({"mode": "identity", "g": g, "step": sm, "tf": tf, "tier": tier, "label": "box-identity"})
    for g in cyl_geoms(tier):
        for sm in step_modes(tier):
            for tf in tfs_cyl:
                if tier != "thorough" and tf == "generic" and sm != "default":
                    continue
                out.append({"mode": "identity", "g": g, "step": sm, "tf": tf, "tier": tier, "label": "cyl-identity"})
    # maps
    for g in box_geoms(tier):
        if g["cell"] != list(BOX_CELL):
            continue
        fam = map_family(g["shape"], tier)
        variants = [("default", "generic")] + ([("3cell", "identity"), ("0.3cell", "rotate_y90")] if tier == "thorough" else [])
        for sm, tf in variants:
            for lo in range(0, len(fam), MAP_CHUNK):
                out.append({"mode": "maps", "g": g, "step": sm, "tf": tf, "tier": tier, "lo": lo, "hi": min(lo + MAP_CHUNK, len(fam)), "label": "box-maps"})
    for g in cyl_geoms(tier):
        if g["dr"] != CYL_DR:
            continue
        if tier != "thorough" and not ((g["rin"] == 0.5 and g["period"] in (360.0, 90.0)) or (g["rin"] == 0.0 and g["period"] == 60.0)):
            continue
        if g["period"] in (120.0, 72.0):
            continue
        fam = map_family(g["shape"], tier)
        variants = [("default", "generic")] + ([("3cell", "identity")] if tier == "thorough" else [])
        for sm, tf in variants:
            for lo in range(0, len(fam), MAP_CHUNK):
                out.append({"mode": "maps", "g": g, "step": sm, "tf": tf, "tier": tier, "lo": lo, "hi": min(lo + MAP_CHUNK, len(fam)), "label": "cyl-maps"})
    # the emitters integrated by raysect's NumericalIntegrator instead of their dedicated integrators
    for g in box_geoms("quick"):
        if tuple(g["shape"]) in ((1, 1, 1), (2, 2, 2), (3, 2, 1), (1, 2, 3), (2, 3, 2)):
            out.append({"mode": "numint", "g": g, "step": "default", "tf": "generic", "tier": tier, "label": "box-numint"})
    for g in cyl_geoms("quick"):
        if (tuple(g["shape"]), g["rin"], g["period"]) in (((2, 3, 2), 0.5, 90.0), ((2, 1, 2), 0.0, 360.0), ((1, 2, 1), 0.0, 60.0), ((2, 2, 2), 0.5, 360.0)):
            out.append({"mode": "numint", "g": g, "step": "default", "tf": "generic", "tier": tier, "label": "cyl-numint"})
    # observers + ray-transfer pipelines (the matrix is what the user gets): a VectorCamera firing exactly the lattice rays
    pg = [g for g in box_geoms("quick") if tier == "thorough" or tuple(g["shape"]) in ((1, 1, 1), (2, 2, 2), (3, 2, 1), (1, 2, 3), (3, 3, 3))]
    pg += [g for g in cyl_geoms("quick") if (tier == "thorough" and g["period"] != 60.0) or
           (tuple(g["shape"]), g["rin"], g["period"]) in (((2, 3, 2), 0.5, 90.0), ((2, 1, 2), 0.0, 360.0), ((1, 2, 1), 0.0, 60.0), ((3, 3, 3), 0.5, 360.0))]
    for g in pg:
        for pk in ("radiance", "power"):
            for ps in (1, 3):
                for mp in ("identity-map", "merged-map"):
                    out.append({"mode": "pipeline", "g": g, "step": "default", "tf": "generic", "tier": tier, "pkind": pk, "pixel_samples": ps, "map": mp,
                                "label": g["kind"] + "-pipeline"})
    return out


def crash_label(case):
    return case.get("label", "case")


# ---------------------------------------------------------------------------------------------------
# driving the real code

def _build(g, step_mode, tf_name, world, voxel_map=None, mask=None):
    """construct the RT object; returns (rt, step value expected from the documentation, min_samples)"""
    from raysect.optical import AffineMatrix3D
    from cherab.tools.raytransfer import RayTransferBox, RayTransferCylinder
    T = _transforms()[tf_name]
    tf = AffineMatrix3D(T.tolist())
    kw = {}
    if voxel_map is not None:
        kw["voxel_map"] = voxel_map
    if mask is not None:
        kw["mask"] = mask
    if g["kind"] == "box":
        shape = g["shape"]
        ext = [shape[a] * g["cell"][a] for a in range(3)]
        cell = [ext[a] / shape[a] for a in range(3)]
        mincell = min(cell)
        sv = step_value(step_mode, mincell)
        if step_mode == "0.3cell" or step_mode == "0.05cell":
            kw["step"] = sv
        rt = RayTransferBox(ext[0], ext[1], ext[2], shape[0], shape[1], shape[2], parent=world, transform=tf, **kw)
    else:
        nr, nphi, nz = g["shape"]
        ro = g["rin"] + nr * g["dr"]
        H = nz * g["dz"]
        dr = (ro - g["rin"]) / nr
        dz = H / nz
        mincell = min(dr, dz)
        sv = step_value(step_mode, mincell)
        if step_mode == "0.3cell" or step_mode == "0.05cell":
            kw["step"] = sv
        rt = RayTransferCylinder(ro, H, nr, nz, radius_inner=g["rin"], n_polar=nphi, period=g["period"], parent=world, transform=tf, **kw)
    ms = 2
    if step_mode in ("3cell", "1cell", "3cell-ms5"):
        rt.step = sv
    if step_mode == "3cell-ms5":
        rt.material.integrator.min_samples = 5
        ms = 5
    return rt, sv, ms


def _reference(g, O, D, step, ms):
    from mc.refs import chords
    chords.MIN_SAMPLES = ms
    if g["kind"] == "box":
        shape = g["shape"]
        ext = [shape[a] * g["cell"][a] for a in range(3)]
        cell = [ext[a] / shape[a] for a in range(3)]
        return chords.box_reference(O, D, shape, cell, step)
    nr, nphi, nz = g["shape"]
    ro = g["rin"] + nr * g["dr"]
    return chords.cyl_reference(O, D, g["shape"], g["rin"], ro, nz * g["dz"], g["period"], step)


def _to_world(T, O, D):
    Ow = O @ T[:3, :3].T + T[:3, 3]
    Dw = D @ T[:3, :3].T
    return Ow, Dw


def _trace_all(world, bins, Ow, Dw, sel=None):
    """returns (E (N,bins) array, exc dict index -> 'Type: msg')"""
    import numpy as np
    from raysect.optical import Ray, Point3D, Vector3D
    N = Ow.shape[0]
    E = np.zeros((N, max(bins, 1)))
    exc = {}
    ray = Ray(min_wavelength=500.0, max_wavelength=501.0, bins=bins, extinction_prob=0.0, extinction_min_depth=50, max_depth=100)
    idx = range(N) if sel is None else sel
    for i in idx:
        ray.origin = Point3D(Ow[i, 0], Ow[i, 1], Ow[i, 2])
        ray.direction = Vector3D(Dw[i, 0], Dw[i, 1], Dw[i, 2])
        try:
            E[i, :bins] = ray.trace(world).samples
        except Exception as e:  # noqa
            exc[i] = "%s: %s" % (type(e).__name__, str(e)[:120])
    return E, exc


_COARSE = {"axis-parallel": "lattice-ray", "diagonal": "lattice-ray", "generic": "lattice-ray", "radial-mid": "lattice-ray"}


def _rcat(k):
    """coarse ray category used in signatures: rays of the origin x direction lattice vs rays built to hit an exact
    coincidence (1e-17 tilt, tangent, inside a phi boundary plane, vertical on a grid radius / the axis, through a rim)"""
    return _COARSE.get(k, "coincidence-ray")


class _Viol:
    """collects at most one violation record per signature per case, counting the rest"""

    def __init__(self):
        self.d = {}

    def add(self, sig, what, expected, observed):
        sig = "C10:" + sig
        e = self.d.get(sig)
        if e is None:
            self.d[sig] = {"sig": sig, "what": what, "expected": expected, "observed": observed, "_n": 1}
        else:
            e["_n"] += 1

    def out(self):
        res = []
        for sig in sorted(self.d):
            e = dict(self.d[sig])
            n = e.pop("_n")
            e["what"] = "%s [%d lattice points of this case]" % (e["what"], n)
            res.append(e)
        return res


def _gclass(g):
    if g["kind"] == "box":
        return "Box"
    s = "Cylinder"
    s += ":axisym" if g["shape"][1] == 1 else (":p360" if g["period"] == 360.0 else ":p<360")
    return s


def _ray_desc(O, D, i):
    return {"local_origin": [float(v) for v in O[i]], "local_direction": [float(v) for v in D[i]]}


def run_case(case):
    import numpy as np
    from raysect.optical import World
    g = case["g"]
    tier = case["tier"]
    kind = g["kind"]
    V = _Viol()
    classes = [kind + ":" + case["mode"], "tf:" + case["tf"], "step:" + case["step"]]
    if kind == "cyl":
        classes.append("cyl:hole" if g["rin"] > 0 else "cyl:solid")
        if g["shape"][1] == 1:
            classes.append("cyl:axisymmetric")
        elif g["period"] < 360:
            classes.append("cyl:period<360")
    gk = geom_key(g)
    gc = _gclass(g)
    T = _transforms()[case["tf"]]
    world = World()
    rt, sv, ms = _build(g, case["step"], case["tf"], world)
    ntrace = 0
    states, nontrivial = [], []
    C = int(np.prod(g["shape"]))

    # documented default step / bins of the one-source-per-cell map
    if abs(rt.step - sv) > 1e-12 * sv:
        V.add("%s:step:%s" % (gc.split(":")[0], case["step"]), "integration step of the object differs from the documented/assigned value", sv, rt.step)
    if rt.bins != C:
        V.add("%s:bins:identity-map" % gc.split(":")[0], "bins of the default map is not the number of cells", C, int(rt.bins))

    rtier = "quick" if case["mode"] in ("maps", "pipeline") else tier     # the map / pipeline cases always use the quick ray lattice
    if kind == "box":
        O, D, K = box_rays(g, rtier)
        nb = len(K)
    else:
        O, D, K, nb = cyl_rays(g, rtier, all_images=(tier == "thorough" and case["tf"] == "identity" and case["step"] in ("default", "0.3cell")))
    ref = _reference(g, O, D, sv, ms)
    Ow, Dw = _to_world(T, O, D)
    chord_hi, chord_lo = ref["chord_hi"], ref["chord_lo"]
    hit = chord_hi > 0
    degenerate = ref["ambig"] > 1e-6

    if case["mode"] == "identity":
        # the voxel map read back must be the one-source-per-cell map
        vm = np.asarray(rt.voxel_map)
        if vm.shape != tuple(g["shape"]) or sorted(vm.ravel().tolist()) != list(range(C)):
            V.add("%s:default-map:not-one-source-per-cell" % gc.split(":")[0], "default voxel_map is not a bijection cells -> 0..C-1", "bijection", vm.ravel().tolist())
            perm = np.arange(C)
        else:
            perm = vm.ravel()          # cell (C order) -> bin
        E, exc = _trace_all(world, rt.bins, Ow, Dw)
        ntrace += len(K)
        Ec = E[:, perm] if E.shape[1] == C else np.zeros((len(K), C))
        tot = Ec.sum(axis=1)
        dt = ref["dt"]
        scale = np.maximum(1.0, chord_hi)
        # harness self-check: the two independent formulae of the total chord (event sorting / interval
        # arithmetic on the annulus) must agree wherever the bounds are tight
        if kind == "cyl":
            gapc = ref["chord_hi"] - ref["chord_lo_geo"]
            off = np.abs(ref["chord_events"] - 0.5 * (ref["chord_hi"] + ref["chord_lo_geo"])) > gapc + 1e-9
            if off.any():
                i = int(np.nonzero(off)[0][0])
                return {"harness_error": "reference models disagree on the chord of ray %r: events %r, annulus [%r, %r]" % (
                    _ray_desc(O, D, i), ref["chord_events"][i], ref["chord_lo_geo"][i], ref["chord_hi"][i])}
        # (i) whole chord.  Tolerance: the start of each pass is displaced by raysect's EPSILON = 1e-9 m
        # (inside_point), i.e. up to 1e-9 m along the ray per surface crossing (<= 4), plus rounding.
        tol_sum = 4e-9 + 1e-12 * scale
        bad_sum = (tot < chord_lo - tol_sum) | (tot > chord_hi + tol_sum)
        # (ii) per cell, two integration steps (the stated bound); 1e-8 covers the EPSILON displacements.
        # NARROWED for cells that the ray crosses in k > 2 disjoint intervals (only possible on periodic grids,
        # where a "cell" is the union of its 360/period images): the documented midpoint rule places
        # floor(len/dt) or ceil(len/dt) samples in an interval, i.e. errs by < 1 dt *per interval*, so the bound
        # the algorithm can honour is max(2, k) dt.  Lattice points that exceed the literal 2 dt bound but respect
        # k dt are counted in the class 'cell:beyond-2dt-with-k>2-intervals' (visible in the evidence).
        tol2 = 2.0 * dt[:, None] + 1e-8
        tol = np.maximum(2, ref["nint"]) * dt[:, None] + 1e-8
        bad_cell = (Ec < ref["L_lo"] - tol) | (Ec > ref["L_hi"] + tol)
        lit = ((Ec < ref["L_lo"] - tol2) | (Ec > ref["L_hi"] + tol2)) & ~bad_cell
        if lit.any():
            classes += ["cell:beyond-2dt-with-k>2-intervals"] * int(lit.any(axis=1).sum())
        for i in range(len(K)):
            rc = _rcat(K[i])
            if i in exc:
                V.add("%s:exception:%s:%s" % (gc, exc[i].split(":")[0], rc), "tracing a ray raised", "spectral array", dict(_ray_desc(O, D, i), exception=exc[i], step=case["step"], tf=case["tf"]))
                continue
            if lit[i].any() and not bad_cell[i].any():
                # the statement's literal bound (two integration steps) is exceeded although the documented
                # midpoint rule is followed: reported under its own narrow signature (a listed known finding),
                # never silently excused
                c = int(np.argmax(lit[i]))
                V.add("%s:cell-vs-chord:literal-2dt-exceeded:k>2-intervals" % gc,
                      "a cell of a periodic grid crossed in k > 2 disjoint intervals: entry differs from the exact chord by more than two integration steps (but less than k steps)",
                      {"cell": c, "L_lo": float(ref["L_lo"][i, c]), "L_hi": float(ref["L_hi"][i, c]), "dt": float(dt[i]), "intervals_of_this_cell_on_ray": int(ref["nint"][i, c])},
                      dict(_ray_desc(O, D, i), entry=float(Ec[i, c]), step=case["step"], tf=case["tf"]))
            if not (bad_sum[i] or bad_cell[i].any()):
                continue
            if bad_sum[i]:
                lab = "short-pass" if ref["skippable"][i] else ("degenerate" if degenerate[i] else "regular")
                V.add("%s:sum-vs-chord:%s:%s" % (gc, rc, lab), "entries do not sum to the chord length inside the bounding primitive",
                      {"chord_lo": float(chord_lo[i]), "chord_hi": float(chord_hi[i])}, dict(_ray_desc(O, D, i), total=float(tot[i]), entries=Ec[i].tolist(), step=case["step"], tf=case["tf"]))
            if bad_cell[i].any():
                c = int(np.argmax(bad_cell[i]))
                k = int(ref["nint"][i, c])
                lab = "k>2-intervals" if k > 2 else ("degenerate" if degenerate[i] else "regular")
                V.add("%s:cell-vs-chord:%s:%s" % (gc, rc, lab), "a cell entry differs from the exact chord length in the cell by more than two integration steps",
                      {"cell": c, "L_lo": float(ref["L_lo"][i, c]), "L_hi": float(ref["L_hi"][i, c]), "dt": float(dt[i]), "intervals_of_this_cell_on_ray": k},
                      dict(_ray_desc(O, D, i), entry=float(Ec[i, c]), entries=Ec[i].tolist(), step=case["step"], tf=case["tf"]))
        # (v) periodic images: same vector.  Tolerance: the two traces integrate lines displaced by raysect's
        # EPSILON, so the pass lengths (hence dt = length/n and every entry N*dt) may differ by the width of the
        # chord bounds; a difference of a whole dt is legitimate only if a sample sits on a cell boundary
        # (closer than 1e-6 m, decided from the reference model) - counted as 'fragile', never silently.
        if kind == "cyl" and len(K) > nb:
            from mc.refs import chords
            nimg = len(K) // nb - 1
            wid = (chord_hi - ref["chord_lo_geo"]) + 2 * tol_sum
            for m in range(1, nimg + 1):
                sl = slice(m * nb, (m + 1) * nb)
                diff = np.abs(Ec[sl] - Ec[:nb]).max(axis=1)
                okdeg = degenerate[:nb] | degenerate[sl]
                bad = (diff > wid[:nb] + wid[sl]) & ~okdeg
                if ref.get("phi_slack_m", 0.0) > 0.0:
                    # a period that does not tile 360 degrees exactly (51.4286 x 7 = 360.0002): rotation by the stated period is a symmetry of
                    # the folded angle only up to that mismatch, i.e. a phi boundary met at a shallow angle moves along the ray by an
                    # unbounded multiple of it and one midpoint sample may change cell.  One sample per cell is allowed here (every image
                    # ray is still compared with its own exact chords above); more than one is reported.
                    bad = bad & (diff > wid[:nb] + wid[sl] + np.maximum(dt[:nb], dt[sl]))
                    classes.append("periodic:inexact-period:one-sample-allowed")
                for i in np.nonzero(bad)[0]:
                    if i in exc or (i + m * nb) in exc:
                        continue
                    g1 = chords.sample_event_gap(ref, int(i), sv, ms)
                    g2 = chords.sample_event_gap(ref, int(i + m * nb), sv, ms)
                    if min(g1, g2) < 1e-6:
                        classes.append("periodic:fragile-sample-on-boundary")
                        continue
                    V.add("%s:periodic-image:%s" % (gc, _rcat(K[i])), "entries change when the ray is rotated about the axis by a whole number of periods",
                          Ec[i].tolist(), dict(_ray_desc(O, D, i + m * nb), entries=Ec[i + m * nb].tolist(), base=_ray_desc(O, D, i), step=case["step"], tf=case["tf"]))
            classes.append("ray:periodic-image")
        # classes and accounting
        rc_count = {}
        for i in range(nb):
            rc_count[K[i]] = rc_count.get(K[i], 0) + 1
        for k_, v_ in rc_count.items():
            classes.append("ray:" + k_)
        if (~hit).any():
            classes.append("ray:miss")
        if hit.any():
            classes.append("ray:hit")
        if degenerate.any():
            classes.append("ray:degenerate")
        if (ref["pieces"] >= 2).any():
            classes.append("ray:two-passes")
        if ref["skippable"].any():
            classes.append("ray:skippable-pass")
        if (ref["kmax"] > 2).any():
            classes.append("ray:cell-in>2-intervals")
        with np.errstate(divide="ignore", invalid="ignore"):
            if (hit & (chord_hi / sv < ms)).any():
                classes.append("n=min_samples")
        if any(hit[i] and _origin_inside(g, O[i]) for i in range(0, nb, 7)):
            classes.append("ray:inside-start")
        # lattice points = (geometry, base ray); periodic images, steps and transforms revisit the same points
        states = [(gk, i) for i in range(nb)] if case["step"] == "default" and case["tf"] == "identity" else [(gk, case["step"], case["tf"])]
        nontrivial = [(gk, int(i)) for i in np.nonzero(hit[:nb])[0]] if case["step"] == "default" and case["tf"] == "identity" else [(gk, case["step"], case["tf"], int(hit.sum()))]
        outcome = (gk, case["step"], case["tf"], round(float(tot.sum()), 6), len(exc))

    elif case["mode"] == "numint":
        # the same emitter integrated by raysect's generic NumericalIntegrator (a documented option of the emitters): the spectral array
        # is then built by the emitter's emission_function, sample by sample, and must still be the chord lengths (within the sampling step)
        from raysect.optical import NumericalIntegrator
        mincell = min(g["cell"]) if kind == "box" else min(g["dr"], g["dz"])
        sn = 0.02 * mincell
        rt.material.integrator = NumericalIntegrator(step=sn)
        vm = np.asarray(rt.voxel_map)
        perm = vm.ravel()
        sel = [int(i) for i in np.nonzero(hit[:nb] & ~degenerate[:nb])[0]][::5][:60]
        E, exc = _trace_all(world, rt.bins, Ow, Dw, sel)
        ntrace = len(sel)
        tol = 3.0 * sn
        for i in sel:
            if i in exc:
                V.add("%s:numerical-integrator:raises" % gc.split(":")[0], "tracing with NumericalIntegrator raised", "a spectral array", dict(_ray_desc(O, D, i), error=exc[i]))
                break
            row = E[i, perm]
            lo, hi = ref["L_lo"][i] - tol, ref["L_hi"][i] + tol * np.maximum(1, ref["nint"][i] if "nint" in ref else 1)
            badc = np.nonzero((row < lo) | (row > hi))[0]
            if badc.size:
                c = int(badc[0])
                V.add("%s:numerical-integrator:cell-vs-chord" % gc.split(":")[0],
                      "entry of a cell differs from the chord length in it by more than 3 sampling steps when the emitter is integrated by NumericalIntegrator(step=%g)" % sn,
                      {"cell": c, "L_lo": float(ref["L_lo"][i, c]), "L_hi": float(ref["L_hi"][i, c])}, dict(_ray_desc(O, D, i), entry=float(row[c]), entries=row.tolist()))
                break
        classes.append("integrator:NumericalIntegrator")
        states = [(gk, "numint")]
        nontrivial = [(gk, "numint", int(i)) for i in sel]
        outcome = (gk, "numint", round(float(E.sum()), 4), len(exc))

    elif case["mode"] == "pipeline":
        r = _run_pipeline(case, g, gc, world, rt, O, D, Ow, Dw, K, nb, hit, ref, V, classes)
        if "harness_error" in r:
            return r
        ntrace = r["ntrace"]
        states = [(gk, "pipeline", case["pkind"], case["pixel_samples"], case["map"])]
        nontrivial = [(gk, "pipeline", case["pkind"], case["pixel_samples"], case["map"])]
        outcome = (gk, "pipeline", case["pkind"], case["pixel_samples"], case["map"], r["total"])

    else:  # maps
        fam = map_family(g["shape"], tier)[case["lo"]:case["hi"]]
        # rays used for the maps: the declared sub-lattice "every 3rd hitting base ray of the quick ray lattice"
        sel = [int(i) for i in np.nonzero(hit[:nb])[0]][::3]
        vm = np.asarray(rt.voxel_map)
        perm = vm.ravel()
        E0, exc0 = _trace_all(world, rt.bins, Ow, Dw, sel)
        ntrace += len(sel)
        Ec = np.zeros((len(K), C))
        if sorted(perm.tolist()) == list(range(C)):
            Ec[:, :] = E0[:, perm]
        scale = np.maximum(1.0, chord_hi)
        live = rt
        worlds = [world]
        for j, (mk, flat, tag) in enumerate(fam):
            arr = np.array(flat).reshape(g["shape"])
            via = "setter" if j % 2 == 0 else "constructor"
            classes.append("map:" + mk)
            classes.append("map:via-" + via)
            try:
                if via == "setter":
                    if mk == "mask":
                        live.mask = arr.astype(bool)
                    else:
                        given = np.ascontiguousarray(arr.astype(np.int32 if j % 4 == 0 else np.int64))
                        live.voxel_map = given
                        # the caller's work buffer is re-used afterwards (here: overwritten): the object keeps the map it was given
                        given[...] = -1
                        classes.append("map:caller-array-overwritten-after-assignment")
                    obj, w = live, worlds[0]
                else:
                    w = World()
                    if mk == "mask":
                        obj, _, _ = _build(g, case["step"], case["tf"], w, mask=arr.astype(bool))
                    else:
                        obj, _, _ = _build(g, case["step"], case["tf"], w, voxel_map=arr)
            except Exception as e:  # noqa
                V.add("%s:%s:%s:raises:%s" % (gc.split(":")[0], mk, via, type(e).__name__), "assigning a valid %s raised" % mk, "accepted", "%s: %s" % (type(e).__name__, e))
                continue
            rvm = np.asarray(obj.voxel_map)
            if mk == "mask":
                act = arr.astype(bool)
                nact = int(act.sum())
                ok = rvm.shape == arr.shape and (rvm[~act] == -1).all() and sorted(rvm[act].tolist()) == list(range(nact))
                if not ok:
                    V.add("%s:mask:%s:map-not-bijection-on-active-cells" % (gc.split(":")[0], via), "voxel_map derived from a mask is not -1 outside / a bijection onto 0..k-1 inside", {"mask": arr.tolist()}, rvm.tolist())
                    continue
                exp_bins = nact
                if not (np.asarray(obj.mask) == act).all():
                    V.add("%s:mask:%s:readback" % (gc.split(":")[0], via), "mask read back differs from the one assigned", arr.tolist(), np.asarray(obj.mask).tolist())
            else:
                if not (rvm.shape == arr.shape and (rvm == arr).all()):
                    V.add("%s:voxel_map:%s:readback" % (gc.split(":")[0], via), "voxel_map read back differs from the one assigned", arr.tolist(), rvm.tolist())
                    continue
                exp_bins = int(arr.max()) + 1
                if not (np.asarray(obj.mask) == (arr > -1)).all():
                    V.add("%s:voxel_map:%s:mask-readback" % (gc.split(":")[0], via), "mask is not voxel_map > -1", (arr > -1).tolist(), np.asarray(obj.mask).tolist())
            if int(obj.bins) != exp_bins:
                V.add("%s:bins:%s:%s" % (gc.split(":")[0], mk, via), "bins is not max(voxel_map)+1", exp_bins, int(obj.bins))
                continue
            inv = obj.invert_voxel_map()
            if len(inv) != exp_bins or any(not (rvm[inv[s]] == s).all() or len(inv[s][0]) != int((rvm == s).sum()) for s in range(exp_bins)):
                V.add("%s:invert_voxel_map:%s" % (gc.split(":")[0], mk), "invert_voxel_map() is not the inverse of voxel_map", rvm.tolist(), [[a.tolist() for a in t] for t in inv])
            flatmap = rvm.ravel()
            if (flatmap < 0).any():
                classes.append("map:with-holes")
            if exp_bins < int((flatmap >= 0).sum()):
                classes.append("map:merged")
            if len(set(flatmap[flatmap >= 0].tolist())) < exp_bins:
                classes.append("map:empty-bin")
            EM, excM = _trace_all(w, exp_bins, Ow, Dw, sel)
            ntrace += len(sel)
            A = np.zeros((C, exp_bins))
            for c in range(C):
                if flatmap[c] >= 0:
                    A[c, flatmap[c]] = 1.0
            want = Ec @ A
            holes = "holes" if (flatmap < 0).any() else "noholes"
            merged = "merged" if exp_bins < int((flatmap >= 0).sum()) else "unmerged"
            for i in sel:
                if i in exc0:
                    continue
                if i in excM:
                    V.add("%s:%s:exception:%s:%s:%s" % (gc, mk, excM[i].split(":")[0], holes, merged), "tracing a ray with this map raised", "spectral array",
                          dict(_ray_desc(O, D, i), exception=excM[i], map=rvm.tolist(), via=via))
                    continue
                d = np.abs(EM[i, :exp_bins] - want[i])
                if (d > 1e-12 * scale[i]).any():
                    s = int(np.argmax(d))
                    empty = not (flatmap == s).any()
                    what = "empty-bin-nonzero" if empty else "source-vs-sum-of-cells"
                    V.add("%s:%s:%s:%s:%s:%s" % (gc, mk, what, holes, merged, via),
                          "entry of a source differs from the sum of its cells' entries under the one-source-per-cell map (masked / -1 cells must contribute nothing)",
                          {"source": s, "expected_entries": want[i].tolist()}, dict(_ray_desc(O, D, i), entries=EM[i, :exp_bins].tolist(), map=rvm.tolist(), identity_entries=Ec[i].tolist()))
            if via == "constructor":
                obj.parent = None
            nontrivial.append((gk, mk, flat))
        for i in exc0:
            V.add("%s:exception:%s:%s" % (gc, exc0[i].split(":")[0], _rcat(K[i])), "tracing a ray raised", "spectral array", dict(_ray_desc(O, D, i), exception=exc0[i]))
        if len(sel) == 0:
            return {"harness_error": "no hitting rays for the map case %r" % (case,)}
        states = [(gk, "maps", case["lo"], j) for j in range(len(fam))]
        outcome = (gk, "maps", case["lo"], ntrace, round(float(Ec.sum()), 6))

    return {"viol": V.out(), "classes": classes, "outcome": outcome, "n": max(ntrace, 1), "states": states,
            "transitions": max(ntrace, 1), "nontrivial": nontrivial}


def _run_pipeline(case, g, gc, world, rt, O, D, Ow, Dw, K, nb, hit, ref, V, classes):
    """VectorCamera + RayTransferPipeline2D and SightLine + RayTransferPipeline0D observing exactly the lattice rays:
    the matrix rows must equal the spectral arrays of the same rays traced directly (radiance kind; power kind =
    radiance x sensitivity, sensitivity 1 for the VectorCamera) and, for the one-source-per-cell map, sum to the chord."""
    import numpy as np
    from raysect.optical import Point3D, Vector3D, AffineMatrix3D
    from raysect.optical.observer import VectorCamera, SightLine
    from raysect.core.workflow import SerialEngine
    from cherab.tools.raytransfer import RayTransferPipeline0D, RayTransferPipeline2D
    C = int(np.prod(g["shape"]))
    if case["map"] == "merged-map":
        idx = list(np.ndindex(*g["shape"]))
        vm = np.array([-1 if (sum(ix) % 4 == 3) else (ix[0] + ix[2]) % 2 for ix in idx], dtype=np.int32).reshape(g["shape"])
        if vm.max() < 0:
            vm[...] = 0
        rt.voxel_map = vm
    bins = int(rt.bins)
    hits = [int(i) for i in np.nonzero(hit[:nb])[0]][::5][:96]
    miss = [int(i) for i in np.nonzero(~hit[:nb])[0]][::50][:24]
    sel = hits + miss
    if len(hits) < 8:
        return {"harness_error": "pipeline case with fewer than 8 hitting rays: %r" % (case,)}
    # VectorCamera anti-aliases *interior* pixels by random interpolation between the neighbours' directions;
    # with only two columns every pixel is an edge pixel and fires exactly its own ray
    nx, ny = len(sel) // 2, 2
    sel = sel[:nx * ny]
    E, exc = _trace_all(world, bins, Ow, Dw, sel)
    ntrace = len(sel)
    po = np.empty((nx, ny), dtype=object)
    pd = np.empty((nx, ny), dtype=object)
    for k, i in enumerate(sel):
        po[k // ny, k % ny] = Point3D(*Ow[i])
        pd[k // ny, k % ny] = Vector3D(*Dw[i])
    pk, ps = case["pkind"], case["pixel_samples"]

    def setup(obs):
        obs.spectral_bins = bins
        obs.min_wavelength, obs.max_wavelength = 500.0, 501.0
        obs.spectral_rays = 1
        obs.pixel_samples = ps
        obs.ray_extinction_prob = 0.0
        obs.ray_extinction_min_depth = 50
        obs.ray_max_depth = 100
        obs.quiet = True
        obs.render_engine = SerialEngine()
    pipe = RayTransferPipeline2D(kind=pk)
    cam = VectorCamera(po, pd, pipelines=[pipe], parent=world)
    setup(cam)
    try:
        cam.observe()
        M = np.asarray(pipe.matrix)
    except Exception as e:  # noqa
        V.add("pipeline:2D:%s:raises:%s" % (pk, type(e).__name__), "observing with RayTransferPipeline2D raised", "a matrix", "%s: %s" % (type(e).__name__, str(e)[:200]))
        M = None
    ntrace += len(sel) * ps
    cam.parent = None
    scale = np.maximum(1.0, ref["chord_hi"])
    if M is not None:
        if M.shape != (nx, ny, bins):
            V.add("pipeline:2D:%s:matrix-shape" % pk, "matrix shape is not (Nx, Ny, Nbin)", [nx, ny, bins], list(M.shape))
        else:
            for k, i in enumerate(sel):
                if i in exc:
                    continue
                row = M[k // ny, k % ny]
                if (np.abs(row - E[i, :bins]) > 1e-12 * scale[i]).any():
                    V.add("pipeline:2D:%s:row-vs-direct-trace:%s" % (pk, "samples>1" if ps > 1 else "samples=1"),
                          "row of the ray-transfer matrix differs from the spectral array of the same ray (VectorCamera, sensitivity 1)",
                          E[i, :bins].tolist(), dict(_ray_desc(O, D, i), row=row.tolist(), pixel_samples=ps, map=case["map"]))
                if case["map"] == "identity-map":
                    t = float(row.sum())
                    tol_sum = 4e-9 + 1e-12 * scale[i]
                    if t < ref["chord_lo"][i] - tol_sum or t > ref["chord_hi"][i] + tol_sum:
                        V.add("pipeline:2D:%s:row-sum-vs-chord" % pk, "row of the ray-transfer matrix does not sum to the chord length in the primitive",
                              {"chord_lo": float(ref["chord_lo"][i]), "chord_hi": float(ref["chord_hi"][i])}, dict(_ray_desc(O, D, i), row=row.tolist(), pixel_samples=ps))
    # 0D: a sight line along four of the hitting rays, sensitivity 2.5
    sens = 2.5
    for i in hits[:4]:
        if i in exc:
            continue
        f = Dw[i]
        up = np.array([1.0, 0.0, 0.0]) if abs(f[0]) < 0.9 else np.array([0.0, 1.0, 0.0])
        xax = np.cross(up, f)
        xax /= np.linalg.norm(xax)
        yax = np.cross(f, xax)
        m = np.eye(4)
        m[:3, 0], m[:3, 1], m[:3, 2], m[:3, 3] = xax, yax, f, Ow[i]
        p0 = RayTransferPipeline0D(kind=pk)
        sl = SightLine(pipelines=[p0], parent=world, transform=AffineMatrix3D(m.tolist()), sensitivity=sens)
        setup(sl)
        try:
            sl.observe()
            row = np.asarray(p0.matrix)
        except Exception as e:  # noqa
            V.add("pipeline:0D:%s:raises:%s" % (pk, type(e).__name__), "observing with RayTransferPipeline0D raised", "a matrix", "%s: %s" % (type(e).__name__, str(e)[:200]))
            sl.parent = None
            continue
        sl.parent = None
        ntrace += ps
        want = E[i, :bins] * (sens if pk == "power" else 1.0)
        # the sight line re-derives the ray from its transform: directions agree to rounding only, so entries (N*dt) agree to ~1e-9
        if row.shape != (bins,) or (np.abs(row - want) > 1e-8 * scale[i]).any():
            V.add("pipeline:0D:%s:row-vs-direct-trace:%s" % (pk, "samples>1" if ps > 1 else "samples=1"),
                  "ray-transfer matrix of a sight line differs from the spectral array of the same ray (x sensitivity for kind='power')",
                  want.tolist(), dict(_ray_desc(O, D, i), row=row.tolist(), pixel_samples=ps, sensitivity=sens, map=case["map"]))
    # one pipeline object serving several observations: ONE sight line with ONE RayTransferPipeline0D moved from ray to ray (the last
    # ray observed twice); every row must again be the direct trace of its ray, whatever was observed before
    p0 = RayTransferPipeline0D(kind=pk)
    sl = SightLine(pipelines=[p0], parent=world, sensitivity=sens)
    setup(sl)
    seq = [i for i in hits[:4] if i not in exc]
    for n_obs, i in enumerate(seq + seq[-1:]):
        f = Dw[i]
        up = np.array([1.0, 0.0, 0.0]) if abs(f[0]) < 0.9 else np.array([0.0, 1.0, 0.0])
        xax = np.cross(up, f)
        xax /= np.linalg.norm(xax)
        yax = np.cross(f, xax)
        m = np.eye(4)
        m[:3, 0], m[:3, 1], m[:3, 2], m[:3, 3] = xax, yax, f, Ow[i]
        sl.transform = AffineMatrix3D(m.tolist())
        try:
            sl.observe()
            row = np.asarray(p0.matrix)
        except Exception as e:  # noqa
            V.add("pipeline:0D:%s:re-used:raises:%s" % (pk, type(e).__name__), "observing again with the same RayTransferPipeline0D raised", "a matrix", "%s: %s" % (type(e).__name__, str(e)[:200]))
            break
        ntrace += ps
        want = E[i, :bins] * (sens if pk == "power" else 1.0)
        if row.shape != (bins,) or (np.abs(row - want) > 1e-8 * scale[i]).any():
            V.add("pipeline:0D:%s:re-used-pipeline:row-vs-direct-trace" % pk,
                  "ray-transfer matrix of observation number %d made with one and the same RayTransferPipeline0D differs from the spectral array of the ray observed" % (n_obs + 1),
                  want.tolist(), dict(_ray_desc(O, D, i), row=row.tolist(), pixel_samples=ps, sensitivity=sens, map=case["map"], observation=n_obs + 1))
            break
    sl.parent = None
    if M is not None and M.shape == (nx, ny, bins):
        cam.parent = world
        try:
            cam.observe()
            M2 = np.asarray(pipe.matrix)
            if M2.shape != M.shape or (np.abs(M2 - M) > 1e-12 * max(1.0, float(np.abs(M).max()))).any():
                V.add("pipeline:2D:%s:re-used-pipeline:second-observation-differs" % pk, "the second observation of the same camera with the same RayTransferPipeline2D gives another matrix",
                      M.reshape(-1, bins)[:4].tolist(), M2.reshape(-1, bins)[:4].tolist() if M2.ndim == 3 else list(M2.shape))
        except Exception as e:  # noqa
            V.add("pipeline:2D:%s:re-used:raises:%s" % (pk, type(e).__name__), "observing again with the same RayTransferPipeline2D raised", "a matrix", "%s: %s" % (type(e).__name__, str(e)[:200]))
        ntrace += len(sel) * ps
        cam.parent = None
    # two ray-transfer pipelines on ONE observer (both kinds in one pass): each matrix must be what the pipeline gives alone
    if M is not None and M.shape == (nx, ny, bins):
        other = "power" if pk == "radiance" else "radiance"
        pa, pb = RayTransferPipeline2D(kind=pk), RayTransferPipeline2D(kind=other)
        cam2 = VectorCamera(po, pd, pipelines=[pa, pb], parent=world)
        setup(cam2)
        try:
            cam2.observe()
            Ma, Mb = np.asarray(pa.matrix), np.asarray(pb.matrix)
            tolm = 1e-12 * max(1.0, float(np.abs(M).max()))
            # (VectorCamera: sensitivity 1, so both kinds give the same numbers)
            if Ma.shape != M.shape or Mb.shape != M.shape or (np.abs(Ma - M) > tolm).any() or (np.abs(Mb - M) > tolm).any():
                V.add("pipeline:2D:two-pipelines-on-one-observer:differs-from-single-pipeline", "two RayTransferPipeline2D (radiance and power) attached to one camera: a matrix differs from the one the pipeline gives alone",
                      M.reshape(-1, bins)[:3].tolist(), {"first": Ma.reshape(-1, bins)[:3].tolist() if Ma.ndim == 3 else list(Ma.shape),
                                                        "second": Mb.reshape(-1, bins)[:3].tolist() if Mb.ndim == 3 else list(Mb.shape)})
        except Exception as e:  # noqa
            V.add("pipeline:2D:two-pipelines-on-one-observer:raises:%s" % type(e).__name__, "observing with two ray-transfer pipelines raised", "two matrices", "%s: %s" % (type(e).__name__, str(e)[:200]))
        ntrace += 2 * len(sel) * ps
        cam2.parent = None
        classes.append("pipeline:two-on-one-observer")
    classes.append("pipeline:re-used-for-several-observations")
    classes.append("pipeline:2D:" + pk)
    classes.append("pipeline:0D:" + pk)
    classes.append("pipeline:pixel_samples=%d" % ps)
    classes.append("pipeline:" + case["map"])
    return {"ntrace": ntrace, "total": round(float(E.sum()), 6)}


def _origin_inside(g, o):
    if g["kind"] == "box":
        return all(0 < o[a] < g["shape"][a] * g["cell"][a] * (1 - 1e-5) for a in range(3))
    r = math.hypot(o[0], o[1])
    ro = g["rin"] + g["shape"][0] * g["dr"]
    return (g["rin"] + 1e-4 < r < ro - 1e-4) and (0 < o[2] < g["shape"][2] * g["dz"] * (1 - 1e-5))
