"""C20 - grid derivative operators and the ADMT regularisation operator (engine L: exhaustive input lattice).

Part 1 ("ops")    every generated operator on every grid of the lattice against analytic derivatives of a
                  polynomial basis (exactness on a basis => exactness on its span).
Part 2 ("admt")   calculate_admt on every (grid, flux map, anisotropy) of the lattice:
                    A  finite;  B  annihilates constants;
                    C  anisotropy 1: every row equals sqrt(dx dy) (Dxx + Dyy + diag(1/R) Dx), any flux map;
                    D  quadratic flux maps, interior cells: the five coefficients read off the rows equal the
                       analytic coefficients of div(D grad f) in cylindrical geometry (mc/refs/admt_ref.coef_ref).
Part 3 ("ladder") non-quadratic flux maps: the coefficients read off the interior rows converge to the analytic
                  ones when the grid is refined around a fixed point (consistency in the literal sense).
"""
import itertools

PROPERTY = "C20"
DRIVER = ("generate_derivative_operators(vertices, map1d2d, map2d1d)[op] @ field  and  "
          "calculate_admt(R, operators, psi, dx, dy, anisotropy) on an exhaustive lattice of grids x flux maps x anisotropies")

SIZES = {"quick": list(range(2, 7)), "thorough": list(range(2, 10))}
SPACINGS = [(dx, dy) for dx in (0.1, 0.25, 1.0) for dy in (0.1, 0.25, 1.0)]
ADMT_SPACINGS = {"quick": [(0.1, 0.1), (0.25, 0.1), (1.0, 0.25)], "thorough": SPACINGS}
ADMT_SPACINGS_LARGE = [(0.1, 0.1), (0.25, 0.1), (1.0, 0.25), (0.1, 1.0)]      # grids with a side of 7..9 cells (thorough only)
ORIGINS = {"quick": [(0.0, 0.0), (1.5, -2.0)], "thorough": [(0.0, 0.0), (1.5, -2.0), (0.3, 0.7)]}
ADMT_ORIGINS = {"quick": [(0.0, 0.0), (1.5, -2.0)], "thorough": [(0.0, 0.0), (1.5, -2.0)]}
ANISO = {"quick": [1, 3, 10, 1000.0], "thorough": [1, 1.5, 3, 10, 100, 1000.0]}
LADDER_H = [0.1, 0.05, 0.025, 0.0125]
LADDER_POINTS = {"quick": [(1.4, 0.3), (0.6, -0.5), (2.2, 1.1)],
                 "thorough": [(1.4, 0.3), (0.6, -0.5), (2.2, 1.1), (0.9, 0.9), (3.1, -2.0)]}
LADDER_SHAPES = {"quick": [(3, 3), (5, 5)], "thorough": [(3, 3), (5, 5), (4, 6), (7, 3)]}
LADDER_RATIOS = {"quick": [1.0, 0.5], "thorough": [1.0, 0.5, 2.0]}
GRAD_MIN = 1e-3          # |grad psi|^2 (analytic and discrete) must exceed this in every cell
LADDER_GRAD_MIN = 5e-2

ALPHABET = {
    "grid sizes": "n_x, n_y in {2..6}^2 (quick) / {2..9}^2 (thorough)",
    "voxel width, height": "dx, dy in {0.1, 0.25, 1}^2 (ops: all 9; admt quick: (0.1,0.1), (0.25,0.1), (1,0.25); admt thorough: all 9 for n <= 6, those three and (0.1,1) for n in 7..9)",
    "origins (lower-left corner)": "(0,0), (1.5,-2) [+ (0.3,0.7) for the operators in thorough]",
    "1-D orderings / index maps": "column-major (documented), row-major, column boustrophedon; vertex order rotated; maps built by the reference, their entries inserted in key order or in another order",
    "fields": "1, 3.7 | x, y, 3-2x+y/2 | xy, 1+x-2y+1.5xy | x^2, y^2, 3-2x+y/2+1.5xy-x^2+y^2/4",
    "flux maps": "all a x + b y + c x^2 + d xy + e y^2 with coefficients in {-1,0,1,2} up to a non-zero factor (871 classes; linear "
                 "ones included), Solov'ev-like quartics kappa x^2 (y-y0)^2 + (x^2-r0^2)^2/4 (2 quick / 6 thorough) and 4 more "
                 "cubics/quartics (thorough); kept when |grad psi|^2 >= 1e-3 analytically and discretely in every cell",
    "anisotropy": "{1, 3, 10, 1e3} quick / {1, 1.5, 3, 10, 100, 1e3} thorough",
    "refinement ladder": "grids 3x3, 5x5 (+4x6, 7x3) centred on 3 (5) points, dx = h in {0.1, 0.05, 0.025, 0.0125}, dy/dx in {1, 0.5} (+2)",
}
BOUND = {"quick": "n_x, n_y <= 6; 3 admt spacings; 4 anisotropies; 2 quartic flux maps; ladder 3 points x 2 shapes x 2 ratios",
         "thorough": "n_x, n_y <= 9; all 9 spacings (4 for admt on grids with a side > 6); 6 anisotropies; 10 cubic/quartic flux maps; ladder 5 points x 4 shapes x 3 ratios"}
RULE = ("ops: one case per grid size, all spacings x origins x orderings x operators x fields inside; admt: one case per "
        "(size, spacing, origin), every flux map x anisotropy inside, the ordering is a fixed rotation over the lattice point; ladder: one case per "
        "(point, shape, ratio, flux map).  Non-trivial = (grid, operator, non-constant field) for the operators, and for the ADMT "
        "operator (grid, flux map with a non-zero second derivative) - a curved flux map, for which the second-derivative terms of "
        "the operator are live (a linear flux map silences them)")
ASSUMPTIONS = [
    "2-D index convention of admt_utils: ix grows with x, iy grows as y decreases (row 0 on top), as documented in its comments and unit test",
    "D = D_par b b^T + D_perp n n^T with D_par = 1, D_perp = 1/anisotropy (ratio from the docstring, scale from the anisotropy-one clause / Ingesson eq. 56)",
    "the ADMT operator is assembled from the operators handed to calculate_admt (documented); the coefficient oracles D and the ladder read "
    "coefficients off interior rows, which is valid because those operators are verified to be exact on quadratics at interior cells "
    "(otherwise reference tensor-product operators are handed to calculate_admt instead)",
    "floating-point tolerances: operators 32 eps (1 + L/h) (sum|row||f| + |expected|) (spacing recovered from centre differences); "
    "identity 1e-10 of the row maximum; coefficients 1e-9 max(1, |coefficients|)",
    "flux maps are restricted to those whose analytic and discrete |grad psi|^2 >= 1e-3 in every cell (property: non-vanishing gradient)",
]
REQUIRED_CLASSES = (
    ["ops:integer-vertex-array"] +
    ["ops:order=%s" % o for o in ("col", "row", "snake")]
    + ["ops:cell=%s" % c for c in ("interior", "left-edge", "right-edge", "top-edge", "bottom-edge", "top-left-corner",
                                   "top-right-corner", "bottom-left-corner", "bottom-right-corner")]
    + ["ops:%s:%s" % (o, f) for o in ("Dx", "Dy", "Dxx", "Dxy", "Dyy") for f in ("constant", "linear")]
    + ["ops:Dxy:bilinear", "ops:Dxx:quadratic:interior", "ops:Dyy:quadratic:interior",
       "admt:ops=generated", "admt:order=col", "admt:order=row", "admt:order=snake", "admt:finite", "admt:constants", "admt:psi-rescaled", "admt:aniso=1:identity:psi=linear",
       "admt:aniso=1:identity:psi=quadratic", "admt:aniso=1:identity:psi=higher", "admt:aniso=1:identity:no-interior",
       "admt:coefficients:quadratic-psi:interior:aniso=1", "admt:coefficients:quadratic-psi:interior:aniso>1",
       "admt:psi:vanishing-gradient:skipped", "ladder:checked", "ladder:aniso=1", "ladder:aniso>1"]
)
BUDGET_S = {"quick": 400, "thorough": 2400}     # caps (the machine is shared), not targets
CHUNK = 1

_R = None


def setup_worker(tier):
    global _R
    from mc.refs import admt_ref
    admt_ref.selftest()
    _R = admt_ref


def _ref():
    global _R
    if _R is None:
        setup_worker(None)
    return _R


def cases(tier):
    out = []
    sizes = SIZES[tier]
    for nx in sizes:
        for ny in sizes:
            out.append({"kind": "ops", "tier": tier, "nx": nx, "ny": ny, "label": "ops"})
    for nx in reversed(sizes):                      # the large (slow) grids first: no long tail in the pool
        for ny in reversed(sizes):
            for (dx, dy) in (ADMT_SPACINGS[tier] if max(nx, ny) <= 6 else ADMT_SPACINGS_LARGE):
                for (x0, y0) in ADMT_ORIGINS[tier]:
                    # ordering / vertex rotation: a fixed function of the lattice point (same in both tiers)
                    k = nx + 2 * ny + SPACINGS.index((dx, dy)) + ADMT_ORIGINS[tier].index((x0, y0))
                    out.append({"kind": "admt", "tier": tier, "nx": nx, "ny": ny, "dx": dx, "dy": dy, "x0": x0, "y0": y0,
                                "order": ("col", "row", "snake")[k % 3], "vrot": k % 4, "label": "admt"})
    from mc.refs import admt_ref
    names = [n for n, _ in admt_ref.higher_family(tier)]
    for p in LADDER_POINTS[tier]:
        for shp in LADDER_SHAPES[tier]:
            for r in LADDER_RATIOS[tier]:
                for nm in names:
                    out.append({"kind": "ladder", "tier": tier, "point": list(p), "shape": list(shp), "ratio": r, "psi": nm,
                                "label": "ladder"})
    return out


class Viol:
    """one violation per signature and case (the runner keeps the first case per signature)"""

    def __init__(self):
        self.d = {}

    def add(self, sig, what, expected, observed):
        sig = "C20:" + sig
        if sig not in self.d:
            self.d[sig] = {"sig": sig, "what": what, "expected": expected, "observed": observed}

    def has(self, sig):
        return "C20:" + sig in self.d

    def list(self):
        return [self.d[k] for k in sorted(self.d)]


def _gen_ops(g):
    from cherab.tools.inversions.admt_utils import generate_derivative_operators
    return generate_derivative_operators(g["verts"], g["m12"], g["m21"])


def _gdesc(g):
    return "grid %dx%d dx=%g dy=%g origin=(%g,%g) order=%s" % (g["nx"], g["ny"], g["dx"], g["dy"], g["x0"], g["y0"], g["order"])


# ------------------------------------------------------------------------------------------------ part 1
def _fields():
    R = _ref()
    X, Y, ONE = R.X, R.Y, R.ONE
    return [
        ("constant", "1", ONE), ("constant", "3.7", 3.7 * ONE),
        ("linear", "x", X), ("linear", "y", Y), ("linear", "3-2x+y/2", 3.0 * ONE - 2.0 * X + 0.5 * Y),
        ("bilinear", "xy", X * Y), ("bilinear", "1+x-2y+1.5xy", ONE + X - 2.0 * Y + 1.5 * X * Y),
        ("quadratic", "x^2", X * X), ("quadratic", "y^2", Y * Y),
        ("quadratic", "3-2x+y/2+1.5xy-x^2+y^2/4", 3.0 * ONE - 2.0 * X + 0.5 * Y + 1.5 * X * Y - X * X + 0.25 * Y * Y),
    ]


# which (operator, field class) pairs the property speaks about, and on which cells
def _domain(op, fcls):
    if fcls == "constant":
        return "all"
    if op in ("Dx", "Dy"):
        return "all" if fcls == "linear" else None
    if op == "Dxy":
        return "all" if fcls in ("linear", "bilinear") else None
    return "interior"          # Dxx, Dyy: linear, bilinear, quadratic fields at interior cells


def _ops_case(case):
    import numpy as np
    R = _ref()
    tier = case["tier"]
    nx, ny = case["nx"], case["ny"]
    viol, classes, states, nontrivial = Viol(), [], [], []
    n = 0
    worst = 0.0
    fields = _fields()
    deriv = {"Dx": lambda f: f.d(0), "Dy": lambda f: f.d(1), "Dxx": lambda f: f.d(0).d(0), "Dxy": lambda f: f.d(0).d(1),
             "Dyy": lambda f: f.d(1).d(1)}
    combos = list(itertools.product(SPACINGS, ORIGINS[tier], R.ORDERS))
    # one grid whose vertices are integers (voxel size 2 x 4, integer origin): exercised as float64, int64 and nested lists
    combos += [((2.0, 4.0), (3.0, -8.0), order) for order in R.ORDERS]
    for gi, ((dx, dy), (x0, y0), order) in enumerate(combos):
        vrot = (int(dx * 4 + dy * 16) + int(abs(x0) * 10 + abs(y0)) + R.ORDERS.index(order)) % 4   # tier independent
        g = R.build_grid(nx, ny, dx, dy, x0, y0, order, vrot=vrot)
        gk = (nx, ny, dx, dy, x0, y0, order)
        classes.append("ops:order=%s" % order)
        for c in sorted({R.cell_class(g, i) for i in range(g["n"])}):
            classes.append("ops:cell=%s" % c)
        try:
            ops = _gen_ops(g)
        except Exception as e:  # noqa
            viol.add("generate_derivative_operators:raises:%s" % type(e).__name__, _gdesc(g), "a dict of five operators", repr(e)[:200])
            continue
        if sorted(ops.keys()) != sorted(R.OPS) or any(np.shape(ops[k]) != (g["n"], g["n"]) for k in R.OPS):
            viol.add("generate_derivative_operators:result-structure", _gdesc(g), "keys %s, each %dx%d" % (list(R.OPS), g["n"], g["n"]),
                     {k: list(np.shape(v)) for k, v in ops.items()})
            continue
        # the same grid with its (here integer-valued) vertex coordinates passed as an integer array, and as nested lists:
        # the operators must not depend on the container / dtype the vertices arrive in
        if bool(np.all(np.asarray(g["verts"]) == np.round(np.asarray(g["verts"])))):
            classes.append("ops:integer-vertex-array")
            from cherab.tools.inversions.admt_utils import generate_derivative_operators as _gdo
            for vname, vv in (("int64-array", np.asarray(g["verts"]).astype(np.int64)), ("nested-lists", np.asarray(g["verts"]).tolist())):
                try:
                    ops2 = _gdo(vv, g["m12"], g["m21"])
                    worst2 = max(float(np.abs(np.asarray(ops2[k], dtype=float) - np.asarray(ops[k], dtype=float)).max()) for k in R.OPS)
                except Exception as e:  # noqa
                    viol.add("generate_derivative_operators:vertices=%s:raises:%s" % (vname, type(e).__name__), _gdesc(g), "same operators as for a float64 array", repr(e)[:200])
                    continue
                n += 1
                if worst2 > 1e-12 * (1 + g["L"] / g["h"]) / g["h"] ** 2:
                    viol.add("generate_derivative_operators:vertices=%s:differs-from-float64-vertices" % vname, _gdesc(g), 0.0, worst2)
        scale = 32 * R.EPS * (1 + g["L"] / g["h"])
        for op in R.OPS:
            M = np.asarray(ops[op], dtype=float)
            rowabs = np.abs(M)
            if op in ("Dx", "Dxx"):
                ccls = g["colcls"]
            elif op in ("Dy", "Dyy"):
                ccls = g["rowcls"]
            else:
                ccls = np.array([R.cell_class(g, i) for i in range(g["n"])])
            failed_lower = np.zeros(g["n"], dtype=bool)     # cells where a lower field class already failed
            prev_cls, failed_this = None, np.zeros(g["n"], dtype=bool)
            for fcls, fname, f in fields:
                if fcls != prev_cls:
                    failed_lower |= failed_this
                    prev_cls, failed_this = fcls, np.zeros(g["n"], dtype=bool)
                dom = _domain(op, fcls)
                if dom is None:
                    continue
                sel = g["interior"] if dom == "interior" else np.ones(g["n"], dtype=bool)
                if not sel.any():
                    continue
                fv = f(g["X"], g["Y"])
                exp = deriv[op](f)(g["X"], g["Y"])
                got = M @ fv
                tol = scale * (rowabs @ np.abs(fv) + np.abs(exp))
                err = np.abs(got - exp)
                n += 1
                states.append((gk, op, fname))
                if fcls != "constant":
                    nontrivial.append((gk, op, fname))
                classes.append("ops:%s:%s%s" % (op, fcls, ":interior" if dom == "interior" and fcls == "quadratic" else ""))
                ok = np.isfinite(got) & (err <= tol)
                with np.errstate(invalid="ignore", divide="ignore"):
                    w = np.nanmax(np.where(sel & (tol > 0), err / np.where(tol > 0, tol, 1), 0.0))
                worst = max(worst, float(w))
                failed_this |= sel & ~ok
                bad = np.flatnonzero(sel & ~ok & ~failed_lower)
                for i in bad:
                    cl = str(ccls[i]) if dom == "all" else "interior"
                    viol.add("%s:%s:%s" % (op, fcls, cl),
                             "%s @ (%s) at cell (ix=%d, iy=%d) [%s] of %s" % (op, fname, g["IX"][i], g["IY"][i], R.cell_class(g, i), _gdesc(g)),
                             float(exp[i]), float(got[i]))
    return {"viol": viol.list(), "classes": classes, "n": max(n, 1), "states": states, "transitions": max(n, 1),
            "nontrivial": nontrivial, "outcome": ("ops", nx, ny, n, len(viol.d), "worst-err/tol<%s" % _bucket(worst))}


def _bucket(w):
    for b in (0.001, 0.01, 0.1, 0.5, 1.0):
        if w < b:
            return str(b)
    return "inf"


# ------------------------------------------------------------------------------------------------ part 2
def _psi_family(tier):
    R = _ref()
    fam = [("quad:%d,%d,%d,%d,%d" % w, R.quadratic(*w), ("linear" if not any(w[2:]) else "quadratic")) for w in R.quadratic_family()]
    fam += [(nm, p, "higher") for nm, p in R.higher_family(tier)]
    return fam


def _prepare_ops(g, viol):
    """generated operators (or the reference ones when the generated are not exact on quadratics inside)"""
    R = _ref()
    mono = R.local_monomials(g)
    refops = R.ref_operators(g)
    try:
        ops = _gen_ops(g)
        ops = {k: ops[k] for k in R.OPS}
    except Exception as e:  # noqa
        viol.add("generate_derivative_operators:raises:%s" % type(e).__name__, _gdesc(g), "a dict of five operators", repr(e)[:200])
        return refops, refops, mono, "admt:ops=reference-fallback"
    if R.ops_exact_on_quadratics(ops, g, mono):
        return ops, refops, mono, "admt:ops=generated"
    return refops, refops, mono, "admt:ops=reference-fallback"


def _read_coefficients(A, s, mono, rows):
    """coefficients multiplying Dx, Dy, Dxx, Dxy (operator enters twice), Dyy at the given rows"""
    import numpy as np
    div = (1.0, 1.0, 2.0, 2.0, 2.0)
    return np.array([(A[rows] * mono[k][rows]).sum(axis=1) / s / div[k] for k in range(5)])


PSI_RESCALE = 2.0e-4      # a flux map given in other units (Wb -> 5 kWb): |grad psi|^2 drops below 1e-6 at gradients of order one


def _admt_case(case):
    import numpy as np
    from cherab.tools.inversions.admt_utils import calculate_admt
    R = _ref()
    tier = case["tier"]
    g = R.build_grid(case["nx"], case["ny"], case["dx"], case["dy"], case["x0"], case["y0"], case["order"], vrot=case["vrot"])
    gk = (g["nx"], g["ny"], g["dx"], g["dy"], g["x0"], g["y0"])
    viol, classes, states, nontrivial = Viol(), [], [], []
    ops, refops, mono, opcls = _prepare_ops(g, viol)
    classes.append(opcls)
    classes.append("admt:order=%s" % g["order"])
    dx, dy = g["dx"], g["dy"]
    s = float(np.sqrt(dx * dy))
    Xc, Yc = g["X"], g["Y"]
    it = g["interior"]
    have_int = bool(it.any())
    lap = s * (ops["Dxx"] + ops["Dyy"] + (1.0 / Xc)[:, None] * ops["Dx"])      # expected operator for anisotropy one
    lap_tol = 1e-10 * np.abs(lap).max(axis=1)
    dec = None
    ops_before = {k: np.array(ops[k], copy=True) for k in R.OPS}
    n = 0
    worstC = worstD = 0.0
    for name, psi, pcls in _psi_family(tier):
        pv = psi(Xc, Yc)
        d = psi.derivs(Xc, Yc)
        Nan = d[0] ** 2 + d[1] ** 2
        Nd1 = (ops["Dx"] @ pv) ** 2 + (ops["Dy"] @ pv) ** 2
        Nd2 = (refops["Dx"] @ pv) ** 2 + (refops["Dy"] @ pv) ** 2
        if min(Nan.min(), Nd1.min(), Nd2.min()) < GRAD_MIN:
            classes.append("admt:psi:vanishing-gradient:skipped")
            continue
        states.append((gk, name))
        if pcls != "linear":
            nontrivial.append((gk, name))
        for a in ANISO[tier]:
            n += 1
            desc = "psi=%s anisotropy=%g on %s" % (name, a, _gdesc(g))
            try:
                A = calculate_admt(Xc.copy(), ops, pv.copy(), dx, dy, anisotropy=a)
            except Exception as e:  # noqa
                viol.add("calculate_admt:raises:%s" % type(e).__name__, desc, "an operator", repr(e)[:200])
                continue
            A = np.asarray(A)
            if A.shape != (g["n"], g["n"]):
                viol.add("calculate_admt:result-shape", desc, [g["n"], g["n"]], list(A.shape))
                continue
            # A: finite
            classes.append("admt:finite")
            if not np.isfinite(A).all():
                i = int(np.flatnonzero(~np.isfinite(A).all(axis=1))[0])
                viol.add("admt:not-finite:psi=%s" % pcls, "row %d [%s]; %s" % (i, R.cell_class(g, i), desc), "finite entries",
                         "min |grad psi|^2 = %g" % float(Nd1.min()))
                continue
            # B: constants
            classes.append("admt:constants")
            r1 = A @ np.ones(g["n"])
            tolB = 64 * R.EPS * (1 + g["L"] / g["h"]) * np.abs(A).sum(axis=1)
            badB = np.flatnonzero(np.abs(r1) > tolB)
            if badB.size:
                i = int(badB[0])
                viol.add("admt:constant-not-annihilated", "row %d [%s]; %s" % (i, R.cell_class(g, i), desc), 0.0, float(r1[i]))
            # C: anisotropy one => cylindrical Laplacian, every row, any flux map
            if a == 1:
                classes.append("admt:aniso=1:identity:psi=%s" % pcls)
                if not have_int:
                    classes.append("admt:aniso=1:identity:no-interior")
                diff = np.abs(A - lap).max(axis=1)
                worstC = max(worstC, float((diff / lap_tol).max()))
                badC = np.flatnonzero(diff > lap_tol)
                if badC.size:
                    if dec is None:
                        dec = R.RowDecomposer(ops)
                    codes = dec.label_codes((A[badC] - lap[badC]) / s, badC, lap_tol[badC] / s)
                    # a mismatch that is one common factor on the whole row is reported as such
                    lam = (A[badC] * lap[badC]).sum(axis=1) / (lap[badC] ** 2).sum(axis=1)
                    codes[np.abs(A[badC] - lam[:, None] * lap[badC]).max(axis=1) <= lap_tol[badC]] = 64
                    for code in sorted(set(codes.tolist())):
                        sig = "admt:aniso=1:%s" % ("overall-scale" if code == 64 else dec.code_label(code) + "-term")
                        if viol.has(sig):
                            continue
                        i = int(badC[np.flatnonzero(codes == code)[0]])
                        j = int(np.argmax(np.abs(A[i] - lap[i])))
                        viol.add(sig, "row %d [%s] differs from sqrt(dx dy)(Dxx + Dyy + Dx/R) in column %d; %s" % (i, R.cell_class(g, i), j, desc),
                                 float(lap[i, j]), float(A[i, j]))
            # E: only the direction of grad psi enters (b = grad psi / |grad psi|): the flux map in other units gives the same operator
            classes.append("admt:psi-rescaled")
            try:
                A2 = np.asarray(calculate_admt(Xc.copy(), ops, (pv * PSI_RESCALE).copy(), dx, dy, anisotropy=a))
                tolE = 1e-9 * np.maximum(np.abs(A).max(axis=1), 1e-300)
                badE = np.flatnonzero(~(np.abs(A2 - A).max(axis=1) <= tolE))
                if badE.size:
                    i = int(badE[0])
                    j = int(np.argmax(np.abs(A2[i] - A[i])))
                    viol.add("admt:depends-on-the-units-of-psi:aniso%s" % ("=1" if a == 1 else ">1"),
                             "row %d [%s], column %d: calculate_admt(psi x %g) differs from calculate_admt(psi); %s" % (i, R.cell_class(g, i), j, PSI_RESCALE, desc),
                             float(A[i, j]), float(A2[i, j]))
            except Exception as e:  # noqa
                viol.add("calculate_admt:psi-rescaled:raises:%s" % type(e).__name__, desc, "an operator", repr(e)[:200])
            # D: quadratic flux map, interior cells: coefficients of div(D grad f)
            if pcls != "higher" and have_int:
                classes.append("admt:coefficients:quadratic-psi:interior:aniso%s" % ("=1" if a == 1 else ">1"))
                got = _read_coefficients(A, s, mono, it)
                exp = R.coef_ref(d[0][it], d[1][it], d[2][it], d[3][it], d[4][it], Xc[it], float(a))
                tolD = 1e-9 * np.maximum(1.0, np.abs(exp).max(axis=0))
                err = np.abs(got - exp)
                worstD = max(worstD, float((err / tolD).max()))
                badD = err > tolD
                if badD.any():
                    lam = (got * exp).sum(axis=0) / (exp ** 2).sum(axis=0)
                    scaled = badD.any(axis=0) & (np.abs(got - lam[None, :] * exp) <= tolD[None, :]).all(axis=0)
                    if scaled.any():
                        badD[:, scaled] = False
                        sig = "admt:coefficients:quadratic-psi:overall-scale"
                        if not viol.has(sig):
                            c = int(np.flatnonzero(scaled)[0])
                            i = int(np.flatnonzero(it)[c])
                            viol.add(sig, "all five coefficients read off interior row %d carry the common factor; %s" % (i, desc), 1.0, float(lam[c]))
                    for k in np.flatnonzero(badD.any(axis=1)):
                        sig = "admt:coefficients:quadratic-psi:%s-term" % R.TERMS[k]
                        if viol.has(sig):
                            continue
                        c = int(np.flatnonzero(badD[k])[0])
                        i = int(np.flatnonzero(it)[c])
                        viol.add(sig, "coefficient of %s read off interior row %d (x=%g, y=%g); %s" % (R.OPS[k], i, Xc[i], Yc[i], desc),
                                 float(exp[k, c]), float(got[k, c]))
    if any(not np.array_equal(ops_before[k], ops[k]) for k in R.OPS):
        viol.add("calculate_admt:mutates-its-operators", _gdesc(g), "derivative operators unchanged by the call", "changed in place")
    return {"viol": viol.list(), "classes": classes, "n": max(n, 1), "states": states, "transitions": max(n, 1),
            "nontrivial": nontrivial,
            "outcome": ("admt", gk, n, len(viol.d), "C<%s" % _bucket(worstC), "D<%s" % _bucket(worstD))}


# ------------------------------------------------------------------------------------------------ part 3
def _ladder_case(case):
    import numpy as np
    from cherab.tools.inversions.admt_utils import calculate_admt
    R = _ref()
    tier = case["tier"]
    px, py = case["point"]
    nx, ny = case["shape"]
    ratio = case["ratio"]
    psi = dict(R.higher_family(tier))[case["psi"]]
    viol, classes, states, nontrivial = Viol(), [], [], []
    n = 0
    errs = {a: [] for a in ANISO[tier]}
    refmax = {a: 1.0 for a in ANISO[tier]}
    skipped = False
    raised = set()
    for h in LADDER_H:
        dx, dy = h, h * ratio
        g = R.build_grid(nx, ny, dx, dy, px - nx * dx / 2, py - ny * dy / 2, "col")
        if g["X"].min() <= 0:
            skipped = True
            break
        d = psi.derivs(g["X"], g["Y"])
        if (d[0] ** 2 + d[1] ** 2).min() < LADDER_GRAD_MIN:
            skipped = True
            break
        ops, refops, mono, opcls = _prepare_ops(g, viol)
        pv = psi(g["X"], g["Y"])
        if ((ops["Dx"] @ pv) ** 2 + (ops["Dy"] @ pv) ** 2).min() < GRAD_MIN:
            skipped = True
            break
        it = g["interior"]
        s = float(np.sqrt(dx * dy))
        for a in ANISO[tier]:
            n += 1
            try:
                A = np.asarray(calculate_admt(g["X"].copy(), ops, pv.copy(), dx, dy, anisotropy=a))
            except Exception as e:  # noqa
                viol.add("calculate_admt:raises:%s" % type(e).__name__, "psi=%s anisotropy=%g on %s" % (case["psi"], a, _gdesc(g)),
                         "an operator", repr(e)[:200])
                raised.add(a)
                A = np.zeros((g["n"], g["n"]))
            got = _read_coefficients(A, s, mono, it)
            exp = R.coef_ref(d[0][it], d[1][it], d[2][it], d[3][it], d[4][it], g["X"][it], float(a))
            errs[a].append(np.abs(got - exp).max(axis=1))
            refmax[a] = max(refmax[a], float(np.abs(exp).max()))
    if skipped:
        return {"viol": viol.list(), "classes": ["ladder:skipped:vanishing-gradient-or-R<=0"], "n": 1, "states": [], "transitions": 1,
                "nontrivial": [], "outcome": ("ladder", "skipped")}
    states.append((tuple(case["point"]), tuple(case["shape"]), ratio, case["psi"]))
    nontrivial.append(states[-1])
    conv = True
    for a in ANISO[tier]:
        if a in raised:
            conv = False
            continue
        classes.append("ladder:aniso=1" if a == 1 else "ladder:aniso>1")
        e = np.array(errs[a])                      # levels x 5
        # a consistent scheme: the error of every coefficient vanishes with h (here O(h^2): at least halved per
        # halving of h, 4x expected), down to the rounding floor eps |psi| / h^2 amplified by 1/|grad psi|^2
        floor = 1e-8 * refmax[a]
        for k in range(5):
            for lvl in range(len(LADDER_H) - 1):
                if not (e[lvl + 1, k] <= 0.5 * e[lvl, k] + floor):
                    conv = False
                    viol.add("admt:refinement:%s-term" % R.TERMS[k],
                             "error of the coefficient of %s at interior cells does not vanish under refinement h=%g -> %g; "
                             "psi=%s anisotropy=%g grid %dx%d centred (%g,%g) dy/dx=%g" % (R.OPS[k], LADDER_H[lvl], LADDER_H[lvl + 1],
                                                                                          case["psi"], a, nx, ny, px, py, ratio),
                             "<= %.3g" % (0.5 * e[lvl, k] + floor), float(e[lvl + 1, k]))
    classes.append("ladder:checked")
    classes.append("ladder:converged" if conv else "ladder:not-converged")
    return {"viol": viol.list(), "classes": classes, "n": max(n, 1), "states": states, "transitions": max(n, 1),
            "nontrivial": nontrivial, "outcome": ("ladder", case["psi"], tuple(case["point"]), conv)}


def run_case(case):
    if case["kind"] == "ops":
        return _ops_case(case)
    if case["kind"] == "admt":
        return _admt_case(case)
    return _ladder_case(case)
