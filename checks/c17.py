"""C17 - AxisymmetricVoxel area / centroid / volume exact and independent of vertex order; ToroidalVoxelGrid
total volume; emissivity_from_function triangle-selection map (engine L + hook H1).

Every simple lattice polygon of the declared families is placed at several radii / heights / scales, handed to
the real AxisymmetricVoxel in every cyclic rotation and both directions, and compared with exact rational
geometry (mc/refs/polygons17.py: fan decomposition, fractions).  The triangle-selection variate of
emissivity_from_function is owned through `cherab.tools.inversions.voxels._verif_uniform` and enumerated over a
u-lattice that pins the selection map on every piece of [0, 1).
"""
import collections
import math
import mmap
import os
import pickle
import struct
import traceback
from fractions import Fraction as Fr

from mc.refs import polygons17 as PG

PROPERTY = "C17"
DRIVER = ("AxisymmetricVoxel(vertices) -> cross_sectional_area / cross_section_centroid / volume / vertices / "
          "emissivity_from_function(hooked u); ToroidalVoxelGrid(groups of 1..4 polygons).total_volume")

# (label, r0, z0, scale): lattice point (i, j) becomes the float pair (r0 + scale*i, z0 + scale*j)
PLACEMENTS = {
    "r0.5,z-1,s1": (0.5, -1.0, 1.0),
    "r3,z2,s1": (3.0, 2.0, 1.0),
    "r0.5,z2,s1": (0.5, 2.0, 1.0),
    "r3,z-1,s1": (3.0, -1.0, 1.0),
    "r0,z-1,s1": (0.0, -1.0, 1.0),          # polygon touching the axis
    "r3,z2,s0.25": (3.0, 2.0, 0.25),
    "r0.5,z-1,s0.1": (0.5, -1.0, 0.1),      # non-dyadic: every product is rounded
    "r3,z2,s0.1": (3.0, 2.0, 0.1),
    "r0.7,z0.3,s1/3": (0.7, 0.3, 1.0 / 3.0),
    "r3.1,z2.3,s0.1": (3.1, 2.3, 0.1),
}
P_ALL_QUICK = ["r0.5,z-1,s1", "r3,z2,s1", "r0,z-1,s1", "r3,z2,s0.25", "r0.5,z-1,s0.1", "r3,z2,s0.1"]
P_SOME = ["r0.5,z-1,s1", "r3,z2,s1", "r0,z-1,s1", "r3,z2,s0.1", "r0.7,z0.3,s1/3"]
P_FEW = ["r0.5,z-1,s1", "r3,z2,s0.1"]
P_ALL = list(PLACEMENTS)

# family (lattice size, vertex count) -> placements, per tier.  thorough is a strict superset of quick.
# (heaviest families first, so that the dynamic pool ends on light cases)
FAMILIES = {
    "quick": [((4, 5), P_FEW), ((4, 4), P_ALL_QUICK), ((4, 3), P_ALL_QUICK)] + [((3, k), P_ALL_QUICK) for k in (6, 5, 4, 3)],
    "thorough": [((4, 6), P_SOME)] + [((4, k), P_ALL) for k in (5, 4, 3)] + [((3, k), P_ALL) for k in (8, 7, 6, 5, 4, 3)],
}
# a bucket of a big family is cut into SLICES[(n, k)] cases (polygon index modulo) to keep the cases comparable in weight
SLICES = {(4, 5): 2, (4, 6): 8}
CHUNK = 1

ALPHABET = {
    "polygons": "ALL simple polygons (no crossing/touching of non-adjacent edges, 180-degree vertices allowed) with k vertices on the "
                "n x n integer lattice, canonical up to rotation/direction: quick n=3,k=3..6 and n=4,k=3..5; thorough n=3,k=3..8 and n=4,k=3..6",
    "placements (r0, z0, scale)": {k: list(v) for k, v in PLACEMENTS.items()},
    "vertex order": "every cyclic rotation x both directions; container alternates list-of-tuples / numpy array / list of Point2D",
    "u lattice (triangle-selection variate via hook H1)": [
        "0", "2^-53", "midpoint of every non-empty cumulative-area interval",
        "every interior boundary c_k/A: nearest double, -1 ulp, +1 ulp (decisive for exactly representable coordinates), "
        "-2 band, +2 band (decisive for rounded coordinates)", "1-2^-53", "1-2^-52 (exactly representable coordinates only)", "1 - 2 band (decisive)"],
    "emission functions": ["recording python callable returning 2.5", "Constant3D(2.5)", "unhooked uniform(), 10 samples"],
    "grids": "ToroidalVoxelGrid of 1, 2, 3, 4 consecutive polygons of a bucket, each in a different rotation/direction",
    "primitive_type": "csg everywhere; mesh additionally for the canonical order at r3,z2,s1 (thorough)",
}
BOUND = {
    "quick": "all simple polygons: 3x3 lattice 3..6 vertices and 4x4 lattice 3..4 vertices x 6 placements, 4x4 5 vertices x 2 placements; all 2k vertex orders; full u lattice",
    "thorough": "all simple polygons: 3x3 lattice 3..8 vertices and 4x4 lattice 3..5 vertices x 10 placements, 4x4 6 vertices x 5 placements; all 2k vertex orders; full u lattice; mesh primitive",
}
RULE = ("one case per (lattice, vertex count, first two canonical vertices, slice, placement) bucket; inside it every simple polygon x every "
        "rotation x both directions is constructed on the real code and compared with exact rational geometry, and the selection map is "
        "probed on the whole u lattice; the real code of a case runs in a forked child of the pool worker (an out-of-range triangle index may "
        "kill the process); the u values inside the rounding band of the total area are evaluated last and only up to the first failure of the case; "
        "non-trivial = a placed polygon all of whose vertex orders were executed, keyed by (lattice, vertices, placement)")
ASSUMPTIONS = [
    "raysect's point_triangle samples uniformly inside the selected triangle and triangulate2d(voxel.vertices) gives the triangle order used by the voxel "
    "(raysect is trusted base; the triangulation is checked to be an exact partition of the polygon)",
    "the selection is a bisection on a non-decreasing cumulative array, hence monotone and piecewise constant in u: deciding it on both sides of every "
    "boundary decides it for every u",
    "for coordinates that are not exactly representable the boundary position is only defined up to the rounding of the documented shoelace sums: "
    "inside a band of 2^-52 (256 max|r| max|z| + 8 A) around a boundary either neighbouring triangle is accepted",
    "unbiasedness of the area-mean estimate = exact selection map + uniform sampling inside a triangle (the latter trusted, not checked)",
    "a failure inside the top rounding band ends the exploration of that band for the case (u:top-band-planned counts the planned evaluations; they enter "
    "`evaluations` only for cases whose band was explored completely); a sample drawn through an out-of-range index is foreign memory and could by accident "
    "fall inside the expected triangle (8 samples per evaluation)",
    "area / centroid tolerance: rel 1e-12 plus the forward error bound 8 eps sum|terms| of the documented shoelace / Bourke sums",
]
REQUIRED_CLASSES = [
    "grid:emitter-configurations", "shape:triangle", "shape:rectangle", "shape:convex", "shape:concave", "shape:straight-vertex",
    "order:rot0", "order:rot+", "order:input-cw", "order:input-ccw", "order:stored-reversed",
    "container:tuples", "container:ndarray", "container:ndarray:caller-array-reused", "container:Point2D",
    "coords:exact", "coords:inexact", "coords:on-axis",
    "u:0", "u:2^-53", "u:mid", "u:boundary", "u:boundary-ulp", "u:boundary+ulp", "u:below-boundary", "u:above-boundary",
    "u:1-2^-53", "u:1-2^-52", "u:below-top", "u:in-top-band",
    "select:first-triangle", "select:inner-triangle", "select:last-triangle",
    "emis:constant-callable", "emis:Constant3D", "emis:unhooked",
    "grid:1", "grid:2", "grid:3", "grid:4",
]
BUDGET_S = {"quick": 1200, "thorough": 5400}   # caps for a loaded machine, not expectations (quick ~40 s, thorough ~5 min on 16 idle cores)
STATES_MEANING = "distinct placed polygons (lattice, vertex tuple, placement)"

U_SIG = {"0": "bottom", "2^-53": "bottom", "mid": "mid", "boundary": "at-boundary", "boundary-ulp": "at-boundary", "boundary+ulp": "at-boundary",
         "below-boundary": "beside-boundary", "above-boundary": "beside-boundary", "below-top": "below-top", "1-2^-53": "top", "1-2^-52": "top"}
EPS = 2.0 ** -52
CONST = 2.5
NS_BAND = 8   # samples per evaluation inside the top rounding band (an out-of-range read returns foreign memory: more points, fewer accidental hits)


def cases(tier):
    out = []
    for (n, k), places in FAMILIES[tier]:
        for f, s in PG.buckets(n, k):
            for pl in places:
                m = SLICES.get((n, k), 1)
                for part in range(m):
                    out.append({"lat": n, "k": k, "first": f, "second": s, "slice": [part, m], "place": pl,
                                "mesh": (tier == "thorough" and pl == "r3,z2,s1"), "label": "bucket:" + _coord_class(pl)})
    return out


def crash_label(case):
    return case.get("label", "bucket")


def _coord_class(pl):
    r0, z0, s = PLACEMENTS[pl]
    if r0 == 0.0:
        return "on-axis"
    if all(Fr(v).denominator <= 4 for v in (r0, z0, s)):
        return "exact"
    return "inexact"


_mods = {}


def setup_worker(tier):
    import numpy as np
    from cherab.tools.inversions import voxels as vx
    from raysect.core.math import triangulate2d, Point2D
    from raysect.core.math.random import seed
    from cherab.core.math import Constant3D
    if not getattr(vx, "_VERIF_ON", False) or not hasattr(vx, "_verif_uniform"):
        raise RuntimeError("hook H1 missing or CHERAB_VERIF != 1: cherab.tools.inversions.voxels._verif_uniform is inert")
    _mods.update(np=np, vx=vx, tri=triangulate2d, Point2D=Point2D, seed=seed, Constant3D=Constant3D)
    # the hook must be live: the harness callable is consulted once per sample of a multi-triangle voxel
    calls = []
    vx._verif_uniform = lambda: calls.append(1) or 0.25
    try:
        vx.AxisymmetricVoxel([(1.0, 0.0), (2.0, 0.0), (2.0, 1.0), (1.0, 1.0)]).emissivity_from_function(lambda r, p, z: 1.0, 3)
    finally:
        vx._verif_uniform = None
    if len(calls) != 3:
        raise RuntimeError("hook H1 is inert: _verif_uniform was consulted %d times for 3 samples" % len(calls))


# ------------------------------------------------------------------------------------------ reference helpers

def _place(P, pl):
    r0, z0, s = PLACEMENTS[pl]
    return [(r0 + s * x, z0 + s * y) for x, y in P]


def _orders(k):
    for rot in range(k):
        for rev in (0, 1):
            yield rot, rev


def _reorder(seq, rot, rev):
    q = list(seq[rot:]) + list(seq[:rot])
    if rev:
        q = [q[0]] + q[:0:-1]
    return q


def _same_polygon(a, b):
    """b is a cyclic rotation of a or of reversed a (exact float equality)"""
    n = len(a)
    if len(b) != n:
        return False
    for cand in (list(a), list(a)[::-1]):
        for r in range(n):
            if cand[r:] + cand[:r] == list(b):
                return True
    return False


def _dist_seg(p, a, b):
    ax, ay = a
    bx, by = b
    dx, dy = bx - ax, by - ay
    L = dx * dx + dy * dy
    t = 0.0 if L == 0 else max(0.0, min(1.0, ((p[0] - ax) * dx + (p[1] - ay) * dy) / L))
    return math.hypot(p[0] - (ax + t * dx), p[1] - (ay + t * dy))


def _dist_tri(p, a, b, c):
    """distance from p to the closed triangle abc (0 inside); works for degenerate triangles"""
    def cr(o, u, v):
        return (u[0] - o[0]) * (v[1] - o[1]) - (u[1] - o[1]) * (v[0] - o[0])
    d1, d2, d3 = cr(a, b, p), cr(b, c, p), cr(c, a, p)
    if cr(a, b, c) != 0 and ((d1 >= 0 and d2 >= 0 and d3 >= 0) or (d1 <= 0 and d2 <= 0 and d3 <= 0)):
        return 0.0
    return min(_dist_seg(p, a, b), _dist_seg(p, b, c), _dist_seg(p, c, a))


def _shoelace_abs_terms(vsF):
    """sum |x_i y_{i+1}| + |x_{i+1} y_i| and the analogous sums of the Bourke centroid numerators (exact)"""
    n = len(vsF)
    S = Sx = Sy = Fr(0)
    for i in range(n):
        x0, y0 = vsF[i]
        x1, y1 = vsF[(i + 1) % n]
        t = abs(x0 * y1) + abs(x1 * y0)
        S += t
        Sx += abs(x0 + x1) * t
        Sy += abs(y0 + y1) * t
    return S, Sx, Sy


class _Ref:
    """exact geometry of one placed polygon (independent of the vertex order)"""

    def __init__(self, vs):
        self.vsF = [(Fr(x), Fr(y)) for x, y in vs]
        As, C = PG.fan_area_centroid(self.vsF)
        self.signed = As
        self.A = abs(As)
        self.C = C
        S, Sx, Sy = _shoelace_abs_terms(self.vsF)
        n = len(vs)
        g = (n + 1) * EPS  # gamma_{n+1}: n products + n additions of the documented sums, first order
        A = float(self.A)
        self.tolA = 1e-12 * A + g * float(S) / 2
        scale = max(max(abs(x), abs(y)) for x, y in vs)
        # numerator error / (6A) + relative error of A carried by the division
        self.tolCx = 1e-12 * max(abs(float(C[0])), scale) + g * float(Sx) / (6 * A) + abs(float(C[0])) * self.tolA / A
        self.tolCy = 1e-12 * max(abs(float(C[1])), scale) + g * float(Sy) / (6 * A) + abs(float(C[1])) * self.tolA / A
        self.vol = 2 * math.pi * float(C[0]) * A
        self.tolV = self.vol * (self.tolA / A + self.tolCx / max(float(C[0]), 1e-300) + 4 * EPS) if self.vol > 0 else 1e-300
        self.scale = scale
        self.M = Fr(max(abs(x) for x, y in vs)) * Fr(max(abs(y) for x, y in vs))
        self.exact = all(x.denominator <= 4 and y.denominator <= 4 and abs(x) < 64 and abs(y) < 64 for x, y in self.vsF)
        # width (in area units) of the band in which rounding of the documented sums may move a boundary
        self.delta = Fr(0) if self.exact else Fr(EPS) * (256 * self.M + 8 * self.A)
        self.deltaf = float(self.delta)
        self.Af = A
        self._cumf = (None, None)

    def cumf(self, cum):
        if self._cumf[0] is not cum:
            self._cumf = (cum, [float(c) for c in cum])
        return self._cumf[1]


def _ulp_down(x):
    return math.nextafter(x, -math.inf)


def _ulp_up(x):
    return math.nextafter(x, math.inf)


def _u_lattice(ref, cum):
    """[(label, u)] : the u values that pin the selection map; cum = exact cumulative areas (Fractions)"""
    A = ref.A
    T = len(cum)
    out = [("0", 0.0), ("2^-53", 2.0 ** -53)]
    band_u = float(2 * ref.delta / A)
    lo = Fr(0)
    for k in range(T):
        if cum[k] > lo:
            out.append(("mid", float((lo + cum[k]) / (2 * A))))
        lo = cum[k]
    seen = set()
    for k in range(T - 1):
        b = cum[k] / A
        if b in seen or b == 0 or b == 1:
            continue
        seen.add(b)
        ub = float(b)
        out.append(("boundary", ub))
        out.append(("boundary-ulp", _ulp_down(ub)))
        out.append(("boundary+ulp", _ulp_up(ub)))
        if ref.exact:
            out.append(("below-boundary", ub - 4 * EPS))
            out.append(("above-boundary", ub + 4 * EPS))
        else:
            out.append(("below-boundary", ub - band_u))
            out.append(("above-boundary", ub + band_u))
    out.append(("1-2^-53", 1.0 - 2.0 ** -53))
    if ref.exact:
        # (for rounded coordinates 1-2^-52 lies in the same rounding band as 1-2^-53 and adds nothing: the map is monotone)
        out.append(("1-2^-52", 1.0 - 2.0 ** -52))
    out.append(("below-top", 1.0 - (2.0 ** -50 if ref.exact else band_u)))
    return [(lab, u) for lab, u in out if 0.0 <= u < 1.0]


def _accepted(ref, cum, u):
    """indices of the triangles the documented rule may select for variate u"""
    T = len(cum)
    if T == 1:
        return [0]
    cf = ref.cumf(cum)
    if ref.exact:
        # every sum of the documented algorithm is exact (cf holds the exact values); the only rounding is the product total_area * u
        v = ref.Af * u
        return [k for k in range(T) if (cf[k - 1] if k else 0.0) <= v < cf[k]]
    # rounded coordinates: float evaluation here errs by < 4 eps A, far inside the band delta >= 8 eps A + 256 eps M
    x = ref.Af * u
    d = ref.deltaf
    return [k for k in range(T) if (cf[k - 1] if k else 0.0) - d <= x <= cf[k] + d]


def _dangerous(ref, cum, u):
    """u*A is within the rounding band of the total area: a selection beyond the last triangle cannot be excluded"""
    if ref.exact or len(cum) == 1:
        return False
    return ref.Af * u >= float(cum[-1]) - ref.deltaf


# ------------------------------------------------------------------------------------------ driving the real code

def _container(q, which):
    if which == 0:
        return [tuple(p) for p in q]
    if which == 1:
        return _mods["np"].array(q, dtype=float)
    return [_mods["Point2D"](x, y) for x, y in q]


_rec = []


def _emis(x, y, z):
    _rec.append((x, y, z))
    return CONST


def _hooked(voxel, u, nsamp):
    """call emissivity_from_function with the selection variate fixed to u; returns (value, points)"""
    vx = _mods["vx"]
    del _rec[:]
    vx._verif_uniform = lambda: u
    try:
        val = voxel.emissivity_from_function(_emis, nsamp)
    finally:
        vx._verif_uniform = None
    return val, list(_rec)


def _points_in(pts, ok, tris, stored, tol_pt):
    """None if every sample point (x, 0, z) lies in one of the triangles `ok` (closed, within tol_pt), else the first offender"""
    for (x, y, z) in pts:
        d = [_dist_tri((x, z), stored[tris[t][0]], stored[tris[t][1]], stored[tris[t][2]]) for t in ok]
        if y != 0 or not d or not (min(d) <= tol_pt):
            return (x, y, z)
    return None


OUTSIDE = "sample point outside the selected triangle, or process death"


class _Acc:
    """what one process accumulates for a case"""

    def __init__(self):
        self.viol, self.sigs = [], set()
        self.classes = collections.Counter()
        self.states, self.nontrivial = [], []
        self.nev = self.trans = 0

    def V(self, sig, what, expected, observed):
        sig = "C17:" + sig
        if sig in self.sigs:
            return
        self.sigs.add(sig)
        self.viol.append({"sig": sig, "what": what, "expected": expected, "observed": observed})

    def dump(self):
        return {"viol": self.viol, "classes": self.classes, "states": self.states, "nontrivial": self.nontrivial, "nev": self.nev, "trans": self.trans}


def _merge(parts):
    out = _Acc()
    for p in parts:
        for v in p["viol"]:
            if v["sig"] not in out.sigs:
                out.sigs.add(v["sig"])
                out.viol.append(v)
        out.classes.update(p["classes"])
        out.states += p["states"]
        out.nontrivial += p["nontrivial"]
        out.nev += p["nev"]
        out.trans += p["trans"]
    return out


def _in_child(fn):
    """Run fn(send, progress) in a forked child.  The real code is never executed in the pool worker itself: an out-of-range
    triangle index reads foreign memory and may kill the process, and whether it does depends on heap contents.  `progress(sig,
    what, want)` names the operation about to be executed (kept in shared memory); `send(obj)` ships a partial result.
    Returns (list of partial results received, None | (wait status, sig, what, want, kind) of the operation that killed the child)."""
    mm = mmap.mmap(-1, 8192)
    r, w = os.pipe()
    pid = os.fork()
    if pid == 0:
        code = 0
        try:
            os.close(r)

            def send(obj):
                b = pickle.dumps(obj, protocol=pickle.HIGHEST_PROTOCOL)
                b = struct.pack("<Q", len(b)) + b
                while b:
                    k = os.write(w, b)
                    b = b[k:]

            def progress(sig, what, want, kind="other"):
                b = ("%s\n%s\n%s\n%s" % (kind, sig, what.replace("\n", " "), want.replace("\n", " "))).encode()[:8000]
                mm.seek(0)
                mm.write(struct.pack("<I", len(b)) + b)

            try:
                fn(send, progress)
            except BaseException:
                send({"harness_error": traceback.format_exc()})
            os.close(w)
        except BaseException:
            code = 3
        finally:
            os._exit(code)
    os.close(w)
    chunks = []
    while True:
        b = os.read(r, 1 << 20)
        if not b:
            break
        chunks.append(b)
    os.close(r)
    _, status = os.waitpid(pid, 0)
    buf = b"".join(chunks)
    parts, pos = [], 0
    while pos + 8 <= len(buf):
        (ln,) = struct.unpack_from("<Q", buf, pos)
        if pos + 8 + ln > len(buf):
            break
        parts.append(pickle.loads(buf[pos + 8:pos + 8 + ln]))
        pos += 8 + ln
    died = None
    if status != 0:
        mm.seek(0)
        (ln,) = struct.unpack("<I", mm.read(4))
        txt = mm.read(ln).decode(errors="replace").split("\n", 3) if ln else []
        txt += ["?"] * (4 - len(txt))
        died = (status, txt[1], txt[2], txt[3], txt[0])
    mm.close()
    return parts, died


def run_case(case):
    parts, died = _in_child(lambda send, progress: _body(case, (), send, progress))
    for p in parts:
        if "harness_error" in p:
            return p
    extra = _Acc()
    skip = ()
    while died is not None:
        status, sig, what, want, kind = died
        extra.V(sig, what + ": process death (wait status %s)" % status, want, OUTSIDE if sig.endswith("sample-outside-selected-triangle") else "process death")
        extra.nev += 1
        extra.trans += 1
        if parts or kind not in ("hooked", "unhooked") or kind in skip:
            break
        # died before the main phase was complete: redo the case without the kind of call that killed it
        skip += (kind,)
        extra.classes["redone-without:" + kind] += 1
        parts, died = _in_child(lambda send, progress: _body(case, skip, send, progress))
        for p in parts:
            if "harness_error" in p:
                return p
    acc = _merge(parts + [extra.dump()])
    outcome = (case["lat"], case["k"], case["first"], case["second"], tuple(case.get("slice", ())), case["place"], acc.nev, tuple(sorted(acc.sigs)))
    return {"viol": acc.viol, "classes": acc.classes, "outcome": outcome, "n": max(acc.nev, 1), "states": acc.states,
            "transitions": max(acc.trans, 1), "nontrivial": acc.nontrivial}


def _body(case, skip, send, progress):
    """the whole case, executed inside the sacrificial child: main phase -> send; u values in the rounding band of the total area -> send"""
    np, vx = _mods["np"], _mods["vx"]
    n, k, pl = case["lat"], case["k"], case["place"]
    cclass = _coord_class(pl)
    acc = _Acc()
    V, classes = acc.V, acc.classes

    _mods["seed"](17 + 31 * case["first"] + 977 * case["second"] + 7919 * k + 104729 * n + 1299709 * case.get("slice", [0, 1])[0])
    part, m = case.get("slice", [0, 1])
    polys = [P for i, P in enumerate(PG.enumerate_bucket(n, k, case["first"], case["second"])) if i % m == part]
    classes["coords:" + cclass] += 1
    late = []     # (voxel, shape, desc, ref, cum, tris, stored, [(label, u)]) : evaluated last, see below
    placed = []

    for pi, P in enumerate(polys):
        shape = PG.shape_class(P).split(":", 1)[1]
        classes["shape:" + shape.split("+")[0]] += 1
        if "+straight-vertex" in shape:
            classes["shape:straight-vertex"] += 1
        vs0 = _place(P, pl)
        ref = _Ref(vs0)
        if cclass != "inexact" and not ref.exact:
            raise RuntimeError("placement %s declared exact but coordinates are not" % pl)
        placed.append((P, vs0, ref, shape))
        acc.states.append((n, P, pl))
        acc.nontrivial.append((n, P, pl))
        Aex, Cex = float(ref.A), (float(ref.C[0]), float(ref.C[1]))
        canon = None

        for rot, rev in _orders(k):
            q = _reorder(vs0, rot, rev)
            in_cw = (ref.signed < 0) != bool(rev)
            orient = "cw" if in_cw else "ccw"
            which = (rot + rev) % 3
            classes["order:rot0" if rot == 0 else "order:rot+"] += 1
            classes["order:input-" + orient] += 1
            classes["container:" + ("tuples", "ndarray", "Point2D")[which]] += 1
            desc = "polygon %s placed %s, rotation %d, %s" % (list(P), pl, rot, "reversed" if rev else "as listed")
            tag = shape.split("+")[0]   # signature class of the polygon: triangle / rectangle / convex / concave
            progress("AxisymmetricVoxel:construct-or-read:process-death:%s" % tag, desc, "a voxel with area %r" % Aex)
            try:
                given = _container(q, which)
                voxel = vx.AxisymmetricVoxel(given)
                area = voxel.cross_sectional_area
                cen = voxel.cross_section_centroid
                vol = voxel.volume
                stored = [(p.x, p.y) for p in voxel.vertices]
                if which == 1:
                    # the voxel is the polygon it was constructed from: the caller's array is left as it was, and what the caller does
                    # with its own array afterwards (a template cell shifted in place for the next voxel) does not move the voxel
                    if given.tolist() != [list(p) for p in q]:
                        V("AxisymmetricVoxel:constructor-modifies-the-vertex-array-it-was-given:%s" % ("input-" + orient), desc, [list(p) for p in q], given.tolist())
                    given[:, 0] += 0.5
                    given[:, 1] *= 3.0
                    a2, c2, v2 = voxel.cross_sectional_area, voxel.cross_section_centroid, voxel.volume
                    if (a2, c2.x, c2.y, v2) != (area, cen.x, cen.y, vol):
                        V("AxisymmetricVoxel:voxel-follows-later-changes-of-the-callers-array", desc, [area, cen.x, cen.y, vol], [a2, c2.x, c2.y, v2])
                    classes["container:ndarray:caller-array-reused"] += 1
            except Exception as e:  # noqa
                V("AxisymmetricVoxel:construct-or-read:raises:%s:%s" % (type(e).__name__, tag), desc + ": " + str(e)[:200],
                  "a voxel with area %r" % Aex, type(e).__name__)
                acc.nev += 1
                continue
            acc.nev += 4
            acc.trans += 5
            if not abs(area - Aex) <= ref.tolA:
                V("cross_sectional_area:%s" % tag, desc, Aex, area)
            if not (abs(cen.x - Cex[0]) <= ref.tolCx and abs(cen.y - Cex[1]) <= ref.tolCy):
                V("cross_section_centroid:%s" % tag, desc, list(Cex), [cen.x, cen.y])
            if not abs(vol - ref.vol) <= ref.tolV:
                V("volume:%s" % tag, desc, ref.vol, vol)
            # Pappus with the voxel's own numbers (2 pi r_c A)
            if not abs(vol - 2 * math.pi * cen.x * area) <= 8 * EPS * abs(vol):
                V("volume:not-2pi-rc-A:%s" % tag, desc, 2 * math.pi * cen.x * area, vol)
            if not _same_polygon(q, stored):
                V("vertices:not-the-input-polygon:%s" % tag, desc, q, stored)
                continue
            if stored != q:
                classes["order:stored-reversed"] += 1
            # invariance under vertex order (against the canonical order of the same placed polygon)
            if canon is None:
                canon = (area, cen.x, cen.y, vol)
            else:
                for nm, a, b, tol in (("cross_sectional_area", area, canon[0], 2 * ref.tolA), ("cross_section_centroid", cen.x, canon[1], 2 * ref.tolCx),
                                      ("cross_section_centroid", cen.y, canon[2], 2 * ref.tolCy), ("volume", vol, canon[3], 2 * ref.tolV)):
                    if not abs(a - b) <= tol:
                        V("%s:not-invariant:%s" % (nm, "direction" if rev else "rotation"), desc, b, a)

            # ---- triangle-selection map
            tris = [tuple(int(i) for i in t) for t in _mods["tri"](np.array(stored, dtype=float))]
            sF = [(Fr(x), Fr(y)) for x, y in stored]
            areas = [abs(PG.tri_signed_area(sF[a], sF[b], sF[c])) for a, b, c in tris]
            if sum(areas) != ref.A or len(tris) != k - 2:
                V("emissivity_from_function:triangulation-not-a-partition:%s" % tag, desc, float(ref.A), float(sum(areas)))
                continue
            cum, t = [], Fr(0)
            for a in areas:
                t += a
                cum.append(t)
            tol_pt = 1e-9 * max(1.0, ref.scale)
            if "hooked" not in skip:
                banded = []
                for lab, u in _u_lattice(ref, cum):
                    if _dangerous(ref, cum, u):
                        banded.append((lab, u))
                        continue
                    classes["u:" + lab] += 1
                    classes["emis:constant-callable"] += 1
                    _judge(acc, progress, cclass, desc, lab, lab, u, _accepted(ref, cum, u), voxel, tris, stored, areas, tol_pt, 2)
                if banded:
                    late.append((voxel, desc, ref, cum, tris, stored, areas, banded))

            # ---- constants, other callables, unhooked path (every second vertex order)
            if (rot + rev) % 2 == 0 and "unhooked" not in skip:
                progress("emissivity_from_function:unhooked:process-death", desc, "10 samples in the polygon", "unhooked")
                del _rec[:]
                val = voxel.emissivity_from_function(_emis)
                acc.nev += 1
                acc.trans += 1
                classes["emis:unhooked"] += 1
                if val != CONST or len(_rec) != 10:
                    V("emissivity_from_function:constant-not-reproduced:unhooked", desc, [CONST, 10], [val, len(_rec)])
                for (x, y, z) in _rec:
                    if y != 0 or not min(_dist_tri((x, z), stored[a], stored[b], stored[c]) for a, b, c in tris) <= tol_pt:
                        V("emissivity_from_function:unhooked:sample-outside-cross-section", desc, "a point of the polygon at phi=0", [x, y, z])
                val = voxel.emissivity_from_function(_mods["Constant3D"](CONST), 3)
                acc.nev += 1
                acc.trans += 1
                classes["emis:Constant3D"] += 1
                if val != CONST:
                    V("emissivity_from_function:constant-not-reproduced:Constant3D", desc, CONST, val)

        # mesh primitive (thorough, one placement): same observables
        if case.get("mesh"):
            progress("AxisymmetricVoxel:construct:mesh:process-death:%s" % tag, "polygon %s placed %s" % (list(P), pl), "a voxel")
            try:
                voxel = vx.AxisymmetricVoxel(vs0, primitive_type="mesh")
                area, cen, vol = voxel.cross_sectional_area, voxel.cross_section_centroid, voxel.volume
                acc.nev += 3
                acc.trans += 4
                if not (abs(area - Aex) <= ref.tolA and abs(cen.x - Cex[0]) <= ref.tolCx and abs(cen.y - Cex[1]) <= ref.tolCy and abs(vol - ref.vol) <= ref.tolV):
                    V("mesh-primitive:area-centroid-volume:%s" % tag, "polygon %s placed %s" % (list(P), pl), [Aex, list(Cex), ref.vol], [area, [cen.x, cen.y], vol])
                classes["primitive:mesh"] += 1
            except Exception as e:  # noqa
                V("AxisymmetricVoxel:construct:mesh:raises:%s:%s" % (type(e).__name__, tag), "polygon %s placed %s: %s" % (list(P), pl, str(e)[:200]), "a voxel", type(e).__name__)

    # ---- grids of 1..4 voxels
    g, i = 1, 0
    while i < len(placed):
        grp = placed[i:i + g]
        i += g
        gl = len(grp)
        lists = []
        for j, (P, vs0, ref, shape) in enumerate(grp):
            lists.append(_container(_reorder(vs0, (i + j) % k, (i + j) % 2), (i + j) % 3))
        desc = "grid of %d voxels from polygons %s placed %s" % (gl, [list(x[0]) for x in grp], pl)
        progress("ToroidalVoxelGrid:construct-or-read:process-death", desc, "a grid")
        try:
            grid = vx.ToroidalVoxelGrid(lists)
            tv = grid.total_volume
            vols = [v.volume for v in grid]
            cnt = (len(grid), grid.count)
            em = [CONST] * gl
            if "unhooked" not in skip:
                progress("ToroidalVoxelGrid.emissivities_from_function:process-death", desc, "%d times 2.5" % gl, "unhooked")
                em_first = grid.emissivities_from_function(_mods["Constant3D"](CONST), 2)
                # a second phantom sampled on the same grid must not change the result of the first call
                em_second = grid.emissivities_from_function(_mods["Constant3D"](CONST + 4.5), 1)
                em = [float(x) for x in em_first]
                if [float(x) for x in em_second] != [CONST + 4.5] * gl:
                    em = [float(x) for x in em_second]
        except Exception as e:  # noqa
            V("ToroidalVoxelGrid:construct-or-read:raises:%s" % type(e).__name__, desc + ": " + str(e)[:200], "a grid", type(e).__name__)
            g = g % 4 + 1
            continue
        acc.nev += 2 + gl
        acc.trans += 3 + 2 * gl
        classes["grid:%d" % gl] += 1
        exp = sum(x[2].vol for x in grp)
        tol = sum(x[2].tolV for x in grp) + 8 * EPS * exp
        if cnt != (gl, gl):
            V("ToroidalVoxelGrid:count", desc, [gl, gl], list(cnt))
        if not abs(tv - exp) <= tol:
            V("ToroidalVoxelGrid.total_volume:vs-exact-sum", desc, exp, tv)
        if not abs(tv - math.fsum(vols)) <= 8 * EPS * gl * abs(exp):
            V("ToroidalVoxelGrid.total_volume:not-the-sum-of-voxel-volumes", desc, math.fsum(vols), tv)
        for (P, vs0, ref, shape), vv in zip(grp, vols):
            if not abs(vv - ref.vol) <= ref.tolV:
                V("ToroidalVoxelGrid:voxel-order-or-volume", desc, ref.vol, vv)
        if em != [CONST] * gl:
            V("ToroidalVoxelGrid.emissivities_from_function:constant-not-reproduced", desc, [CONST] * gl, em)
        # the total volume is a property of the voxel list, whatever the emitter configuration of the grid:
        # every documented way of (de)activating voxels, then read again
        try:
            configs = [("set_active(0)", lambda gr: gr.set_active(0)), ("set_active(last)", lambda gr: gr.set_active(gl - 1)),
                       ("unparent_all_voxels()", lambda gr: gr.unparent_all_voxels()), ("parent_all_voxels()", lambda gr: gr.parent_all_voxels()),
                       ('set_active("all")', lambda gr: gr.set_active("all"))]
            for cname, fn in configs:
                fn(grid)
                tv2 = grid.total_volume
                acc.nev += 1
                acc.trans += 2
                if not abs(tv2 - exp) <= tol:
                    V("ToroidalVoxelGrid.total_volume:after-emitter-configuration:vs-exact-sum", desc + " after " + cname, exp, tv2)
                    break
            g2 = vx.ToroidalVoxelGrid(lists, active=gl - 1)
            tv3 = g2.total_volume
            if not abs(tv3 - exp) <= tol:
                V("ToroidalVoxelGrid.total_volume:constructed-with-active=i:vs-exact-sum", desc, exp, tv3)
            classes["grid:emitter-configurations"] += 1
        except Exception as e:  # noqa
            V("ToroidalVoxelGrid:emitter-configuration:raises:%s" % type(e).__name__, desc + ": " + str(e)[:200], "total_volume", type(e).__name__)
        g = g % 4 + 1

    planned = sum(len(x[-1]) for x in late)
    if planned:
        classes["u:in-top-band"] += 1
        classes["u:top-band-planned"] += planned
    send(acc.dump())

    # ---- the u values within the rounding band of the total area (rounded coordinates only): a selection past the last triangle
    # cannot be excluded there, so they are evaluated last, after the main result has been shipped, and only up to the first
    # failure (every failure in this zone carries the same signature; a process death ends the child anyway).
    # Counting: what an out-of-range read returns is foreign memory, so *which* band evaluation is the first to fail can differ between
    # runs; the counters therefore only record deterministic facts: the number of planned band evaluations, and the executed ones only
    # when the whole band was explored without a failure.
    acc = _Acc()
    scratch = _Acc()
    done = 0
    for voxel, desc, ref, cum, tris, stored, areas, banded in late:
        tol_pt = 1e-9 * max(1.0, ref.scale)
        for lab, u in banded:
            _mods["seed"](1000003 + done)
            _judge(scratch, progress, cclass, desc, lab, "top", u, _accepted(ref, cum, u), voxel, tris, stored, areas, tol_pt, NS_BAND)
            done += 1
            if scratch.viol:
                break
        if scratch.viol:
            break
    acc.viol, acc.sigs = scratch.viol, scratch.sigs
    if scratch.viol:
        acc.nev = acc.trans = 1
    else:
        acc.nev = acc.trans = done
        acc.classes["u:top-band-explored-completely"] += 1 if planned else 0
    send(acc.dump())


def _judge(acc, progress, cclass, desc, lab, siglab, u, ok, voxel, tris, stored, areas, tol_pt, nsamp):
    """one hooked emissivity evaluation compared with the accepted triangle set"""
    T = len(tris)
    # signature label of u: every u within the rounding band of the total area is "top"; the others are grouped by role
    siglab = "top" if siglab == "top" else U_SIG[lab]
    sig = "emissivity_from_function:u=%s:coords=%s:sample-outside-selected-triangle" % (siglab, "inexact" if cclass == "inexact" else "exact")
    want = "all sample points inside triangle(s) %s of %s" % (ok, [list(t) for t in tris])
    what = "%s, u=%r" % (desc, u)
    progress(sig, what, want, "hooked")
    acc.nev += 1
    acc.trans += 1
    try:
        val, pts = _hooked(voxel, u, nsamp)
    except Exception as e:  # noqa
        acc.V("emissivity_from_function:u=%s:raises:%s" % (siglab, type(e).__name__), what, want, type(e).__name__)
        return
    if val != CONST:
        acc.V("emissivity_from_function:constant-not-reproduced:hooked", what, CONST, val)
    if len(pts) != nsamp:
        acc.V("emissivity_from_function:number-of-samples", what, nsamp, len(pts))
    bad = _points_in(pts, ok, tris, stored, tol_pt)
    if bad is not None:
        acc.V(sig, what + ": sample point %r" % (bad,), want, OUTSIDE)
        return
    if T > 1 and len(ok) == 1:
        t = ok[0]
        acc.classes["select:first-triangle" if t == 0 else "select:last-triangle" if t == T - 1 else "select:inner-triangle"] += 1
        if any(a == 0 for a in areas[:t]):
            acc.classes["select:zero-area-triangle-skipped"] += 1
