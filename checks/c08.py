"""C08 - ADF parsers return the file's numbers under the documented conventions (engine L).

Every lattice point is one generated ADAS file (independent writers in mc/refs/adf_writers.py, ground truth =
float(text) of every number printed) pushed through

    parse_adf11 / parse_adf15 / parse_adf12 / parse_adf21 / parse_adf22bmp / parse_adf22bme     (parsed tables)
    install_adf* into a fresh scratch repository, then repository.get_*                          (read back)

and compared with the ground truth after the documented conversions (10**, cm^-3 -> m^-3, cm^3 -> m^3, A -> nm),
axis order (density, temperature), block -> transition assignment and the ADF11 charge convention.

A failing file is *minimised* before it is reported: each feature of the file (shape class, layout, trailer ...)
is put back to its neutral value as long as the same failure persists, and the signature is built from the
features that could not be neutralised, so that one defect seen at many lattice points gives one signature.
"""
import contextlib
import io
import itertools
import os
import shutil
import tempfile

PROPERTY = "C08"
DRIVER = ("one generated ADAS file -> parse_adf* -> compare with the writer's ground truth; "
          "install_adf* into a fresh scratch repository -> repository.get_* -> compare")

# ---------------------------------------------------------------------------------------------------------------
# alphabets
# ---------------------------------------------------------------------------------------------------------------
A11 = {
    "cfg": ["H1", "C1", "C2", "C2o", "C6", "Ne10"],        # element and Z1 range of the blocks
    "layout": ["96", "89", "r1", "rm"],                    # unresolved 96 / 89 block headers, resolved (all counts 1), resolved multi-metastable
    "trailer": ["C-dash", "dash+C", "none"],
    "te0": ["pos", "neg"],                                 # first temperature above / below 1 eV (sign of first log10 T_e)
    "n": {"quick": [1, 2, 7, 8, 9, 17], "thorough": [1, 2, 7, 8, 9, 16, 17, 24, 30]},
    "n_quick_many_blocks": [1, 2, 8, 9],
    "kinds": ["scd", "acd", "ccd", "plt", "prb", "prc"],
}
CFG11 = {"H1": ("H", 1, 1), "C1": ("C", 1, 1), "C2": ("C", 1, 2), "C2o": ("C", 2, 2), "C6": ("C", 1, 6), "Ne10": ("Ne", 1, 10)}
META11 = {"H": [2, 1], "C": [2, 2, 2, 1, 2, 1, 1], "Ne": [2, 1, 2, 1, 2, 1, 2, 1, 2, 1, 1]}      # metastable counts, charge 0..Z
NEUTRAL11 = {"cfg": "C6", "layout": "96", "nne": 24, "nte": 30, "te0": "pos", "trailer": "C-dash"}
ORDER11 = ["nne", "nte", "cfg", "layout", "trailer", "te0"]

A15 = {
    # (element, charge, index-table style, file name, header_format argument)
    "sty": {"H": ("H", 0, "hydrogen", "pec12#h_pju#h0.dat", None),
            "HL": ("C", 5, "hydrogen-like", "pec96#c_pju#c5.dat", None),
            "FULL": ("C", 1, "full", "pec96#c_vsu#c1.dat", None),
            "BND": ("C", 5, "hydrogen", "pec96#c_bnd#c5.dat", None),
            "HFMT": ("C", 5, "hydrogen", "pec96#c_pju#c5.dat", "hydrogen"),
            "HLFMT": ("C", 1, "hydrogen-like", "pec96#c_vsu#c1.dat", "hydrogen-like")},
    "n": {"quick": [1, 7, 8, 9, 24], "thorough": [1, 2, 7, 8, 9, 16, 17, 24]},
    "nblocks": {"quick": [1, 2, 5], "thorough": [1, 2, 5, 12]},
    "types": ["mixed", "EXCIT", "RECOM", "CHEXC"],
    "a": ["A", " A"],
    "extra": [0, 1],
    "absent": [0, 1, 2],      # 1: the index table announces one more ISEL than there are data blocks; 2: an INTERIOR ISEL has no data block
}
NEUTRAL15 = {"sty": "H", "nne": 24, "nte": 24, "nblocks": 2, "types": "EXCIT", "a": "A", "extra": 0, "absent": 0}
ORDER15 = ["nne", "nte", "nblocks", "sty", "types", "a", "extra", "absent"]

A12 = {
    "n24": {"quick": [1, 6, 7, 24], "thorough": [1, 2, 5, 6, 7, 12, 13, 23, 24]},      # nbeam, ndi
    "n12": {"quick": [1, 6, 7, 12], "thorough": [1, 2, 5, 6, 7, 11, 12]},              # nti, nze, nb
    "nblocks": [1, 2, 3],
    "letter": ["D", "E"],
    "absent": [0, 1],
}
NEUTRAL12 = {"nbeam": 24, "nti": 12, "ndi": 24, "nze": 12, "nb": 12, "nblocks": 1, "letter": "D", "absent": 0}
ORDER12 = ["nbeam", "nti", "ndi", "nze", "nb", "nblocks", "letter", "absent"]

A21 = {
    "n": {"quick": [1, 7, 8, 9, 25], "thorough": [1, 2, 7, 8, 9, 15, 16, 17, 25]},
    "letter": ["E", "D"],
    "entry": ["adf21", "adf22bmp", "adf22bme"],
}
NEUTRAL21 = {"entry": "adf21", "neb": 25, "ndt": 25, "ntt": 25, "letter": "E"}
ORDER21 = ["neb", "ndt", "ntt", "letter", "entry"]

ALPHABET = {"adf11": A11, "adf11 wrong element": "file element x requested element in {H, C, Ne, deuterium}, parse and install",
            "adf15": {k: (sorted(v) if isinstance(v, dict) and k == "sty" else v) for k, v in A15.items()},
            "adf12": A12, "adf21/22": A21}
BOUND = {
    "quick": "ADF11 (n_ne, n_te) in {1,2,7,8,9,17}^2 ({1,2,8,9}^2 for the 6- and 10-block files) + canonical (24,30); ADF15 shapes {1,7,8,9,24}^2, blocks {1,2,5}; "
             "ADF12 counts {1,6,7,max}; ADF21/22 {1,7,8,9,25}^3; full product of the other features",
    "thorough": "ADF11 {1,2,7,8,9,16,17,24,30}^2; ADF15 {1,2,7,8,9,16,17,24}^2, blocks {1,2,5,12}; ADF12 counts "
                "{1,2,5,6,7,12,13,23,24}/{1,2,5,6,7,11,12}; ADF21/22 {1,2,7,8,9,15,16,17,25}^3; full product of the other features",
}
RULE = ("one file per lattice point (family x shape x layout features), every file parsed by the real parser and, when the "
        "parse agrees, installed through every applicable install_adf* front-end and read back; non-trivial = a file whose "
        "tables were actually compared with the ground truth, keyed by (family, feature tuple)")
ASSUMPTIONS = [
    "record layouts of DESIGN.md Appendix A (ADAS xxdata_11/12/15/21 read statements) describe well-formed files; the writers "
    "were calibrated on the canonical shapes (24x30 ADF11, 24x29 ADF15, full ADF12, 25x25x12 ADF21) which parse back exactly",
    "ADF11 values restricted to |v| < 100 so that F10.5 fields never touch (as in published files)",
    "ADF12: the column of the transition in the block header (N=uu-ll ending at column 43) is recalled from the manual, not from a format statement; "
    "unused ADF12 slots are zero filled (not blank)",
    "resolved ADF11 files with several metastable blocks per Z1: cherab documents no metastable convention, the oracle only requires the table "
    "returned for Z1 to be one of the file's blocks of that Z1",
    "hydrogen-like ADF15 index tables: the transition key is (upper level index, lower level index) as cherab documents/uses it",
    "comparison tolerance rel 1e-12 (ground truth is float(text); the only arithmetic is one multiplication or one 10**x)",
]
REQUIRED_CLASSES = [
    "install_files:every-key",
    "adf11:layout=96", "adf11:layout=89", "adf11:layout=r1", "adf11:layout=rm", "adf11:trailer=C-dash", "adf11:trailer=dash+C",
    "adf11:trailer=none", "adf11:nne<=8,first-te<1eV", "adf11:count-not-multiple-of-8", "adf11:canonical-24x30", "adf11:Z1>=10",
    "adf11:parse-agrees", "adf11:install:scd", "adf11:install:acd", "adf11:install:ccd", "adf11:install:plt", "adf11:install:prb",
    "adf11:install:prc", "adf11:wrong-element:rejected",
    "adf15:sty=H", "adf15:sty=HL", "adf15:sty=FULL", "adf15:sty=BND", "adf15:sty=HFMT", "adf15:sty=HLFMT", "adf15:EXCIT", "adf15:RECOM",
    "adf15:CHEXC", "adf15:absent-isel:rejected", "adf15:absent-interior-isel:rejected", "adf15:parse-agrees", "adf15:install-readback", "adf15:count-not-multiple-of-8",
    "adf12:parse-agrees", "adf12:install-readback", "adf12:absent-block:rejected", "adf12:count<max", "adf12:letter=E",
    "adf21:parse-agrees", "adf22bmp:parse-agrees", "adf22bme:parse-agrees", "adf2x:install-readback", "adf2x:letter=D",
    "adf2x:count-not-multiple-of-8",
]
BUDGET_S = {"quick": 600, "thorough": 3600}      # caps only; ~20 s / ~2.5 min on 16 idle cores
CHUNK = 1
STATES_MEANING = "distinct generated files (family, feature tuple)"

RTOL = 1e-12

_G = {}      # per-worker globals (cherab modules, scratch dirs, memo)


# ---------------------------------------------------------------------------------------------------------------
# cases
# ---------------------------------------------------------------------------------------------------------------
def cases(tier):
    out = []
    for cfg in A11["cfg"]:
        n11 = A11["n"][tier]
        if tier == "quick" and cfg in ("C6", "Ne10"):
            n11 = A11["n_quick_many_blocks"]      # install cost grows with blocks^2 * n_ne * n_te (JSON rewritten per charge)
        shapes11 = [(a, b) for a in n11 for b in n11]
        if (24, 30) not in shapes11:
            shapes11.append((24, 30))
        for nne, nte in shapes11:
            out.append({"fam": "adf11", "cfg": cfg, "nne": nne, "nte": nte, "label": "adf11"})
    out.append({"fam": "adf11-reject", "label": "adf11-reject"})
    out.append({"fam": "dispatch", "label": "install_files"})
    n15 = A15["n"][tier]
    for sty in A15["sty"]:
        for nne in n15:
            for nte in n15:
                out.append({"fam": "adf15", "sty": sty, "nne": nne, "nte": nte, "nblocks": A15["nblocks"][tier], "label": "adf15"})
    for nbeam in A12["n24"][tier]:
        for nti in A12["n12"][tier]:
            for ndi in A12["n24"][tier]:
                out.append({"fam": "adf12", "nbeam": nbeam, "nti": nti, "ndi": ndi, "n12": A12["n12"][tier], "label": "adf12"})
    n21 = A21["n"][tier]
    for neb in n21:
        for ndt in n21:
            out.append({"fam": "adf2x", "neb": neb, "ndt": ndt, "ntt": n21, "label": "adf2x"})
    return out


# ---------------------------------------------------------------------------------------------------------------
# worker set-up
# ---------------------------------------------------------------------------------------------------------------
def setup_worker(tier):
    if _G.get("ready"):
        return
    import atexit
    from multiprocessing import util as mpu
    base = os.environ.get("VERIF_SCRATCH") or None
    wd = tempfile.mkdtemp(prefix="c08_", dir=base)
    atexit.register(shutil.rmtree, wd, True)
    mpu.Finalize(None, shutil.rmtree, args=(wd, True), exitpriority=1)
    # private $HOME per worker, fixed before cherab.openadas computes its default repository path
    home = os.path.join(wd, "home")
    os.makedirs(home)
    os.environ["HOME"] = home
    import numpy as np
    from cherab.core.atomic import hydrogen, carbon, neon, deuterium
    from cherab.openadas import parse, install, repository
    from cherab.openadas.repository import utility as rutil
    from mc.refs import adf_writers as W
    _G.update(ready=True, wd=wd, home=home, np=np, parse=parse, install=install, repo=repository, W=W,
              default_repo=rutil.DEFAULT_REPOSITORY_PATH, el={"H": hydrogen, "C": carbon, "Ne": neon, "D": deuterium}, memo={}, seq=0)


def _rev():
    """Edition number of the file being written: successive files of one case are written to the SAME path with different numbers, so a
    parser (or installer) that keeps anything of an earlier file at that path returns numbers that are not on disk."""
    return 0 if _G.get("iso") else _G["seq"] % 3


def _fresh_dir(tag):
    """An empty directory.  The SAME path is re-used for every file of a family within one case (the previous content is
    removed first): successive generated files then live at one path with different content, so a result that is
    remembered per file path instead of being read from the file shows up as a mismatch with the file on disk."""
    import shutil
    if _G.get("iso"):
        # a minimisation trial: a path nothing was ever written to, so that the verdict on the trial file does not depend on the files before it
        _G["iso_n"] = _G.get("iso_n", 0) + 1
        d = os.path.join(_G["wd"], "iso_%d" % _G["iso_n"])
        os.makedirs(d)
        return d
    _G["seq"] += 1
    d = os.path.join(_G["wd"], tag + "_" + _G.get("case_tag", "x"))      # shared by the files of ONE case only: cases stay independent
    if os.path.isdir(d):
        shutil.rmtree(d)
    os.makedirs(d)
    return d


def _quiet(fn, *a, **k):
    name = getattr(fn, "__name__", "")
    if _G.get("via_files") and name.startswith("install_adf") and set(k) <= {"repository_path", "adas_path"}:
        # the configuration entry point: install_files({'adf11scd': [(element, file), ...], ...}) must do what the front-end does
        a, fn = ({name[len("install_"):]: [tuple(a)]},), _G["install"].install_files
    with contextlib.redirect_stdout(io.StringIO()):
        return fn(*a, **k)


def _cmp(obs, exp):
    """None if equal (shape and rel 1e-12), else 'shape' / 'values'."""
    np = _G["np"]
    try:
        obs = np.asarray(obs, dtype=float)
    except Exception:
        return "type"
    exp = np.asarray(exp, dtype=float)
    if obs.shape != exp.shape:
        return "shape"
    if obs.size and not bool(np.all(np.abs(obs - exp) <= RTOL * np.abs(exp))):
        return "values"
    return None


def _short(x, n=12):
    np = _G["np"]
    try:
        a = np.asarray(x, dtype=float)
        return {"shape": list(a.shape), "first": [float(v) for v in a.ravel()[:n]]}
    except Exception:
        return repr(x)[:200]


class Res:
    """Result of evaluating one file."""
    def __init__(self):
        self.fail = None        # (site, kind)
        self.exp = None
        self.obs = None
        self.ops = 0
        self.classes = []
        self.notes = []

    def failed(self, site, kind, exp, obs):
        if self.fail is None:
            self.fail, self.exp, self.obs = (site, kind), exp, obs
        return self


# ---------------------------------------------------------------------------------------------------------------
# ADF11
# ---------------------------------------------------------------------------------------------------------------
_K11 = {  # kind -> (install function name, get function name, charge offset)
    "scd": ("install_adf11scd", "get_ionisation_rate", -1),
    "acd": ("install_adf11acd", "get_recombination_rate", 0),
    "ccd": ("install_adf11ccd", "get_thermal_cx_rate", 0),
    "plt": ("install_adf11plt", "get_line_radiated_power_rate", -1),
    "prb": ("install_adf11prb", "get_continuum_radiated_power_rate", 0),
    "prc": ("install_adf11prc", "get_cx_radiated_power_rate", 0),
}


def _gen11(f, d, kind="scd"):
    W = _G["W"]
    sym, z1min, nb = CFG11[f["cfg"]]
    el = _G["el"][sym]
    z1s = list(range(z1min, z1min + nb))
    multi, ms = None, None
    layout = {"96": "96", "89": "89", "r1": "resolved", "rm": "resolved"}[f["layout"]]
    if f["layout"] == "rm":
        ms = META11[sym]
        multi = {z1: [(p, g) for p in range(1, ms[z1] + 1) for g in range(1, ms[z1 - 1] + 1)] for z1 in z1s}
    ne, te, blocks = W.content_adf11(f["nne"], f["nte"], z1s, f["te0"] == "neg", multi, rev=_rev())
    name = "%s%s_%s.dat" % (kind, "89" if f["layout"] == "89" else "96" + ("r" if layout == "resolved" else ""), sym.lower())
    path = os.path.join(d, name)
    truth = W.write_adf11(path, el.name, el.atomic_number, ne, te, blocks, layout=layout, metastables=ms,
                          trailer=None if f["trailer"] == "none" else f["trailer"])
    return el, z1s, name, path, truth


def eval11(f, with_install=True):
    np = _G["np"]
    r = Res()
    d = _fresh_dir("a11")
    try:
        el, z1s, name, path, truth = _gen11(f, d)
        r.ops += 1
        try:
            out = _G["parse"].parse_adf11(el, path)
        except Exception as e:  # noqa
            return r.failed("parse_adf11", "raises:" + type(e).__name__, "tables of Z1=%s" % z1s, repr(e)[:300])
        top = list(out.keys())
        obs_keys = set(out[el].keys()) if el in top else set()
        if len(top) > 1 or (top and el not in top):
            return r.failed("parse_adf11", "element-keys-differ", [el.name], [getattr(k, "name", repr(k)) for k in top])
        if obs_keys != set(z1s):
            missing, extra = set(z1s) - obs_keys, obs_keys - set(z1s)
            kind = "last-block-missing" if (missing == {z1s[-1]} and not extra) else "charge-keys-differ"
            return r.failed("parse_adf11", kind, sorted(z1s), sorted(obs_keys, key=repr))
        chosen = {}
        for z1 in z1s:
            e = out[el][z1]
            if set(e.keys()) != {"ne", "te", "rates"}:
                return r.failed("parse_adf11", "entry-keys-differ", ["ne", "te", "rates"], sorted(e.keys()))
            c1, c2 = _cmp(e["ne"], truth["log_ne"]), _cmp(e["te"], truth["log_te"])
            if c1 or c2:
                return r.failed("parse_adf11", "axes:misread", {"log_ne": _short(truth["log_ne"]), "log_te": _short(truth["log_te"])},
                                {"ne": _short(e["ne"]), "te": _short(e["te"])})
            cands = [b for b in truth["blocks"] if b["z1"] == z1]
            hit = [i for i, b in enumerate(cands) if _cmp(e["rates"], b["table"]) is None]
            if not hit:
                obs = np.asarray(e["rates"])
                if obs.ndim == 2 and any(_cmp(obs.T, b["table"]) is None for b in cands):
                    kind = "rates:axis-order"
                elif obs.shape != cands[0]["table"].shape:
                    kind = "rates:shape"
                else:
                    kind = "rates:misread"
                return r.failed("parse_adf11", kind, {"Z1": z1, "table(ne,te)": _short(cands[0]["table"])}, {"Z1": z1, "rates": _short(obs)})
            chosen[z1] = cands[hit[0]]
            if len(cands) > 1:
                r.notes.append("rm:block-returned=%s-of-%d" % ("last" if hit[0] == len(cands) - 1 else "first" if hit[0] == 0 else "middle", len(cands)))
        r.classes.append("adf11:parse-agrees")
        if not with_install:
            return r
        # install through every ADF11 front-end, read back
        H = _G["el"]["H"]
        exp_ne = np.array([10.0 ** float(v) for v in truth["log_ne"]]) * 1.0e6
        exp_te = np.array([10.0 ** float(v) for v in truth["log_te"]])
        for kind in A11["kinds"]:
            fi, fg, off = _K11[kind]
            site = fi
            repo = os.path.join(d, "repo_" + kind)
            os.makedirs(repo)
            inst = getattr(_G["install"], fi)
            get = getattr(_G["repo"], fg)
            r.ops += 1
            try:
                if kind == "ccd":
                    _quiet(inst, H, 0, el, name, repository_path=repo, adas_path=d)
                else:
                    _quiet(inst, el, name, repository_path=repo, adas_path=d)
            except Exception as e:  # noqa
                r.failed(site, "raises:" + type(e).__name__, "installs Z1=%s" % z1s, repr(e)[:300])
                continue

            def rd(charge):
                if kind == "ccd":
                    return get(H, 0, el, charge, repository_path=repo)
                return get(el, charge, repository_path=repo)
            bad = False
            for z1 in z1s:
                r.ops += 1
                try:
                    g = rd(z1 + off)
                except Exception as e:  # noqa
                    r.failed(site, "readback:raises:" + type(e).__name__, "rate of file block Z1=%d under charge %d" % (z1, z1 + off), repr(e)[:300])
                    bad = True
                    break
                tab = np.array([[10.0 ** float(v) for v in row] for row in chosen[z1]["table"]]) * 1.0e-6
                if _cmp(g.get("ne"), exp_ne) or _cmp(g.get("te"), exp_te):
                    r.failed(site, "readback:axes", {"ne": _short(exp_ne), "te": _short(exp_te)}, {"ne": _short(g.get("ne")), "te": _short(g.get("te"))})
                    bad = True
                    break
                if _cmp(g.get("rate"), tab):
                    # is it another block's table (charge convention) ?
                    other = [b["z1"] for b in truth["blocks"] if _cmp(g.get("rate"), np.power(10.0, b["table"]) * 1.0e-6) is None]
                    r.failed(site, "readback:charge-convention" if other else "readback:rates",
                             {"charge": z1 + off, "from-block-Z1": z1, "rate": _short(tab)}, {"charge": z1 + off, "equals-block-Z1": other, "rate": _short(g.get("rate"))})
                    bad = True
                    break
            if not bad:
                for c in (z1s[0] + off - 1, z1s[-1] + off + 1):
                    if c < 0:
                        continue
                    r.ops += 1
                    try:
                        rd(c)
                        r.failed(site, "readback:unexpected-charge-present", "RuntimeError for charge %d" % c, "a table")
                        bad = True
                    except RuntimeError:
                        pass
                    except Exception as e:  # noqa
                        r.failed(site, "readback:absent-charge:raises:" + type(e).__name__, "RuntimeError", repr(e)[:200])
                        bad = True
            if not bad:
                r.classes.append("adf11:install:" + kind)
            shutil.rmtree(repo, ignore_errors=True)
        return r
    finally:
        shutil.rmtree(d, ignore_errors=True)


def label11(f, fail=None):
    parts = []
    if f["cfg"] != NEUTRAL11["cfg"]:
        parts.append({"H1": "blocks=H:Z1=1", "C1": "blocks=C:Z1=1", "C2": "blocks=C:Z1=1..2", "C2o": "blocks=C:Z1=2", "Ne10": "blocks=Ne:Z1=1..10"}[f["cfg"]])
    if f["layout"] != NEUTRAL11["layout"]:
        parts.append({"89": "layout=89", "r1": "resolved", "rm": "resolved-multi-metastable"}[f["layout"]])
    for k in ("nne", "nte"):
        if f[k] != NEUTRAL11[k]:
            parts.append("%s<=8" % k if f[k] <= 8 else "%s=%d" % (k, f[k]))
    if f["te0"] != NEUTRAL11["te0"]:
        parts.append("first-te<1eV")
    if f["trailer"] != NEUTRAL11["trailer"]:
        parts.append("no-trailer" if f["trailer"] == "none" else "trailer=dash+C")
    return "+".join(parts) or "any-shape"


# ---------------------------------------------------------------------------------------------------------------
# ADF15
# ---------------------------------------------------------------------------------------------------------------
_CLS15 = {"EXCIT": "excitation", "RECOM": "recombination", "CHEXC": "thermalcx"}


def eval15(f, with_install=True):
    np, W = _G["np"], _G["W"]
    r = Res()
    d = _fresh_dir("a15")
    try:
        sym, charge, style, fname, hfmt = A15["sty"][f["sty"]]
        el = _G["el"][sym]
        H = _G["el"]["H"]
        blocks = W.content_adf15(f["nne"], f["nte"], f["nblocks"], style, f["types"], rev=_rev())
        index_only = []
        if f["absent"]:
            # the index table announces one more ISEL than there are data blocks
            up, lo = W.PAIR_ABSENT_H if style == "hydrogen" else W.PAIR_ABSENT_X
            kabs = f["nblocks"] + 1
            if f["absent"] == 2:
                # the absent block is not the last one: data blocks are numbered 1, 3, 4, ... (a single block: 2), the index table lists them all
                kabs = 1 if f["nblocks"] == 1 else 2
                for j, b in enumerate(blocks):
                    b["isel"] = j + 1 if j + 1 < kabs else j + 2
            index_only = [{"isel": kabs, "wavelength": 4321.0, "upper": up, "lower": lo, "type": "EXCIT"}]
        path = os.path.join(d, fname)
        truth = W.write_adf15(path, blocks, style=style, levels=W.LEVELS, a_style=f["a"], index_extra=bool(f["extra"]), index_only=index_only,
                              title="%s+%2d PHOTON EMISSIVITY COEFFICIENTS" % (sym.upper(), charge))
        r.ops += 1
        kw = {} if hfmt is None else {"header_format": hfmt}
        try:
            rates, wl = _G["parse"].parse_adf15(el, charge, path, **kw)
        except Exception as e:  # noqa
            if f["absent"]:
                r.classes.append("adf15:absent-isel:rejected" if f["absent"] == 1 else "adf15:absent-interior-isel:rejected")
                return r
            return r.failed("parse_adf15", "raises:" + type(e).__name__, "tables of %d blocks" % f["nblocks"], repr(e)[:300])
        if f["absent"]:
            key = truth["index_only"][0]["key"]
            got = None
            try:
                if "excitation" in rates and el in rates["excitation"] and charge in rates["excitation"][el] and key in rates["excitation"][el][charge]:
                    got = _short(rates["excitation"][el][charge][key]["rate"])
            except Exception:  # noqa
                pass
            return r.failed("parse_adf15", "absent-isel:accepted", "an exception (index table lists ISEL=%d, no such data block)" % kabs,
                            {"returned-for-absent-block": got})
        # expected content per class
        exp = {}
        for b in truth["blocks"]:
            exp.setdefault(_CLS15[b["type"]], {})[b["key"]] = b
        obs_cls = set(k for k in rates.keys() if len(rates[k]))
        if obs_cls != set(exp):
            return r.failed("parse_adf15", "classes-differ", sorted(exp), sorted(obs_cls))
        for cls, trs in exp.items():
            node = rates[cls]
            if list(node.keys()) != [el] or list(node[el].keys()) != [charge]:
                return r.failed("parse_adf15", "species-keys-differ", [el.name, charge], [[getattr(k, "name", repr(k)) for k in node.keys()]])
            okeys = set(node[el][charge].keys())
            if okeys != set(trs):
                return r.failed("parse_adf15", "transitions-differ", sorted(map(repr, trs)), sorted(map(repr, okeys)))
            for key, b in trs.items():
                e = node[el][charge][key]
                if _cmp(e["ne"], b["ne"] * 1.0e6) or _cmp(e["te"], b["te"]):
                    return r.failed("parse_adf15", "axes:misread", {"ne": _short(b["ne"] * 1e6), "te": _short(b["te"])}, {"ne": _short(e["ne"]), "te": _short(e["te"])})
                if _cmp(e["rate"], b["pec"] * 1.0e-6):
                    other = [x["isel"] for x in truth["blocks"] if _cmp(e["rate"], x["pec"] * 1.0e-6) is None]
                    obs = np.asarray(e["rate"])
                    kind = "rate:other-block" if other else ("rate:axis-order" if obs.shape == b["pec"].shape[::-1] and _cmp(obs.T, b["pec"] * 1e-6) is None else "rate:misread")
                    return r.failed("parse_adf15", kind, {"isel": b["isel"], "rate": _short(b["pec"] * 1e-6)}, {"equals-isel": other, "rate": _short(obs)})
                try:
                    w = wl[el][charge][key]
                except Exception as ex:  # noqa
                    return r.failed("parse_adf15", "wavelength:missing", b["wavelength"] / 10.0, repr(ex)[:100])
                if _cmp(w, b["wavelength"] / 10.0):
                    return r.failed("parse_adf15", "wavelength:misread", b["wavelength"] / 10.0, w)
        if set(wl[el][charge].keys()) != set(b["key"] for b in truth["blocks"]):
            return r.failed("parse_adf15", "wavelength:keys-differ", sorted(repr(b["key"]) for b in truth["blocks"]), sorted(map(repr, wl[el][charge].keys())))
        r.classes.append("adf15:parse-agrees")
        for t in sorted(set(b["type"] for b in truth["blocks"])):
            r.classes.append("adf15:" + t)
        if not with_install:
            return r
        repo = os.path.join(d, "repo")
        os.makedirs(repo)
        r.ops += 1
        try:
            _quiet(_G["install"].install_adf15, el, charge, fname, repository_path=repo, adas_path=d, **kw)
        except Exception as e:  # noqa
            return r.failed("install_adf15", "raises:" + type(e).__name__, "installs %d blocks" % f["nblocks"], repr(e)[:300])
        R = _G["repo"]
        ok = True
        for b in truth["blocks"]:
            r.ops += 1
            typ = b["type"]
            try:
                if typ == "EXCIT":
                    g = R.get_pec_excitation_rate(el, charge, b["key"], repository_path=repo)
                elif typ == "RECOM":
                    g = R.get_pec_recombination_rate(el, charge, b["key"], repository_path=repo)
                else:
                    g = R.get_pec_thermal_cx_rate(H, 0, el, charge + 1, b["key"], repository_path=repo)
            except Exception as e:  # noqa
                where = "default-repository" if (typ == "CHEXC" and os.path.isdir(_G["default_repo"])) else "nowhere"
                r.failed("install_adf15", "%s:readback:raises:%s" % (typ, type(e).__name__),
                         "the block's table from the repository the file was installed into", {"exception": repr(e)[:200], "written-to": where})
                ok = False
                if where != "default-repository":
                    continue
                # keep the value oracle alive: the table went to the (per-worker, scratch) default repository - compare it there
                try:
                    g = R.get_pec_thermal_cx_rate(H, 0, el, charge + 1, b["key"])
                except Exception as e2:  # noqa
                    r.failed("install_adf15", "CHEXC:default-repository:readback:raises:" + type(e2).__name__, "table", repr(e2)[:200])
                    continue
                rate = np.asarray(g["rate"])
                if _cmp(g["ne"], b["ne"] * 1.0e6) or _cmp(g["te"], b["te"]) or rate.ndim != 3 or \
                        any(_cmp(rate[:, :, k], b["pec"] * 1.0e-6) for k in range(rate.shape[2])):
                    r.fail = None       # report the value disagreement rather than the misplaced file
                    r.failed("install_adf15", "CHEXC:default-repository:readback:values", _short(b["pec"] * 1e-6), _short(rate))
                else:
                    r.notes.append("CHEXC-table-correct-in-default-repository")
                continue
            if _cmp(g["ne"], b["ne"] * 1.0e6) or _cmp(g["te"], b["te"]):
                r.failed("install_adf15", "%s:readback:axes" % typ, {"ne": _short(b["ne"] * 1e6), "te": _short(b["te"])}, {"ne": _short(g["ne"]), "te": _short(g["te"])})
                ok = False
                continue
            rate = np.asarray(g["rate"])
            if typ == "CHEXC":
                bad = rate.ndim != 3 or any(_cmp(rate[:, :, k], b["pec"] * 1.0e-6) for k in range(rate.shape[2]))
            else:
                bad = _cmp(rate, b["pec"] * 1.0e-6)
            if bad:
                r.failed("install_adf15", "%s:readback:rate" % typ, _short(b["pec"] * 1e-6), _short(rate))
                ok = False
                continue
            r.ops += 1
            try:
                w = R.get_wavelength(el, charge, b["key"], repository_path=repo)
                if _cmp(w, b["wavelength"] / 10.0):
                    r.failed("install_adf15", "wavelength:readback:value", b["wavelength"] / 10.0, w)
                    ok = False
            except Exception as e:  # noqa
                r.failed("install_adf15", "wavelength:readback:raises:" + type(e).__name__, b["wavelength"] / 10.0, repr(e)[:200])
                ok = False
        if ok:
            r.classes.append("adf15:install-readback")
        return r
    finally:
        shutil.rmtree(d, ignore_errors=True)
        shutil.rmtree(os.path.join(_G["home"], ".cherab"), ignore_errors=True)


def label15(f, fail=None):
    parts = []
    if f["sty"] != NEUTRAL15["sty"]:
        parts.append("sty=" + f["sty"])
    for k in ("nne", "nte"):
        if f[k] != NEUTRAL15[k]:
            parts.append("%s<=8" % k if f[k] <= 8 else "%s=%d" % (k, f[k]))
    if f["nblocks"] != NEUTRAL15["nblocks"]:
        parts.append("blocks=%d" % f["nblocks"])
    if f["types"] != NEUTRAL15["types"] and not (fail and fail[1].split(":")[0] in _CLS15):
        parts.append("types=" + f["types"])      # (omitted when the failure kind already names the block type)
    if f["a"] != NEUTRAL15["a"]:
        parts.append("blank-before-A")
    if f["extra"]:
        parts.append("index-extra-columns")
    if f["absent"]:
        parts.append("absent-isel" if f["absent"] == 1 else "absent-interior-isel")
    return "+".join(parts) or "any-shape"


# ---------------------------------------------------------------------------------------------------------------
# ADF12
# ---------------------------------------------------------------------------------------------------------------
_M12 = (("eb", "ener", 1.0), ("ti", "tiev", 1.0), ("ni", "densi", 1.0e6), ("z", "zeff", 1.0), ("b", "bmag", 1.0),
        ("qeb", "qener", 1.0e-6), ("qti", "qtiev", 1.0e-6), ("qni", "qdensi", 1.0e-6), ("qz", "qzeff", 1.0e-6), ("qb", "qbmag", 1.0e-6),
        ("ebref", "ebref", 1.0), ("tiref", "tiref", 1.0), ("niref", "niref", 1.0e6), ("zref", "zeref", 1.0), ("bref", "bref", 1.0),
        ("qref", "qefref", 1.0e-6))


def eval12(f, with_install=True):
    np, W = _G["np"], _G["W"]
    r = Res()
    d = _fresh_dir("a12")
    try:
        H, C = _G["el"]["H"], _G["el"]["C"]
        meta = 1
        blocks = W.content_adf12(f["nbeam"], f["nti"], f["ndi"], f["nze"], f["nb"], f["nblocks"], rev=_rev())
        fname = "qef93#h_c6.dat"
        path = os.path.join(d, fname)
        truth = W.write_adf12(path, blocks, letter=f["letter"], declared_count=f["nblocks"] + 1 if f["absent"] else None)
        r.ops += 1
        try:
            out = _G["parse"].parse_adf12(H, meta, C, 6, path)
        except Exception as e:  # noqa
            if f["absent"]:
                r.classes.append("adf12:absent-block:rejected")
                return r
            return r.failed("parse_adf12", "raises:" + type(e).__name__, "tables of %d blocks" % f["nblocks"], repr(e)[:300])
        if f["absent"]:
            return r.failed("parse_adf12", "absent-block:accepted", "an exception (%d blocks announced, %d present)" % (f["nblocks"] + 1, f["nblocks"]),
                            "returned transitions %s" % sorted(out[H][C][6].keys()))
        exp = {b["transition"]: b for b in truth["blocks"]}
        okeys = set(out[H][C][6].keys()) if (H in out.keys() and C in out[H].keys() and 6 in out[H][C].keys()) else set()
        if okeys != set(exp):
            return r.failed("parse_adf12", "transitions-differ", sorted(exp), sorted(okeys, key=repr))

        def check(site, e, b, stored_only=False):
            for ck, wk, fac in _M12:
                if stored_only and ck.endswith("ref") and ck != "qref":
                    continue        # the repository format documents (and stores) only the arrays and 'qref'
                if ck not in e:
                    return r.failed(site, "entry-keys-differ", ck, sorted(e.keys()))
                if _cmp(e[ck], np.asarray(b[wk]) * fac):
                    kind = "reference-values" if ck.endswith("ref") else ("axes" if not ck.startswith("q") else "rates")
                    return r.failed(site, kind + ":misread", {ck: _short(np.asarray(b[wk]) * fac)}, {ck: _short(e[ck])})
            return None
        for tr, b in exp.items():
            ms = out[H][C][6][tr]
            if list(ms.keys()) != [meta]:
                return r.failed("parse_adf12", "metastable-keys-differ", [meta], list(ms.keys()))
            if check("parse_adf12", ms[meta], b):
                return r
        r.classes.append("adf12:parse-agrees")
        if not with_install:
            return r
        repo = os.path.join(d, "repo")
        os.makedirs(repo)
        r.ops += 1
        try:
            _quiet(_G["install"].install_adf12, H, meta, C, 6, fname, repository_path=repo, adas_path=d)
        except Exception as e:  # noqa
            return r.failed("install_adf12", "raises:" + type(e).__name__, "installs %d blocks" % f["nblocks"], repr(e)[:300])
        for tr, b in exp.items():
            r.ops += 1
            try:
                g = _G["repo"].get_beam_cx_rates(H, C, 6, tr, repository_path=repo)
            except Exception as e:  # noqa
                return r.failed("install_adf12", "readback:raises:" + type(e).__name__, "rates of transition %s" % (tr,), repr(e)[:300])
            if [m for m, _ in g] != [meta]:
                return r.failed("install_adf12", "readback:metastables-differ", [meta], [m for m, _ in g])
            if check("install_adf12", g[0][1], b, stored_only=True):
                r.fail = (r.fail[0], "readback:" + r.fail[1])
                return r
        r.classes.append("adf12:install-readback")
        return r
    finally:
        shutil.rmtree(d, ignore_errors=True)


def label12(f, fail=None):
    parts = []
    for k, mx in (("nbeam", 24), ("nti", 12), ("ndi", 24), ("nze", 12), ("nb", 12)):
        if f[k] != NEUTRAL12[k]:
            parts.append("%s<=6" % k if f[k] <= 6 else "%s<%d" % (k, mx))
    if f["nblocks"] != 1:
        parts.append("blocks>1")
    if f["letter"] != "D":
        parts.append("exponent-E")
    if f["absent"]:
        parts.append("absent-block")
    return "+".join(parts) or "any-shape"


# ---------------------------------------------------------------------------------------------------------------
# ADF21 / ADF22
# ---------------------------------------------------------------------------------------------------------------
def eval2x(f, with_install=True):
    np, W = _G["np"], _G["W"]
    r = Res()
    d = _fresh_dir("a2x")
    try:
        H, C = _G["el"]["H"], _G["el"]["C"]
        entry = f["entry"]
        norm = 1.0 if entry == "adf22bmp" else 1.0e-6
        eb, dt, sv, tt, svt = W.content_adf21(f["neb"], f["ndt"], f["ntt"], scale=1.0e-3 if entry == "adf22bmp" else 1.0e-7, rev=_rev())
        fname = {"adf21": "bms97#h_c6.dat", "adf22bmp": "bmp97#h_2_c6.dat", "adf22bme": "bme10#h_c6.dat"}[entry]
        path = os.path.join(d, fname)
        t = W.write_adf21(path, eb, dt, sv, tt, svt, letter=f["letter"], svref=3.317e-3 if entry == "adf22bmp" else 9.734e-8)
        P, I, R = _G["parse"], _G["install"], _G["repo"]
        r.ops += 1
        site = "parse_" + entry
        try:
            if entry == "adf21":
                e = P.parse_adf21(H, C, 6, path)[H][C][6]
            elif entry == "adf22bmp":
                e = P.parse_adf22bmp(H, 2, C, 6, path)[H][2][C][6]
            else:
                e = P.parse_adf22bme(H, C, 6, (3, 2), path)[H][C][6][(3, 2)]
        except Exception as ex:  # noqa
            return r.failed(site, "raises:" + type(ex).__name__, "tables", repr(ex)[:300])
        exp = {"e": t["eb"], "n": t["dt"] * 1.0e6, "t": t["tt"], "sen": t["sv"] * norm, "st": t["svt"] * norm,
               "eref": t["eref"], "nref": t["nref"] * 1.0e6, "tref": t["tref"], "sref": t["svref"] * norm}

        def check(site, e):
            if set(e.keys()) != set(exp):
                return r.failed(site, "entry-keys-differ", sorted(exp), sorted(e.keys()))
            for k in ("e", "n", "t", "sen", "st", "eref", "nref", "tref", "sref"):
                if _cmp(e[k], exp[k]):
                    obs = np.asarray(e[k])
                    kind = "reference-values" if k.endswith("ref") else ("axes" if k in ("e", "n", "t") else
                                                                       ("sen:axis-order" if k == "sen" and obs.ndim == 2 and _cmp(obs.T, exp[k]) is None and obs.shape != exp[k].shape else "rates"))
                    return r.failed(site, kind + ":misread", {k: _short(exp[k])}, {k: _short(e[k])})
            return None
        if check(site, e):
            return r
        r.classes.append(entry + ":parse-agrees")
        if not with_install:
            return r
        repo = os.path.join(d, "repo")
        os.makedirs(repo)
        r.ops += 2
        site = "install_" + entry
        try:
            if entry == "adf21":
                _quiet(I.install_adf21, H, C, 6, fname, repository_path=repo, adas_path=d)
                g = R.get_beam_stopping_rate(H, C, 6, repository_path=repo)
            elif entry == "adf22bmp":
                _quiet(I.install_adf22bmp, H, 2, C, 6, fname, repository_path=repo, adas_path=d)
                g = R.get_beam_population_rate(H, 2, C, 6, repository_path=repo)
            else:
                _quiet(I.install_adf22bme, H, C, 6, (3, 2), fname, repository_path=repo, adas_path=d)
                g = R.get_beam_emission_rate(H, C, 6, (3, 2), repository_path=repo)
        except Exception as ex:  # noqa
            return r.failed(site, "raises:" + type(ex).__name__, "install and read back", repr(ex)[:300])
        if check(site, g):
            r.fail = (r.fail[0], "readback:" + r.fail[1])
            return r
        r.classes.append("adf2x:install-readback")
        return r
    finally:
        shutil.rmtree(d, ignore_errors=True)


def label2x(f, fail=None):
    parts = []
    if f["entry"] != "adf21":
        parts.append(f["entry"])
    for k in ("neb", "ndt", "ntt"):
        if f[k] != NEUTRAL2X[k]:
            parts.append("%s<=8" % k if f[k] <= 8 else "%s=%d" % (k, f[k]))
    if f["letter"] != "E":
        parts.append("exponent-D")
    return "+".join(parts) or "any-shape"


NEUTRAL2X = NEUTRAL21

FAMILIES = {
    "adf11": (eval11, NEUTRAL11, ORDER11, label11),
    "adf15": (eval15, NEUTRAL15, ORDER15, label15),
    "adf12": (eval12, NEUTRAL12, ORDER12, label12),
    "adf2x": (eval2x, NEUTRAL21, ORDER21, label2x),
}


# ---------------------------------------------------------------------------------------------------------------
# minimisation of a failing file -> signature
# ---------------------------------------------------------------------------------------------------------------
def _memo_fail(fam, f, with_install):
    """Failure of the file with features f (memoised per worker).  A trial for a failure at a parse site does not need the
    install stage: the parse stage comes first and decides."""
    key = (fam, with_install, bool(_G.get("via_files")), tuple(sorted(f.items())))
    m = _G["memo"]
    if key not in m:
        if len(m) > 50000:
            m.clear()
        _G["iso"] = True
        try:
            m[key] = FAMILIES[fam][0](f, with_install=with_install).fail
        finally:
            _G["iso"] = False
    return m[key]


def minimise(fam, f, fail):
    _, neutral, order, _ = FAMILIES[fam]
    f = dict(f)
    for k in order:
        if f[k] != neutral[k]:
            t = dict(f)
            t[k] = neutral[k]
            if _memo_fail(fam, t, fail[0].startswith("install")) == fail:
                f = t
    return f


def _run_file(fam, f, out):
    """Evaluate one lattice point; append violations / bookkeeping to out."""
    ev, neutral, order, label = FAMILIES[fam]
    res = ev(f)
    out["n"] += 1
    out["ops"] += res.ops
    out["states"].append((fam,) + tuple(sorted(f.items())))
    out["classes"] += res.classes
    out["notes"] += res.notes
    if res.fail is None:
        out["nontrivial"].append((fam,) + tuple(sorted(f.items())))
        out["summary"].append("ok")
        return res
    if _memo_fail(fam, f, res.fail[0].startswith("install")) != res.fail:
        # the very same file is read correctly from a path that was never used before: what went wrong is the earlier edition at this path
        fm = f
        sig = "C08:%s:after-another-edition-at-the-same-path:%s" % (res.fail[0], res.fail[1])
    else:
        fm = minimise(fam, f, res.fail)
        sig = "C08:%s:%s:%s" % (res.fail[0], label(fm, res.fail), res.fail[1])
    if _G.get("via_files"):
        _G["via_files"] = False
        try:
            direct = _memo_fail(fam, f, res.fail[0].startswith("install"))
        finally:
            _G["via_files"] = True
        if direct != res.fail:
            sig = "C08:install_files:%s:differs-from-the-front-end-called-directly:%s" % (res.fail[0], res.fail[1])
    out["viol"].append({"sig": sig, "what": "%s on a generated %s file; failing file features %s (minimised to %s)" % (res.fail[0], fam, f, fm),
                        "expected": res.exp, "observed": res.obs})
    out["nontrivial"].append((fam,) + tuple(sorted(f.items())))
    out["summary"].append(sig)
    return res


# ---------------------------------------------------------------------------------------------------------------
# wrong element (ADF11)
# ---------------------------------------------------------------------------------------------------------------
def _reject11(out):
    P, I, R, W = _G["parse"], _G["install"], _G["repo"], _G["W"]
    E = _G["el"]
    pairs = [("H", "C"), ("C", "H"), ("C", "Ne"), ("Ne", "C"), ("H", "D"), ("Ne", "H")]
    for file_sym, req_sym in pairs:
        for layout in ("96", "89", "r1"):
            d = _fresh_dir("rej")
            try:
                cfg = {"H": "H1", "C": "C6", "Ne": "Ne10"}[file_sym]
                f = dict(NEUTRAL11, cfg=cfg, layout=layout, nne=9, nte=7, te0="neg")
                el, z1s, name, path, truth = _gen11(f, d)
                req = E[req_sym]
                cls = "isotope-of-file-element" if req_sym == "D" else "other-element"
                out["n"] += 1
                out["ops"] += 1
                out["states"].append(("reject", file_sym, req_sym, layout))
                out["nontrivial"].append(("reject", file_sym, req_sym, layout))
                try:
                    got = P.parse_adf11(req, path)
                    out["viol"].append({"sig": "C08:parse_adf11:wrong-element:%s:accepted" % cls, "what": "file of %s parsed for %s" % (file_sym, req_sym),
                                        "expected": "ValueError", "observed": "returned keys %s" % [getattr(k, "name", k) for k in got.keys()]})
                    continue
                except ValueError:
                    pass
                except Exception as e:  # noqa
                    out["viol"].append({"sig": "C08:parse_adf11:wrong-element:%s:raises:%s" % (cls, type(e).__name__), "what": "file of %s parsed for %s" % (file_sym, req_sym),
                                        "expected": "ValueError", "observed": repr(e)[:200]})
                    continue
                # the install front-ends must refuse as well and leave nothing readable behind
                bad = False
                for kind in A11["kinds"]:
                    fi, fg, off = _K11[kind]
                    repo = os.path.join(d, "repo_" + kind)
                    os.makedirs(repo)
                    out["ops"] += 1
                    try:
                        if kind == "ccd":
                            _quiet(getattr(I, fi), E["H"], 0, req, name, repository_path=repo, adas_path=d)
                        else:
                            _quiet(getattr(I, fi), req, name, repository_path=repo, adas_path=d)
                        accepted = True
                    except Exception:  # noqa
                        accepted = False
                    files = [x for _, _, fs in os.walk(repo) for x in fs]
                    if accepted or files:
                        out["viol"].append({"sig": "C08:%s:wrong-element:%s:%s" % (fi, cls, "accepted" if accepted else "files-written"),
                                            "what": "file of %s installed for %s" % (file_sym, req_sym), "expected": "an exception and an empty repository",
                                            "observed": {"accepted": accepted, "files": files[:5]}})
                        bad = True
                if not bad:
                    out["classes"].append("adf11:wrong-element:rejected")
                    out["summary"].append("rejected")
            finally:
                shutil.rmtree(d, ignore_errors=True)


# ---------------------------------------------------------------------------------------------------------------
# run_case
# ---------------------------------------------------------------------------------------------------------------
def run_case(case):
    setup_worker(None)
    import hashlib
    import json as _json
    _G["seq"] = 0
    _G["case_tag"] = hashlib.blake2b(_json.dumps(case, sort_keys=True).encode(), digest_size=6).hexdigest()
    out = {"n": 0, "ops": 0, "states": [], "classes": [], "notes": [], "viol": [], "nontrivial": [], "summary": []}
    fam = case["fam"]
    _G["via_files"] = False
    # Primer: before its own files every case parses a fixed set of files that, together, contain every (element, class, transition /
    # charge / block) any file of its family can contain; what these parses return is NOT judged.  A parser that keeps anything between
    # calls is then in the same saturated state in a pool worker (which has served other cases) and in the fresh process that confirms a
    # violation, so a violation on the case's own files reproduces alone.
    prim = []
    if fam == "adf15":
        prim = [("adf15", dict(NEUTRAL15, sty=sty, nne=9, nte=7, nblocks=12, types=types)) for sty in sorted(A15["sty"]) for types in A15["types"]]
    elif fam == "adf11":
        prim = [("adf11", dict(NEUTRAL11, cfg=cfg, layout=layout, nne=9, nte=7)) for cfg, layout in (("Ne10", "96"), ("C6", "rm"), ("H1", "89"), ("C2", "r1"))]
    elif fam == "adf12":
        prim = [("adf12", dict(NEUTRAL12, nblocks=3, nbeam=7, nti=6))]
    elif fam == "adf2x":
        prim = [("adf2x", dict(NEUTRAL21, entry=entry, neb=9, ndt=7, ntt=9)) for entry in A21["entry"]]
    for pf, f in prim:
        try:
            FAMILIES[pf][0](f, with_install=False)
        except Exception:  # noqa
            pass
        out["ops"] += 1
    if fam == "adf11":
        for layout, trailer, te0 in itertools.product(A11["layout"], A11["trailer"], A11["te0"]):
            f = {"cfg": case["cfg"], "layout": layout, "nne": case["nne"], "nte": case["nte"], "te0": te0, "trailer": trailer}
            _run_file("adf11", f, out)
            out["classes"] += ["adf11:layout=" + layout, "adf11:trailer=" + trailer]
            if f["nne"] <= 8 and te0 == "neg":
                out["classes"].append("adf11:nne<=8,first-te<1eV")
            if f["nne"] % 8 or f["nte"] % 8:
                out["classes"].append("adf11:count-not-multiple-of-8")
            if (f["nne"], f["nte"]) == (24, 30) and te0 == "neg" and layout == "96" and trailer == "C-dash" and case["cfg"] == "C6":
                out["classes"].append("adf11:canonical-24x30")
            if case["cfg"] == "Ne10":
                out["classes"].append("adf11:Z1>=10")
    elif fam == "adf11-reject":
        _reject11(out)
    elif fam == "adf15":
        for nb, types, a, extra, absent in itertools.product(case["nblocks"], A15["types"], A15["a"], A15["extra"], A15["absent"]):
            f = {"sty": case["sty"], "nne": case["nne"], "nte": case["nte"], "nblocks": nb, "types": types, "a": a, "extra": extra, "absent": absent}
            _run_file("adf15", f, out)
            out["classes"].append("adf15:sty=" + case["sty"])
            if f["nne"] % 8 or f["nte"] % 8:
                out["classes"].append("adf15:count-not-multiple-of-8")
    elif fam == "dispatch":
        # every installer reached through install_files(configuration): a few files of each format
        _G["via_files"] = True
        try:
            for layout, cfg in (("96", "C2"), ("89", "H1"), ("r1", "C6")):
                _run_file("adf11", dict(NEUTRAL11, layout=layout, cfg=cfg, nne=9, nte=7), out)
            for sty in ("H", "HL", "FULL"):
                _run_file("adf15", dict(NEUTRAL15, sty=sty, nne=9, nte=7, nblocks=5, types="mixed"), out)
            for nblocks in (1, 3):
                _run_file("adf12", dict(NEUTRAL12, nblocks=nblocks, nbeam=7, nti=6), out)
            for entry in A21["entry"]:
                _run_file("adf2x", dict(NEUTRAL21, entry=entry), out)
        finally:
            _G["via_files"] = False
        out["classes"].append("install_files:every-key")
    elif fam == "adf12":
        for nze, nb, nblocks, letter, absent in itertools.product(case["n12"], case["n12"], A12["nblocks"], A12["letter"], A12["absent"]):
            f = {"nbeam": case["nbeam"], "nti": case["nti"], "ndi": case["ndi"], "nze": nze, "nb": nb, "nblocks": nblocks, "letter": letter, "absent": absent}
            _run_file("adf12", f, out)
            if min(f["nbeam"] - 24, f["nti"] - 12, f["ndi"] - 24, nze - 12, nb - 12) < 0:
                out["classes"].append("adf12:count<max")
            if letter == "E":
                out["classes"].append("adf12:letter=E")
    elif fam == "adf2x":
        for ntt, letter, entry in itertools.product(case["ntt"], A21["letter"], A21["entry"]):
            f = {"entry": entry, "neb": case["neb"], "ndt": case["ndt"], "ntt": ntt, "letter": letter}
            _run_file("adf2x", f, out)
            if letter == "D":
                out["classes"].append("adf2x:letter=D")
            if f["neb"] % 8 or f["ndt"] % 8 or ntt % 8:
                out["classes"].append("adf2x:count-not-multiple-of-8")
    else:
        raise ValueError(fam)
    summ = sorted(set(out["summary"])) + sorted(set(out["notes"]))
    return {"viol": out["viol"], "classes": out["classes"], "n": max(out["n"], 1), "states": out["states"], "transitions": max(out["ops"], 1),
            "nontrivial": out["nontrivial"], "outcome": (fam, tuple(sorted((k, repr(v)) for k, v in case.items() if k not in ("fam", "label"))), tuple(summ))}
