"""C01 - no stale derived state after plasma / beam / laser changes (engine H).

Every history = canonical build of a start configuration, then <= d public mutators, each optionally
preceded by an observation, then a final observation that must equal the observation of a scene
built from scratch in the final configuration (differential oracle, no hand-written expectations).
"""
import copy
import importlib
import itertools

from mc.engine_h import canon, diff_groups

PROPERTY = "C01"
DRIVER = "three closed scenes (plasma+passive models; plasma+beam+attenuator+beam models; plasma+laser+Thomson model), fixed sight lines"
DRIVERS = ["beam", "plasma", "laser"]
RTOL = 1e-9
BOUND = {
    "quick": "all histories of <= 2 mutators over the full alphabet with every observation mask, from every start configuration; "
             "plus all histories of 3 mutators inside each dependency group (masks: never / before every op) from start 0",
    "thorough": "quick, plus all histories of exactly 3 mutators over the full alphabet (masks: never / before every op) from every start "
                "configuration, plus 4 mutators inside each dependency group from start 0",
}
RULE = ("histories enumerated exhaustively per (driver, start, first op); a history is non-trivial when an operation was applied after an "
        "observation and the fresh-build observation of the final configuration differs from that earlier observation (a cache existed and the change mattered); "
        "distinct = distinct (driver, start, op sequence, mask)")
ASSUMPTIONS = [
    "raysect scene-graph, ray tracing and integrators are trusted",
    "only supported mutators are in the alphabet (valid values, documented preconditions); observation = fixed rays, beam density/direction samples, z_effective/ion density, exception types",
    "float comparison rel 1e-9 of the peak of each observation group (dict-order summation differences only)",
]
REQUIRED_CLASSES = ["beam:history", "plasma:history", "laser:history", "beam:op-after-observe-mattered",
                    "plasma:op-after-observe-mattered", "laser:op-after-observe-mattered"]
BUDGET_S = {"quick": 900, "thorough": 5400}
CHUNK = 4
STATES_MEANING = "distinct model configurations (canonical slot/value tuples) reached"


def _drv(name):
    return importlib.import_module("checks.c01_" + name)


def setup_worker(tier):
    """Own the garbage collector: scene graphs are cyclic, so when a replaced model / attenuator dies (and its
    weak reference in a Notifier goes dead) would otherwise depend on allocation counts.  Automatic collection is
    switched off and run_history collects at fixed points, which makes every history deterministic."""
    import gc
    for n in DRIVERS:
        d = _drv(n)
        d.observe(d.build(copy.deepcopy(d.STARTS[0])))
    gc.collect()
    gc.freeze()
    gc.disable()


def _ops(drv):
    return [(s, v) for s, vals in drv.SLOTS.items() for v in vals]


ALPHABET = {}
for _n in DRIVERS:
    try:
        _d = _drv(_n)
        ALPHABET[_n] = {"slots": _d.SLOTS, "starts": len(_d.STARTS), "groups": _d.GROUPS}
    except ImportError:
        pass
DRIVERS = [n for n in DRIVERS if n in ALPHABET]
REQUIRED_CLASSES = [c for c in REQUIRED_CLASSES if c.split(":")[0] in DRIVERS]


def cases(tier):
    out = []
    for name in DRIVERS:
        drv = _drv(name)
        ops = _ops(drv)
        nstart = len(drv.STARTS)
        # every tier: all histories of <= 2 mutators, every observation mask, every start
        for st in range(nstart):
            for first in range(len(ops)):
                out.append({"driver": name, "start": st, "prefix": [first], "depth": 2, "group": None,
                            "masks": "all", "label": "%s:%s" % (name, ops[first][0])})
        # every tier: 3 mutators inside each dependency group from start 0
        for gname, slots in sorted(drv.GROUPS.items()):
            gops = [i for i, (s, v) in enumerate(ops) if s in slots]
            for first in gops:
                out.append({"driver": name, "start": 0, "prefix": [first], "depth": 3, "group": gname, "exact_depth": True,
                            "masks": "two", "label": "%s:%s:%s" % (name, gname, ops[first][0])})
        if tier == "thorough":
            # all histories of exactly 3 mutators over the full alphabet (masks: never / before every op), every start;
            # one case per two-op prefix so that the pool stays balanced and a time cap takes effect promptly
            for st in range(nstart):
                for first in range(len(ops)):
                    for second in range(len(ops)):
                        out.append({"driver": name, "start": st, "prefix": [first, second], "depth": 3, "group": None, "exact_depth": True,
                                    "masks": "two", "label": "%s:%s,%s" % (name, ops[first][0], ops[second][0])})
            # 4 mutators inside each dependency group from start 0
            for gname, slots in sorted(drv.GROUPS.items()):
                gops = [i for i, (s, v) in enumerate(ops) if s in slots]
                for first in gops:
                    for second in gops:
                        out.append({"driver": name, "start": 0, "prefix": [first, second], "depth": 4, "group": gname, "exact_depth": True,
                                    "masks": "two", "label": "%s:%s:%s,%s" % (name, gname, ops[first][0], ops[second][0])})
    return out


_FRESH = {}


def _observe(drv, scene):
    return drv.observe(scene)


def _fresh(drv, cfg):
    k = (drv.NAME, canon(cfg))
    r = _FRESH.get(k)
    if r is None:
        r = _observe(drv, drv.build(copy.deepcopy(cfg)))
        # stored as nested tuples of floats/strings: such tuples are dropped from the collector's lists after their
        # first collection, so the memo does not slow down the explicit gc.collect() calls of run_history
        r = tuple((lab, tuple(vals)) for lab, vals in r)
        if len(_FRESH) > 20000:
            _FRESH.clear()
        _FRESH[k] = r
    return r


def _kind(label):
    return label.rstrip("0123456789")


def run_history(drv, start, seq, mask, stats=None):
    """Returns None when the history is not in the space (an op is not enabled), else a dict
    {fail: None | descriptor, cfg, nontrivial}"""
    cfg = copy.deepcopy(drv.STARTS[start])
    import gc
    scene = drv.build(copy.deepcopy(cfg))
    gc.collect()
    pre = None
    post_obs_op = False
    for i, (slot, v) in enumerate(seq):
        if not drv.enabled(cfg, slot, v):
            return None
        if (mask >> i) & 1:
            pre = _observe(drv, scene)
        try:
            drv.apply(scene, cfg, slot, v)
        except Exception as e:  # noqa - an op the model regards as supported raised
            return {"fail": ("op-raises", type(e).__name__, str(e)[:160]), "cfg": cfg, "nontrivial": False, "live": None, "ref": None}
        gc.collect()   # objects replaced by this operation die here, deterministically
        if pre is not None:
            post_obs_op = True
        if stats is not None:
            stats["transitions"] += 1
            stats["states"].add(canon(cfg))
    live = _observe(drv, scene)
    del scene
    gc.collect()
    ref = _fresh(drv, cfg)
    bad = diff_groups(live, ref, RTOL)
    nontrivial = bool(post_obs_op and pre is not None and diff_groups(pre, ref, RTOL))
    if bad:
        return {"fail": ("differs", tuple(sorted({_kind(b) for b in bad}))), "cfg": cfg, "nontrivial": nontrivial, "live": live, "ref": ref, "bad": bad}
    return {"fail": None, "cfg": cfg, "nontrivial": nontrivial}


def _drop(seq, mask, i):
    """remove op i (and its mask bit)"""
    low = mask & ((1 << i) - 1)
    high = mask >> (i + 1)
    return seq[:i] + seq[i + 1:], low | (high << i)


def minimise(drv, start, seq, mask):
    """Greedy reduction to a locally minimal failing history (every reduction is itself in the explored space)."""
    cur = (list(seq), mask)
    res = run_history(drv, start, cur[0], cur[1])
    if res is None or not res["fail"]:
        return list(seq), mask, None
    changed = True
    while changed:
        changed = False
        for i in range(len(cur[0])):
            if len(cur[0]) == 1:
                break
            s2, m2 = _drop(cur[0], cur[1], i)
            r2 = run_history(drv, start, s2, m2)
            if r2 is not None and r2["fail"]:
                cur, res, changed = (s2, m2), r2, True
                break
        if changed:
            continue
        for i in range(len(cur[0])):
            if (cur[1] >> i) & 1:
                m2 = cur[1] & ~(1 << i)
                r2 = run_history(drv, start, cur[0], m2)
                if r2 is not None and r2["fail"]:
                    cur, res, changed = (cur[0], m2), r2, True
                    break
    return cur[0], cur[1], res


def signature(name, seq, mask, fail):
    parts = []
    for i, (slot, v) in enumerate(seq):
        parts.append(("obs>" if (mask >> i) & 1 else "") + slot)
    if fail[0] == "op-raises":
        tail = "raises:" + fail[1]
    else:
        tail = "differs:" + "+".join(fail[1])
    return "C01:%s:%s:%s" % (name, ",".join(parts), tail)


def _masks(kind, k):
    if kind == "all":
        return list(range(1 << k))
    if kind == "two":
        return sorted({0, (1 << k) - 1})
    return sorted({0, (1 << k) - 1, 1 << (k - 1)})


def _allowed(drv, ops, case):
    if case.get("group"):
        return [i for i, (s, v) in enumerate(ops) if s in drv.GROUPS[case["group"]]]
    return list(range(len(ops)))


def _case_histories(drv, ops, case):
    """All (op index tuple, mask) of a case: sequences that start with case['prefix'], of the lengths the case
    covers; a case may also pin a single sequence ('only') and a single mask ('mask')."""
    prefix = tuple(case["prefix"])
    depth = case["depth"]
    if case.get("only"):
        seqs = [prefix]
    else:
        allowed = _allowed(drv, ops, case)
        lengths = [depth] if case.get("exact_depth") else list(range(max(1, len(prefix)), depth + 1))
        seqs = []
        for k in lengths:
            if k < len(prefix):
                continue
            for rest in itertools.product(allowed, repeat=k - len(prefix)):
                seqs.append(prefix + rest)
    for idxs in seqs:
        ms = [case["mask"]] if case.get("mask") is not None else _masks(case["masks"], len(idxs))
        for mask in ms:
            yield idxs, mask


def split_case(case):
    """Smaller cases covering exactly the same histories (used by the runner when a batch crashed)."""
    drv = _drv(case["driver"])
    ops = _ops(drv)
    hs = list(_case_histories(drv, ops, case))
    if len(hs) <= 1:
        return []
    base = {k: case[k] for k in ("driver", "start", "depth", "group", "masks") if k in case}
    prefix = list(case["prefix"])
    out = []
    if case.get("only"):
        for idxs, mask in hs:
            out.append(dict(base, prefix=list(idxs), only=True, mask=mask, label=_hist_label(case["driver"], [ops[i] for i in idxs], mask)))
        return out
    seqs = sorted({idxs for idxs, _ in hs})
    if any(len(q) == len(prefix) for q in seqs):
        out.append(dict(base, prefix=prefix, only=True, label=case["label"]))
    nxt = sorted({q[len(prefix)] for q in seqs if len(q) > len(prefix)})
    for j in nxt:
        c = dict(base, prefix=prefix + [j], label=case["label"])
        if case.get("exact_depth"):
            c["exact_depth"] = True
        out.append(c)
    return out


def _hist_label(name, seq, mask):
    return "%s:%s" % (name, ",".join(("obs>" if (mask >> i) & 1 else "") + s for i, (s, v) in enumerate(seq)))


def run_case(case):
    drv = _drv(case["driver"])
    ops = _ops(drv)
    name = case["driver"]
    st = case["start"]
    stats = {"transitions": 0, "states": set()}
    viol, seen_sigs = [], set()
    n = 0
    nontrivial = []
    classes = []
    for idxs, mask in _case_histories(drv, ops, case):
        seq = [ops[i] for i in idxs]
        r = run_history(drv, st, seq, mask, stats)
        if r is None:
            continue
        n += 1
        if r["nontrivial"]:
            nontrivial.append((name, st, idxs, mask))
        if r["fail"]:
            mseq, mmask, mres = minimise(drv, st, seq, mask)
            if mres is None:
                # the same history did not fail when re-executed in this process: reported unminimised; the runner's
                # fresh-process confirmation decides whether it is reproducible (otherwise it is a harness error)
                mseq, mmask, mres = seq, mask, r
            sig = signature(name, mseq, mmask, mres["fail"])
            if sig not in seen_sigs:
                seen_sigs.add(sig)
                viol.append({
                    "sig": sig,
                    "what": "history (start %d) %s, observation mask %s: live scene differs from a scene built from scratch in the final configuration"
                            % (st, [list(x) for x in mseq], bin(mmask)),
                    "expected": {"fresh": _trim(mres.get("ref"), mres.get("bad"))} if mres["fail"][0] == "differs" else "operation supported in this state (the final configuration builds from scratch)",
                    "observed": {"live": _trim(mres.get("live"), mres.get("bad"))} if mres["fail"][0] == "differs" else list(mres["fail"]),
                    "minimal": {"start": st, "seq": [list(x) for x in mseq], "mask": mmask},
                })
    classes += [name + ":history"] * (1 if n else 0)
    if nontrivial:
        classes.append(name + ":op-after-observe-mattered")
    return {"viol": viol, "classes": classes, "n": max(n, 1), "outcome": (name, st, tuple(case["prefix"]), n, len(nontrivial), sorted(seen_sigs)),
            "states": stats["states"], "transitions": stats["transitions"], "nontrivial": nontrivial}


def _trim(obs, bad):
    if obs is None:
        return None
    return {lab: vals[:16] for lab, vals in obs if bad is None or lab in bad}


def crash_label(case):
    return case["label"]
