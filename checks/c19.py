"""C19 - element / isotope registry: the space is finite and is closed completely (engine L)."""
import itertools

from mc.refs.periodic import SYMBOL_TO_Z, NAME_TO_Z

PROPERTY = "C19"
DRIVER = "registry: every exported Element/Isotope x every identifier x every letter-case variant; all ordered pairs for ==/hash"
ALPHABET = {
    "species": "every Element/Isotope found by dir(cherab.core.atomic.elements) (and re-exported by cherab.core.atomic)",
    "identifiers": ["name", "symbol", "atomic number int", "atomic number str", "isotope name", "isotope symbol",
                    "element symbol+mass", "element name+mass", "(element obj|name|symbol|Z, number=A)"],
    "letter cases": "all 2^n case patterns for identifiers with <= 4 letters, lower/upper/title/swapcase/alternating beyond",
    "pairs": "all ordered pairs of species, plus rebuilt copies (same constructor arguments) of each species",
    "lines": "Line(species, charge in {0, Z-1}, transition in {(3,2),(2,1),('a','b')}) for every species",
}
BOUND = {"quick": "complete (finite space)", "thorough": "complete (finite space)"}
RULE = ("one case per species (all its identifier spellings), one per species for the pair row, one per species for lines; "
        "non-trivial = a lookup/pair comparison actually executed against the real registry, keyed by (kind, species, identifier)")
ASSUMPTIONS = [
    "independent periodic table (symbol->Z, name->Z for Z<=118) in mc/refs/periodic.py is correct",
    "species are those reachable as module attributes of cherab.core.atomic.elements",
]
REQUIRED_CLASSES = ["lookup:element", "lookup:isotope", "pairs", "lookup-after-construction", "lines", "unknown-key-rejected", "cross-registry-sequences", "first-call-in-fresh-interpreter"]
BUDGET_S = {"quick": 120, "thorough": 300}
CHUNK = 4


def _species():
    from cherab.core.atomic import elements as em
    from cherab.core.atomic.elements import Element, Isotope
    els, isos = [], []
    for n in sorted(dir(em)):
        o = getattr(em, n)
        if type(o) is Element:
            els.append((n, o))
        elif type(o) is Isotope:
            isos.append((n, o))
    return els, isos


def cases(tier):
    els, isos = _species()
    out = []
    for n, _ in els:
        out.append({"kind": "element", "attr": n, "label": "element"})
    for n, _ in isos:
        out.append({"kind": "isotope", "attr": n, "label": "isotope"})
    for n, _ in els + isos:
        out.append({"kind": "pairs", "attr": n, "label": "pairs"})
        out.append({"kind": "lines", "attr": n, "label": "lines"})
    out.append({"kind": "global", "label": "global"})
    # lookups are functions of their argument only: the same key through both registries, in both orders, repeated
    out.append({"kind": "cross", "order": "element-first", "label": "cross"})
    out.append({"kind": "cross", "order": "isotope-first", "label": "cross"})
    # the very first registry call of a fresh interpreter, in every identifier form (an index built lazily on one
    # code path only would make the answer depend on what was looked up before)
    for form in FIRST_FORMS:
        out.append({"kind": "first-call", "form": form, "label": "first-call"})
    return out


FIRST_FORMS = ["element:name", "element:symbol", "element:int", "element:str-int", "isotope:name", "isotope:symbol", "isotope:symbol+mass",
               "isotope:element-object+number", "isotope:element-symbol+number", "isotope:element-int+number", "isotope:element-name+str-number"]

_FIRST_SRC = r"""
import sys, json
sys.path.insert(0, sys.argv[2])
import mc   # (development aid only: honours VERIF_REPO; it imports nothing from cherab)
from cherab.core.atomic.elements import lookup_element, lookup_isotope
import cherab.core.atomic.elements as em
form = sys.argv[1]
def r(f):
    try:
        return repr(f())
    except Exception as e:
        return "EXC:" + type(e).__name__
calls = {
 "element:name": [lambda: lookup_element("carbon"), lambda: lookup_element("Neon")],
 "element:symbol": [lambda: lookup_element("he"), lambda: lookup_element("W")],
 "element:int": [lambda: lookup_element(6), lambda: lookup_element(74)],
 "element:str-int": [lambda: lookup_element("18"), lambda: lookup_element("1")],
 "isotope:name": [lambda: lookup_isotope("tritium"), lambda: lookup_isotope("Deuterium")],
 "isotope:symbol": [lambda: lookup_isotope("D"), lambda: lookup_isotope("t")],
 "isotope:symbol+mass": [lambda: lookup_isotope("he3"), lambda: lookup_isotope("C13")],
 "isotope:element-object+number": [lambda: lookup_isotope(em.hydrogen, 2), lambda: lookup_isotope(em.carbon, number=12)],
 "isotope:element-symbol+number": [lambda: lookup_isotope("he", number=3), lambda: lookup_isotope("H", 3)],
 "isotope:element-int+number": [lambda: lookup_isotope(1, number=3), lambda: lookup_isotope(6, 13)],
 "isotope:element-name+str-number": [lambda: lookup_isotope("helium", number="4"), lambda: lookup_isotope("hydrogen", "2")],
}[form]
first = [r(f) for f in calls]
again = [r(f) for f in calls]
print(json.dumps({"first": first, "again": again}))
"""
_FIRST_EXPECT = {
    "element:name": ["<Element: carbon>", "<Element: neon>"], "element:symbol": ["<Element: helium>", "<Element: tungsten>"],
    "element:int": ["<Element: carbon>", "<Element: tungsten>"], "element:str-int": ["<Element: argon>", "<Element: hydrogen>"],
    "isotope:name": ["<Isotope: tritium>", "<Isotope: deuterium>"], "isotope:symbol": ["<Isotope: deuterium>", "<Isotope: tritium>"],
    "isotope:symbol+mass": ["<Isotope: helium3>", "<Isotope: carbon13>"],
    "isotope:element-object+number": ["<Isotope: deuterium>", "<Isotope: carbon12>"],
    "isotope:element-symbol+number": ["<Isotope: helium3>", "<Isotope: tritium>"],
    "isotope:element-int+number": ["<Isotope: tritium>", "<Isotope: carbon13>"],
    "isotope:element-name+str-number": ["<Isotope: helium4>", "<Isotope: deuterium>"],
}


def case_variants(s):
    letters = [i for i, c in enumerate(s) if c.isalpha()]
    out = set()
    if len(letters) <= 4:
        for mask in itertools.product((0, 1), repeat=len(letters)):
            t = list(s.lower())
            for bit, i in zip(mask, letters):
                if bit:
                    t[i] = t[i].upper()
            out.add("".join(t))
    else:
        out |= {s.lower(), s.upper(), s.title(), s.swapcase(), s.capitalize()}
        out.add("".join(c.upper() if i % 2 else c.lower() for i, c in enumerate(s)))
        out.add("".join(c.lower() if i % 2 else c.upper() for i, c in enumerate(s)))
    return sorted(out)


def V(viol, sig, what, expected, observed):
    viol.append({"sig": "C19:" + sig, "what": what, "expected": expected, "observed": observed})


def _lookup(fn, *a, **k):
    try:
        return fn(*a, **k), None
    except Exception as e:  # noqa
        return None, type(e).__name__


def run_case(case):
    from cherab.core.atomic import elements as em
    from cherab.core.atomic.elements import Element, Isotope, lookup_element, lookup_isotope
    from cherab.core.atomic import Line
    import cherab.core.atomic as atomic_pkg
    els, isos = _species()
    viol, classes, nontrivial, n = [], [], [], 0
    kind = case["kind"]

    if kind == "element":
        o = getattr(em, case["attr"])
        idents = [("name", o.name), ("symbol", o.symbol)]
        for what, ident in idents:
            for v in case_variants(ident):
                r, exc = _lookup(lookup_element, v)
                n += 1
                nontrivial.append(("le", o.name, v))
                if r is not o:
                    V(viol, "lookup_element:by-%s:wrong-object" % what, "lookup_element(%r) does not return the element object %s" % (v, o.name), repr(o), repr(r) if exc is None else exc)
        for v in (o.atomic_number, str(o.atomic_number)):
            r, exc = _lookup(lookup_element, v)
            n += 1
            nontrivial.append(("le", o.name, repr(v)))
            if r is not o:
                V(viol, "lookup_element:by-atomic-number:wrong-object", "lookup_element(%r) does not return %s" % (v, o.name), repr(o), repr(r) if exc is None else exc)
        r, exc = _lookup(lookup_element, o)
        if r is not o:
            V(viol, "lookup_element:by-object:wrong-object", "lookup_element(obj) is not obj", repr(o), repr(r))
        # module attribute name is the element name; package re-exports the same object
        if getattr(atomic_pkg, case["attr"], None) is not o:
            V(viol, "export:package-object-differs", "cherab.core.atomic.%s is not the registry object" % case["attr"], repr(o), repr(getattr(atomic_pkg, case["attr"], None)))
        # periodic table
        zt = SYMBOL_TO_Z.get(o.symbol)
        if zt != o.atomic_number or NAME_TO_Z.get(o.name.lower()) != o.atomic_number:
            V(viol, "element:atomic-number-vs-periodic-table", "%s (%s) has Z=%d" % (o.name, o.symbol, o.atomic_number), {"by_symbol": zt, "by_name": NAME_TO_Z.get(o.name.lower())}, o.atomic_number)
        if not (o.atomic_weight > 0):
            V(viol, "element:weight-nonpositive", o.name, "> 0", o.atomic_weight)
        classes.append("lookup:element")

    elif kind == "isotope":
        o = getattr(em, case["attr"])
        e = o.element
        idents = [("name", o.name), ("symbol", o.symbol), ("element-symbol+mass", e.symbol + str(o.mass_number)),
                  ("element-name+mass", e.name + str(o.mass_number))]
        for what, ident in idents:
            for v in case_variants(ident):
                r, exc = _lookup(lookup_isotope, v)
                n += 1
                nontrivial.append(("li", o.name, v))
                if r is not o:
                    V(viol, "lookup_isotope:by-%s:wrong-object" % what, "lookup_isotope(%r) does not return the isotope object %s" % (v, o.name), repr(o), repr(r) if exc is None else exc)
        evs = [e, e.atomic_number, str(e.atomic_number)] + case_variants(e.symbol) + case_variants(e.name)
        for ev in evs:
            for num in (o.mass_number, str(o.mass_number)):
                r, exc = _lookup(lookup_isotope, ev, number=num)
                n += 1
                nontrivial.append(("li2", o.name, repr(ev), repr(num)))
                if r is not o:
                    V(viol, "lookup_isotope:by-element+number:wrong-object", "lookup_isotope(%r, number=%r) does not return %s" % (ev, num, o.name), repr(o), repr(r) if exc is None else exc)
        r, exc = _lookup(lookup_isotope, o)
        if r is not o:
            V(viol, "lookup_isotope:by-object:wrong-object", "lookup_isotope(obj) is not obj", repr(o), repr(r))
        if getattr(atomic_pkg, case["attr"], None) is not o:
            V(viol, "export:package-object-differs", "cherab.core.atomic.%s is not the registry object" % case["attr"], repr(o), repr(getattr(atomic_pkg, case["attr"], None)))
        # consistency with element and periodic table
        if type(e) is not Element or not any(e is x for _, x in els):
            V(viol, "isotope:element-not-registered", o.name, "a registered Element", repr(e))
        if o.atomic_number != e.atomic_number:
            V(viol, "isotope:atomic-number-differs-from-element", o.name, e.atomic_number, o.atomic_number)
        if SYMBOL_TO_Z.get(e.symbol) != o.atomic_number:
            V(viol, "isotope:atomic-number-vs-periodic-table", o.name, SYMBOL_TO_Z.get(e.symbol), o.atomic_number)
        if o.mass_number < o.atomic_number:
            V(viol, "isotope:mass-number-below-Z", o.name, ">= %d" % o.atomic_number, o.mass_number)
        if abs(o.atomic_weight - o.mass_number) > 0.1:
            V(viol, "isotope:weight-far-from-mass-number", "%s A=%d" % (o.name, o.mass_number), "within 0.1 u of %d" % o.mass_number, o.atomic_weight)
        classes.append("lookup:isotope")

    elif kind == "pairs":
        a = getattr(em, case["attr"])
        allsp = els + isos
        for nb, b in allsp:
            n += 1
            nontrivial.append(("pair", case["attr"], nb))
            eq, ne = (a == b), (a != b)
            if a is b:
                if not eq or ne:
                    V(viol, "eq:not-reflexive", a.name, "a == a and not a != a", [eq, ne])
            else:
                if eq or not ne:
                    V(viol, "eq:distinct-species-compare-equal", "%s vs %s" % (a.name, b.name), "a != b", {"eq": eq, "ne": ne})
                if a.name.lower() == b.name.lower():
                    V(viol, "registry:duplicate-name", "%s / %s" % (case["attr"], nb), "unique names", a.name)
                if type(a) is type(b) and a.symbol.lower() == b.symbol.lower():
                    V(viol, "registry:duplicate-symbol", "%s / %s" % (a.name, b.name), "unique symbols within elements / within isotopes", a.symbol)
                if type(a) is Isotope and type(b) is Isotope and a.element is b.element and a.mass_number == b.mass_number:
                    V(viol, "registry:duplicate-element+mass", "%s / %s" % (a.name, b.name), "unique (element, mass number)", [a.element.name, a.mass_number])
                if type(a) is Element and type(b) is Element and a.atomic_number == b.atomic_number:
                    V(viol, "registry:duplicate-atomic-number", "%s / %s" % (a.name, b.name), "unique Z", a.atomic_number)
            if eq and hash(a) != hash(b):
                V(viol, "hash:equal-but-different-hash", "%s vs %s" % (a.name, b.name), "equal hashes", [hash(a), hash(b)])
            if eq != (b == a):
                V(viol, "eq:not-symmetric", "%s vs %s" % (a.name, b.name), eq, (b == a))
            if eq == ne:
                V(viol, "eq:eq-and-ne-inconsistent", "%s vs %s" % (a.name, b.name), "eq != ne", [eq, ne])
        # an independently constructed copy is equal and hashes equally (dict-key behaviour)
        if type(a) is Element:
            cp = Element(a.name, a.symbol, a.atomic_number, a.atomic_weight)
        else:
            cp = Isotope(a.name, a.symbol, a.element, a.mass_number, a.atomic_weight)
        # constructing a species is not a registry operation: every identifier of the exported species still resolves to the exported
        # object (identity), also after a second copy with another weight (the class docstrings construct such objects)
        if type(a) is Element:
            cp2 = Element(a.name, a.symbol, a.atomic_number, a.atomic_weight + 0.25)
            forms = [("name", lambda: lookup_element(a.name)), ("symbol", lambda: lookup_element(a.symbol)), ("Z", lambda: lookup_element(a.atomic_number)),
                     ("str-Z", lambda: lookup_element(str(a.atomic_number))), ("upper-name", lambda: lookup_element(a.name.upper()))]
        else:
            cp2 = Isotope(a.name, a.symbol, a.element, a.mass_number, a.atomic_weight + 0.25)
            forms = [("name", lambda: lookup_isotope(a.name)), ("symbol", lambda: lookup_isotope(a.symbol)),
                     ("element+number", lambda: lookup_isotope(a.element, number=a.mass_number)),
                     ("element-symbol+number", lambda: lookup_isotope(a.element.symbol, number=a.mass_number)),
                     ("element-symbol+mass", lambda: lookup_isotope("%s%d" % (a.element.symbol, a.mass_number)))]
        for fname, fn in forms:
            n += 1
            try:
                got = fn()
            except Exception as e:  # noqa
                got = "EXC:" + type(e).__name__
            if got is not a:
                V(viol, "registry:lookup-after-user-construction:not-the-exported-object", "%s looked up by %s after Element/Isotope copies of it were constructed" % (a.name, fname),
                  "the exported object (id %d)" % id(a), "%r (is first copy: %s, is second copy: %s)" % (got, got is cp, got is cp2))
                break
        classes.append("lookup-after-construction")
        if not (cp == a) or (cp != a) or hash(cp) != hash(a):
            V(viol, "hash:copy-not-equal-or-hash-differs", a.name, "copy == original with equal hash", [cp == a, cp != a, hash(cp) == hash(a)])
        d = {b: nb for nb, b in allsp}
        if len(d) != len(allsp) or d.get(a) != case["attr"] or d.get(cp) != case["attr"]:
            V(viol, "dict:species-key-roundtrip", a.name, case["attr"], [len(d), len(allsp), d.get(a), d.get(cp)])
        if a in (None, 1, a.name, a.symbol) or (a == a.name) or (a == None):  # noqa: E711
            V(viol, "eq:equal-to-non-species", a.name, False, True)
        classes.append("pairs")

    elif kind == "lines":
        a = getattr(em, case["attr"])
        allsp = els + isos
        trs = [(3, 2), (2, 1), ("a", "b")]
        charges = sorted({0, a.atomic_number - 1})
        mine = [(c, t, Line(a, c, t)) for c in charges for t in trs]
        for c, t, ln in mine:
            for nb, b in allsp:
                for c2 in sorted({0, b.atomic_number - 1}):
                    for t2 in trs:
                        n += 1
                        other = Line(b, c2, t2)
                        same = (a is b and c == c2 and t == t2)
                        eq, ne = (ln == other), (ln != other)
                        if same and (not eq or ne or hash(ln) != hash(other)):
                            V(viol, "line:same-spec-not-equal", repr(ln), "equal with equal hash", [eq, ne, hash(ln) == hash(other)])
                        if not same and (eq or not ne):
                            V(viol, "line:distinct-lines-compare-equal", "%r vs %r" % (ln, other), "unequal", [eq, ne])
                        if eq and hash(ln) != hash(other):
                            V(viol, "line:equal-but-different-hash", "%r vs %r" % (ln, other), "equal hash", "differs")
            nontrivial.append(("line", case["attr"], c, t))
        d = {ln: (c, t) for c, t, ln in mine}
        for c, t, ln in mine:
            if d.get(Line(a, c, t)) != (c, t):
                V(viol, "dict:line-key-roundtrip", repr(ln), (c, t), d.get(Line(a, c, t)))
        # charge validation
        for bad in (a.atomic_number, -1):
            try:
                Line(a, bad, (3, 2))
                V(viol, "line:invalid-charge-accepted", "%s charge %d" % (a.name, bad), "ValueError", "accepted")
            except ValueError:
                pass
        classes.append("lines")

    elif kind == "first-call":
        import json as _json
        import subprocess
        import sys as _sys
        form = case["form"]
        import os as _os
        verif = _os.path.dirname(_os.path.dirname(_os.path.abspath(__file__)))
        p = subprocess.run([_sys.executable, "-c", _FIRST_SRC, form, verif], capture_output=True, text=True, timeout=300)
        n += 2
        nontrivial.append(("first-call", form))
        classes.append("first-call-in-fresh-interpreter")
        if p.returncode != 0:
            V(viol, "first-call:%s:interpreter-failed" % form.split(":")[0], "fresh interpreter, first registry call in form %s" % form, "two look-ups", p.stderr[-300:])
        else:
            got = _json.loads(p.stdout.strip().splitlines()[-1])
            want = _FIRST_EXPECT[form]
            if got["first"] != want:
                V(viol, "first-call:%s:wrong-result-as-first-call-of-the-process" % form, "the first registry calls of a fresh interpreter (%s)" % form, want, got["first"])
            elif got["again"] != want:
                V(viol, "first-call:%s:wrong-result-when-repeated" % form, "repeating the first calls (%s)" % form, want, got["again"])

    elif kind == "cross":
        # every identifier spelling of every species goes through BOTH lookup functions (the valid one must return
        # the species, the other must return its own species of that key or raise ValueError), three rounds in one
        # process, so that a result that depends on earlier lookups (a shared memo, an index mutated by a lookup)
        # is seen whatever the order
        e_expect, i_expect = {}, {}
        for _, o in els:
            for ident in (o.name, o.symbol, str(o.atomic_number)):
                for v in case_variants(ident):
                    e_expect[v] = o
        for _, o in isos:
            for ident in (o.name, o.symbol, o.element.symbol + str(o.mass_number), o.element.name + str(o.mass_number)):
                for v in case_variants(ident):
                    i_expect[v] = o
        keys = sorted(set(e_expect) | set(i_expect))
        fns = [("lookup_element", lookup_element, e_expect), ("lookup_isotope", lookup_isotope, i_expect)]
        if case["order"] == "isotope-first":
            fns.reverse()
        for rnd in range(3):
            for k in keys:
                for fname, fn, expect in fns:
                    r, exc = _lookup(fn, k)
                    n += 1
                    want = expect.get(k)
                    if want is None:
                        if exc != "ValueError":
                            V(viol, "%s:key-of-the-other-registry:not-rejected" % fname, "%s(%r) after other lookups (round %d, %s)" % (fname, k, rnd, case["order"]), "ValueError", repr(r) if exc is None else exc)
                    elif r is not want:
                        V(viol, "%s:result-depends-on-earlier-lookups" % fname, "%s(%r) in round %d of the %s sequence" % (fname, k, rnd, case["order"]), repr(want), repr(r) if exc is None else exc)
            nontrivial.append(("cross", case["order"], rnd))
        classes.append("cross-registry-sequences")

    else:  # global
        # unknown keys are rejected, never resolved to some species
        unknown = ["", "xx", "unobtainium", "0", "-1", "h0", "hydrogen0", "q7", " h", "h ", "119", 0, 119, None, 1.5]
        for u in unknown:
            r, exc = _lookup(lookup_element, u)
            n += 1
            if exc != "ValueError":
                V(viol, "lookup_element:unknown-key-not-rejected", repr(u), "ValueError", repr(r) if exc is None else exc)
            r, exc = _lookup(lookup_isotope, u)
            if exc != "ValueError":
                V(viol, "lookup_isotope:unknown-key-not-rejected", repr(u), "ValueError", repr(r) if exc is None else exc)
        for _, e in els:
            have = {i.mass_number for _, i in isos if i.element is e}
            for num in range(1, 3 * e.atomic_number + 8):
                if num not in have:
                    r, exc = _lookup(lookup_isotope, e, number=num)
                    n += 1
                    if exc != "ValueError":
                        V(viol, "lookup_isotope:absent-mass-number-not-rejected", "%s number=%d" % (e.name, num), "ValueError", repr(r) if exc is None else exc)
        # index internals are not consulted; but every exported name in cherab.core.atomic that is a species must be in the module
        for nme in dir(atomic_pkg):
            o = getattr(atomic_pkg, nme)
            if isinstance(o, Element) and getattr(em, nme, None) is not o:
                V(viol, "export:species-not-in-registry-module", nme, "same object in elements module", repr(o))
        classes.append("unknown-key-rejected")
        nontrivial.append(("global",))

    return {"viol": viol, "classes": classes, "outcome": (kind, case.get("attr"), case.get("order"), case.get("form"), n, len(viol)), "n": max(n, 1),
            "states": [(kind, case.get("attr"), case.get("order"), case.get("form"))], "transitions": max(n, 1), "nontrivial": nontrivial}
