"""C01 beam driver: Plasma(s) + Beam + SingleRayAttenuator + {BeamCXLine, BeamEmissionLine}."""
import copy

NAME = "beam"

# slot -> values (first value = canonical default).  All values are JSON tokens.
SLOTS = {
    "energy": [50000.0, 80000.0],
    "power": [1e6, 2e6],
    "temperature": [10.0, 50.0],
    "element": ["D", "H"],
    "divx": [0.0, 2.0],
    "divy": [0.0, 3.0],
    "length": [3.0, 5.0],
    "sigma": [0.1, 0.2],
    "ad": ["A", "B", "C"],
    "plasma": ["P1", "P2"],
    "att": [0, 1],
    "att_step": [0.05, 0.02],
    "clamp_sigma": [5.0, 2.0],
    "models": [["cx"], ["cx", "bes"], [], ["bes"]],
    "models_add": ["bes"],
    "models_clear": [None],
    "cxline": ["c87", "c76"],
    "integ": [0.05, 0.03],
    "btr": [0.0, 1.5],
    "bparent": ["world", "mount"],
    "mtr": [0.0, 0.7],
    "p1tr": [0.0, -1.0],
    "p1comp": ["base", "alt"],
    "p1edist": ["base", "hot"],
    "p1bfield": [1.0, 2.5],
}

DEFAULT = dict(energy=50000.0, power=1e6, temperature=10.0, element="D", divx=0.0, divy=0.0, length=3.0, sigma=0.1,
               ad="A", plasma="P1", att=0, att_params=[[0.05, 5.0], [0.05, 5.0]], models=["cx"], cxline="c87", integ=0.05,
               btr=0.0, bparent="world", mtr=0.0, p1tr=0.0, p1comp="base", p1edist="base", p1bfield=1.0)


def _start(**kw):
    c = copy.deepcopy(DEFAULT)
    c.update(kw)
    return c


STARTS = [
    _start(),
    _start(divx=2.0, divy=3.0, models=["cx", "bes"], bparent="mount", mtr=0.7, att_params=[[0.05, 2.0], [0.02, 5.0]], ad="B"),
    _start(models=[], att=1, plasma="P2", element="H", p1comp="alt"),
    _start(models=["bes"], btr=1.5, p1tr=-1.0, length=5.0, sigma=0.2, p1edist="hot", p1bfield=2.5),
]

# ops that share a notifier/dependency chain (restricted deeper exploration)
GROUPS = {
    "placement": ["btr", "bparent", "mtr", "p1tr", "plasma", "att", "att_step"],
    "geometry": ["divx", "divy", "length", "sigma", "clamp_sigma", "models", "models_add", "models_clear", "integ", "att"],
    "rates": ["ad", "element", "energy", "cxline", "models", "p1comp", "p1edist", "p1bfield", "plasma", "temperature", "power"],
}

_G = {}


def _globals():
    if _G:
        return _G
    from raysect.core import Vector3D, Point3D
    from raysect.core.math.function.float import Arg3D, Exp3D
    from cherab.core.atomic import deuterium, hydrogen, carbon, Line
    from mc.refs.mockatomic import MockAD
    _G["ADS"] = {"A": MockAD(1.0, metastables=1), "B": MockAD(2.5, metastables=2), "C": MockAD(1.7, raise_for=("beam_cx_pec", "beam_emission_pec"))}
    _G["EL"] = {"D": deuterium, "H": hydrogen}
    x = Arg3D("x")
    _G["dens"] = 1e19 * Exp3D(-x * x)
    _G["LINES"] = {"c87": Line(carbon, 5, (8, 7)), "c76": Line(carbon, 5, (7, 6))}
    _G["PTS"] = [(0, 0, 0.5), (0.05, 0.02, 1.5), (0, 0, 2.9), (0.3, 0, 1.0), (0, 0, 4.0), (0, 0, -0.1), (0.15, 0.1, 4.5), (0.5, 0.3, 2.0)]
    _G["RAYS"] = [(Point3D(-3, 0.02, 0.0), Vector3D(1, 0, 0)), (Point3D(-3, 0.0, 2.5), Vector3D(1, 0, 0)),
                  (Point3D(0.3, -3, 0.5), Vector3D(0, 1, 0)), (Point3D(1.5, 0.35, -3), Vector3D(0, 0, 1)),
                  (Point3D(-3, 0.45, 1.0), Vector3D(1, 0, 0))]
    return _G


class Scene:
    pass


def _composition(kind):
    from raysect.core import Vector3D
    from cherab.core import Species, Maxwellian
    from cherab.core.atomic import deuterium, carbon, helium
    g = _globals()
    d = g["dens"]
    amu = 1.66053906660e-27
    if kind == "base":
        return [Species(deuterium, 1, Maxwellian(d * 0.9, 1e3, Vector3D(0, 0, 0), 2 * amu)),
                Species(carbon, 6, Maxwellian(d * (0.1 / 6), 800.0, Vector3D(2e4, 0, 1e4), 12 * amu))]
    return [Species(deuterium, 1, Maxwellian(d * 0.7, 1.5e3, Vector3D(0, 1e4, 0), 2 * amu)),
            Species(carbon, 6, Maxwellian(d * (0.2 / 6), 600.0, Vector3D(0, 0, 0), 12 * amu)),
            Species(helium, 2, Maxwellian(d * 0.05, 900.0, Vector3D(0, 0, 0), 4 * amu))]


def _edist(kind):
    from raysect.core import Vector3D
    from cherab.core import Maxwellian
    g = _globals()
    if kind == "base":
        return Maxwellian(g["dens"], 1e3, Vector3D(0, 0, 0), 9.1093837015e-31)
    return Maxwellian(g["dens"] * 1.3, 2.5e3, Vector3D(0, 0, 0), 9.1093837015e-31)


def _mkplasma(parent, shift, comp, edist, bf):
    from raysect.core import Vector3D, translate
    from cherab.core import Plasma
    p = Plasma(parent=parent, transform=translate(shift, 0, 0))
    p.electron_distribution = _edist(edist)
    p.composition = _composition(comp)
    p.b_field = Vector3D(0, 0.3 * bf, bf)
    return p


def _mkmodels(names, cxline):
    from cherab.core.atomic import deuterium, Line
    from cherab.core.model import BeamCXLine, BeamEmissionLine
    g = _globals()
    out = []
    for n in names:
        if n == "cx":
            out.append(BeamCXLine(g["LINES"][cxline]))
        elif n == "bes":
            out.append(BeamEmissionLine(Line(deuterium, 0, (3, 2))))
    return out


def build(cfg):
    from raysect.core import translate
    from raysect.core.scenegraph import Node
    from raysect.optical import World
    from raysect.optical.material.emitter.inhomogeneous import NumericalIntegrator
    from cherab.core import Beam
    from cherab.core.model import SingleRayAttenuator
    g = _globals()
    s = Scene()
    s.world = World()
    s.mount = Node(parent=s.world, transform=translate(cfg["mtr"], 0, 0))
    s.P = {"P1": _mkplasma(s.world, cfg["p1tr"], cfg["p1comp"], cfg["p1edist"], cfg["p1bfield"]),
           "P2": _mkplasma(s.world, 0.5, "alt", "hot", 1.8)}
    b = Beam(parent=s.world if cfg["bparent"] == "world" else s.mount, transform=translate(cfg["btr"], 0, -1.5))
    b.plasma = s.P[cfg["plasma"]]
    b.atomic_data = g["ADS"][cfg["ad"]]
    b.energy = cfg["energy"]
    b.power = cfg["power"]
    b.temperature = cfg["temperature"]
    b.element = g["EL"][cfg["element"]]
    b.divergence_x = cfg["divx"]
    b.divergence_y = cfg["divy"]
    b.length = cfg["length"]
    b.sigma = cfg["sigma"]
    s.atts = [SingleRayAttenuator(step=st, clamp_to_zero=True, clamp_sigma=cl) for st, cl in cfg["att_params"]]
    b.attenuator = s.atts[cfg["att"]]
    b.integrator = NumericalIntegrator(step=cfg["integ"])
    s.models = _mkmodels(cfg["models"], cfg["cxline"])
    b.models = s.models
    s.beam = b
    return s


def enabled(cfg, slot, v):
    if slot == "models_add":
        return v not in cfg["models"]
    if slot == "cxline":
        return "cx" in cfg["models"]
    return True


def apply(s, cfg, slot, v):
    """Apply the public mutator on the live scene, then record it in the model configuration."""
    from raysect.core import translate
    from raysect.optical.material.emitter.inhomogeneous import NumericalIntegrator
    g = _globals()
    b = s.beam
    if slot in ("energy", "power", "temperature", "length", "sigma"):
        setattr(b, slot, v)
        cfg[slot] = v
    elif slot == "element":
        b.element = g["EL"][v]
        cfg[slot] = v
    elif slot == "divx":
        b.divergence_x = v
        cfg[slot] = v
    elif slot == "divy":
        b.divergence_y = v
        cfg[slot] = v
    elif slot == "ad":
        b.atomic_data = g["ADS"][v]
        cfg[slot] = v
    elif slot == "plasma":
        b.plasma = s.P[v]
        cfg[slot] = v
    elif slot == "att":
        b.attenuator = s.atts[v]
        cfg[slot] = v
    elif slot == "att_step":
        b.attenuator.step = v
        cfg["att_params"][cfg["att"]][0] = v
    elif slot == "clamp_sigma":
        b.attenuator.clamp_sigma = v
        cfg["att_params"][cfg["att"]][1] = v
    elif slot == "models":
        s.models = _mkmodels(v, cfg["cxline"])
        b.models = s.models
        cfg[slot] = list(v)
    elif slot == "models_add":
        m = _mkmodels([v], cfg["cxline"])[0]
        b.models.add(m)
        s.models = s.models + [m]
        cfg["models"] = cfg["models"] + [v]
    elif slot == "models_clear":
        b.models.clear()
        s.models = []
        cfg["models"] = []
    elif slot == "cxline":
        for m, n in zip(s.models, cfg["models"]):
            if n == "cx":
                m.line = g["LINES"][v]
        cfg[slot] = v
    elif slot == "integ":
        b.integrator = NumericalIntegrator(step=v)
        cfg[slot] = v
    elif slot == "btr":
        b.transform = translate(v, 0, -1.5)
        cfg[slot] = v
    elif slot == "bparent":
        b.parent = s.world if v == "world" else s.mount
        cfg[slot] = v
    elif slot == "mtr":
        s.mount.transform = translate(v, 0, 0)
        cfg[slot] = v
    elif slot == "p1tr":
        s.P["P1"].transform = translate(v, 0, 0)
        cfg[slot] = v
    elif slot == "p1comp":
        s.P["P1"].composition = _composition(v)
        cfg[slot] = v
    elif slot == "p1edist":
        s.P["P1"].electron_distribution = _edist(v)
        cfg[slot] = v
    elif slot == "p1bfield":
        from raysect.core import Vector3D
        s.P["P1"].b_field = Vector3D(0, 0.3 * v, v)
        cfg[slot] = v
    else:
        raise KeyError(slot)


def observe(s):
    from raysect.optical import Ray
    g = _globals()
    dens = []
    for p in g["PTS"]:
        try:
            dens.append(s.beam.density(*p))
        except Exception as e:  # noqa
            dens.append("EXC:" + type(e).__name__)
    dirs = []
    for p in g["PTS"][:3]:
        try:
            d = s.beam.direction(*p)
            dirs += [d.x, d.y, d.z]
        except Exception as e:  # noqa
            dirs.append("EXC:" + type(e).__name__)
    out = [("density", dens), ("direction", dirs)]
    for i, (o, d) in enumerate(g["RAYS"]):
        try:
            sp = Ray(origin=o, direction=d, min_wavelength=420, max_wavelength=600, bins=12).trace(s.world)
            out.append(("ray%d" % i, [float(x) for x in sp.samples]))
        except Exception as e:  # noqa
            out.append(("ray%d" % i, ["EXC:" + type(e).__name__]))
    return out
