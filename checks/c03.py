"""C03 - passive emission models radiate exactly their documented totals (engine L).

Every lattice point is a depth-1 history: build a fresh Plasma (non-uniform profiles), construct the model,
call model.emission(point, direction, Spectrum) (plus a few Ray.trace runs through a slab for the material
path) and compare with the documented expression evaluated by mc/refs/passive_ref.py.
"""
import itertools
import math

PROPERTY = "C03"
DRIVER = ("model.emission(point, direction, Spectrum) on ExcitationLine / RecombinationLine / ThermalCXLine / TotalRadiatedPower / "
          "Bremsstrahlung attached to a fresh Plasma with profiles v0*(1+x/2+y/4+z/8), mock AtomicData whose coefficients are "
          "hash-keyed power laws per (family, element, charge, donor, transition); slab Ray.trace per model kind; RadiationFunction slab")

# ------------------------------------------------------------------------------------------------------------
# alphabets
# ------------------------------------------------------------------------------------------------------------
UNIVERSE = {"quick": ["H0", "D0", "D1", "T0", "C5", "C6", "He1", "He2", "Ne10"]}
UNIVERSE["thorough"] = UNIVERSE["quick"] + ["He0", "Ne9"]
MAXSIZE = {"quick": 4, "thorough": 5}
# (element, charge of the emitting ion, transition)
LINES = {"quick": [("deuterium", 0, (3, 2)), ("carbon", 5, (8, 7)), ("helium", 1, ("4f", "3d"))]}
LINES["thorough"] = LINES["quick"] + [("hydrogen", 0, (2, 1)), ("neon", 9, (11, 10)), ("helium", 0, ("1s3d 1D", "1s2p 1P"))]
TRP_TARGETS = {"quick": [("deuterium", 0), ("carbon", 5), ("helium", 1)]}
TRP_TARGETS["thorough"] = TRP_TARGETS["quick"] + [("hydrogen", 0), ("neon", 9), ("helium", 0)]

VALUES = {
    "q": {"ne": [-1.0, 0.0, 1e18, 1e20], "te": [-1.0, 0.0, 5.0, 500.0], "n": [-1.0, 0.0, 1e16, 3e17], "T": [0.0, 3.0, 300.0]},
    "t": {"ne": [-1.0, 0.0, 1e18, 1e19, 1e20], "te": [-1.0, 0.0, 5.0, 50.0, 500.0], "n": [-2e17, -1.0, 0.0, 1e16, 3e17], "T": [-2.0, 0.0, 3.0, 300.0]},
}
POSITIVE_NETE = [(1e18, 5.0), (1e20, 500.0)]
LINESHAPES = ["rec", "gauss", "mult"]
BINS = {"quick": [1, 5], "thorough": [1, 2, 5, 16]}
TRP_WINDOWS = [(400.0, 700.0), (100.0, 100.5), (0.1, 1000.0)]
BREMS_WINDOWS = [(400.0, 700.0), (50.0, 60.0), (1000.0, 1001.0)]
GAUNTS = ["mock", "default", "const"]          # provider's mock; provider's inherited Maxwellian table; explicit gaunt_factor=const 1
INTEGRATORS = ["default", "fixed4"]            # GaussianQuadrature() / GaussianQuadrature(min_order=4, max_order=4)
POINTS = [(0.0, 0.0, 0.0), (0.5, -0.25, 1.0)]  # profile factors 1 and 1.3125
DIRECTION = (0.6, 0.0, 0.8)
LIN_A, LIN_B = 1e16, 3e17

ALPHABET = {
    "species universe": UNIVERSE, "composition": "every subset with size <= %s (quick/thorough), two orderings" % MAXSIZE,
    "lines": {k: [list(map(str, x)) for x in v] for k, v in LINES.items()}, "total-power targets": TRP_TARGETS,
    "value lattices (q = quick, t = thorough additions)": VALUES, "line shapes": LINESHAPES, "bins": BINS,
    "total-power windows": TRP_WINDOWS, "bremsstrahlung windows": BREMS_WINDOWS, "gaunt": GAUNTS, "integrators": INTEGRATORS,
    "points": POINTS,
}
BOUND = {
    "quick": "routing: all compositions of size<=4 over 9 species x 3 lines x 5 models; value lattices full (ne,te,n,T) products on "
             "representative compositions; CX with <=2 donors; total power with <=2 hydrogen isotopes; brems with <=3 ions",
    "thorough": "routing: all compositions of size<=5 over 11 species x 6 lines; extended value lattices; CX with <=3 donors; "
                "total power with 3 hydrogen isotopes; brems with <=4 ions; bins up to 16",
}
RULE = ("one case per (model, line/target, composition) for routing and per (model, target, composition, line shape/gaunt/integrator, bins, "
        "window) for value lattices, each case enumerating the full product of its value axes at two points; a lattice point is "
        "non-trivial when the documented emission is non-zero or exactly one non-positive input zeroes it (keyed by the complete point)")
ASSUMPTIONS = [
    "rate coefficients are total positive functions c0*f(ne)^a*f(te)^b*f(td)^c, f(x)=(|x|/x0+1e-3); the claim is about this family only",
    "a term of a sum (CX donor, brems ion, total-power term) is zero when a density/temperature it depends on is non-positive; "
    "for TotalRadiatedPower n_hyd is the documented *total* hydrogen-isotope density (sum, then guard)",
    "line-shape internals are C02's; here only the fraction of the normalised profile inside a window that contains +-10 sigma is used",
    "scipy.constants (CODATA 2022) vs cherab constants (CODATA 2018) differ by < 5e-9 in the bremsstrahlung constant",
    "reference bin integrals: composite Gauss-Legendre (6 panels x 10 nodes), cross-checked against scipy quad in the selftest case",
    "slab traces use profiles that do not vary along the ray so that the volume integrator is exact",
]
REQUIRED_CLASSES = (
    ["seq", "seq:exc", "seq:rec", "seq:cx", "seq:trp", "seq:brems", "seq:B-zero", "seq:B-neg", "seq:B-different"] +
    ["%s:%s" % (m, g) for m in ("ExcitationLine", "RecombinationLine") for g in ("all-positive", "ne<=0", "te<=0", "n-target<=0", "T-target<=0", "missing-species")]
    + ["ThermalCXLine:%s" % g for g in ("all-positive", "ne<=0", "te<=0", "n-target<=0", "T-target<=0", "donor-n<0", "donor-T<=0", "donor-n=0", "missing-species",
                                        "comp:bare-other", "comp:donors=0", "comp:no-bare-other")]
    + ["TotalRadiatedPower:%s" % g for g in ("all-positive", "ne<=0", "te<=0", "ni<=0", "ni_upper<=0", "nhyd<=0", "missing-species", "comp:hyd=0", "comp:hyd>0")]
    + ["Bremsstrahlung:%s" % g for g in ("all-positive", "ne<=0", "te<=0", "ion-n<=0", "comp:ions=0", "comp:with-neutrals", "gaunt:mock", "gaunt:default", "gaunt:const",
                                         "integrator:default", "integrator:default-implicit", "integrator:fixed4")]
    + ["linearity:%s" % m for m in ("ExcitationLine", "RecombinationLine", "ThermalCXLine", "TotalRadiatedPower", "Bremsstrahlung")]
    + ["slab:%s" % m for m in ("ExcitationLine", "RecombinationLine", "ThermalCXLine", "TotalRadiatedPower", "Bremsstrahlung", "RadiationFunction")]
    + ["lineshape:rec", "lineshape:gauss", "lineshape:mult", "selftest", "gaunt-table"]
)
BUDGET_S = {"quick": 300, "thorough": 1800}
STATES_MEANING = ("lattice points (model, line/target, composition, values, line shape / gaunt / integrator, window, bins, point) evaluated on the "
                  "real code; every evaluation is a distinct point")
CHUNK = 8

MODEL_NAME = {"exc": "ExcitationLine", "rec": "RecombinationLine", "cx": "ThermalCXLine", "trp": "TotalRadiatedPower", "brems": "Bremsstrahlung"}
RTOL = 1e-9
# GaussianQuadrature stops when two successive orders agree to relative_tolerance = 1e-5 (documented default); for the smooth
# integrand exp(-a/x)/x^2 * g the Gauss-Legendre error decreases geometrically with the order, so the true error is below the
# last difference.  Hence 1e-5 for the default integrator.
RTOL_BREMS_DEFAULT = 1e-5
# With min_order == max_order the integrator is the plain k-point Gauss-Legendre rule, reproduced exactly by the reference; what
# is left is the CODATA 2018/2022 difference of the constant (< 5e-9, see ASSUMPTIONS).
RTOL_BREMS_FIXED = 1e-8
# Slab traces: raysect moves ray/box intersection points by its geometric epsilon (1e-9 m; observed: the traced path through a box of
# length L is L - 1e-9 m), which is raysect's business (trusted base).  For L >= 0.25 m that is <= 4e-9 relative; 1e-7 leaves room
# for the volume integrator's accumulation of ~1e3 equal steps and still separates any wrong factor.
RTOL_SLAB = 1e-7


# ------------------------------------------------------------------------------------------------------------
# enumeration
# ------------------------------------------------------------------------------------------------------------
def _fixed_values(tier_universe):
    return {lab: (2e16 * 1.5 ** i, 2.0 + 7.0 * i) for i, lab in enumerate(tier_universe)}


FIXED = _fixed_values(UNIVERSE["thorough"])


def _subsets(universe, maxsize):
    for k in range(0, maxsize + 1):
        for c in itertools.combinations(universe, k):
            yield list(c)


def _label(el, q):
    from mc.refs.passive_ref import ELEMENT_OF_PREFIX
    for p, v in ELEMENT_OF_PREFIX.items():
        if v[0] == el:
            return "%s%d" % (p, q)
    raise KeyError(el)


def _needed(kind, target):
    el, q = target[0], target[1]
    if kind == "exc":
        return [_label(el, q)]
    if kind in ("rec", "cx"):
        return [_label(el, q + 1)]
    if kind == "trp":
        return [_label(el, q), _label(el, q + 1)]
    return []


def cases(tier):
    from mc.refs.passive_ref import is_bare, parse_label
    out = [{"kind": "selftest", "label": "selftest"}, {"kind": "gaunt-table", "label": "gaunt-table"}]
    uni, lines, tgts, bins = UNIVERSE[tier], LINES[tier], TRP_TARGETS[tier], BINS[tier]
    alpha = "q" if tier == "quick" else "t"
    # --- routing: every composition -----------------------------------------------------------------------
    for ci, comp in enumerate(_subsets(uni, MAXSIZE[tier])):
        for li, line in enumerate(lines):
            for kind in ("exc", "rec", "cx"):
                out.append({"kind": "route", "model": kind, "target": list(line), "comp": comp, "rev": (ci + li) % 2, "label": "route:" + kind})
        for ti, tg in enumerate(tgts):
            out.append({"kind": "route", "model": "trp", "target": list(tg), "comp": comp, "rev": (ci + ti) % 2, "label": "route:trp"})
        for gi, g in enumerate(GAUNTS):
            out.append({"kind": "route", "model": "brems", "target": None, "comp": comp, "rev": (ci + gi) % 2, "gaunt": g,
                        "integ": INTEGRATORS[(ci + gi) % 2], "label": "route:brems"})
    # --- value lattices: excitation / recombination -----------------------------------------------------------
    for line in lines:
        for kind in ("exc", "rec"):
            need = _needed(kind, line)
            if need[0] not in uni:
                continue
            same = [l for l in uni if l not in need and l.rstrip("0123456789") == need[0].rstrip("0123456789")]
            rest = [l for l in uni if l not in need and l not in same]
            rich = (same + rest)[:2] + need + (same + rest)[2:3]
            for comp in (need, rich):
                for ls in LINESHAPES:
                    for b in bins:
                        for others in ("pos", "neg"):
                            if comp is need and others == "neg":
                                continue
                            out.append({"kind": "lat-line", "model": kind, "target": list(line), "comp": comp, "ls": ls, "bins": b, "others": others,
                                        "alpha": alpha, "label": "lat:" + kind})
    # --- value lattices: thermal CX -------------------------------------------------------------------------------
    cx_comps = {
        ("deuterium", 0, (3, 2)): [(["D1"], 0), (["D0", "D1"], 1), (["D1", "C5", "Ne10"], 1), (["H0", "D1", "He1"], 2), (["T0", "C6", "D1", "He1"], 2),
                                   (["D0", "H0", "D1", "C5"], 3)],
        ("carbon", 5, (8, 7)): [(["C6", "D1"], 0), (["C6", "D0"], 1), (["He2", "C5", "C6"], 1), (["D0", "C6", "T0"], 2), (["H0", "C6", "D1", "C5"], 2),
                                (["D0", "He1", "C6", "T0"], 3)],
        ("helium", 1, ("4f", "3d")): [(["He2", "He1"], 1), (["D0", "He2", "H0"], 2)],
        ("hydrogen", 0, (2, 1)): [],   # no H1 in the universe: routing cases only (all raise)
        ("neon", 9, (11, 10)): [(["Ne10", "Ne9"], 1), (["D0", "Ne10", "C6", "Ne9"], 2)],
        ("helium", 0, ("1s3d 1D", "1s2p 1P")): [(["He1", "He0"], 1), (["D0", "He1", "He2", "He0"], 2)],
    }
    kmax = 2 if tier == "quick" else 3
    for line in lines:
        rec_label = _needed("cx", line)[0]
        for comp, k in cx_comps[tuple(line)]:
            assert k == len([l for l in comp if l != rec_label and not is_bare(l)]), (line, comp, k)
            if k > kmax or any(l not in uni for l in comp):
                continue
            if k <= 1:
                combos = [(ls, b, alpha) for ls in LINESHAPES for b in bins]
            elif k == 2:
                combos = [("rec", 1, "q")] if tier == "quick" else [(ls, b, "q") for ls in LINESHAPES for b in BINS["quick"]]
            else:
                combos = [("rec", 1, "q")]
            for ls, b, al in combos:
                for j in range(len(VALUES[al]["ne"]) * len(VALUES[al]["te"])):
                    out.append({"kind": "lat-cx", "model": "cx", "target": list(line), "comp": comp, "ls": ls, "bins": b, "inete": j, "alpha": al,
                                "label": "lat:cx"})
    # --- value lattices: total radiated power ---------------------------------------------------------------------
    trp_comps = {
        ("deuterium", 0): [["D0", "D1"], ["D1", "H0", "D0"], ["T0", "D0", "C6", "D1"], ["H0", "D1", "T0", "D0"]],
        ("carbon", 5): [["C5", "C6"], ["C6", "D1", "C5"], ["D0", "C5", "C6"], ["C6", "H0", "C5", "T0"], ["D0", "H0", "C5", "C6", "T0"]],
        ("helium", 1): [["He2", "He1"], ["He1", "D0", "He2", "D1"]],
        ("hydrogen", 0): [],
        ("neon", 9): [["Ne9", "Ne10"], ["D0", "Ne10", "Ne9"]],
        ("helium", 0): [["He0", "He1"], ["T0", "He1", "He2", "He0"]],
    }
    hmax = 2 if tier == "quick" else 3
    for tg in tgts:
        for comp in trp_comps[tuple(tg)]:
            nh = sum(1 for l in comp if l in ("H0", "D0", "T0"))
            if nh > hmax or len(comp) > MAXSIZE[tier] or any(l not in uni for l in comp):
                continue
            for wi in range(len(TRP_WINDOWS)):
                for b in bins:
                    out.append({"kind": "lat-trp", "model": "trp", "target": list(tg), "comp": comp, "win": wi, "bins": b,
                                "alpha": alpha if nh <= 2 else "q", "label": "lat:trp"})
    # --- value lattices: bremsstrahlung ---------------------------------------------------------------------------
    brems_comps = [[], ["D0"], ["D1"], ["D0", "D1"], ["C6", "D1"], ["H0", "D1", "C5", "Ne10"], ["He1", "He2", "C6"]]
    if tier == "thorough":
        brems_comps += [["D1", "He2", "C6", "Ne10"], ["Ne9", "T0", "He1", "D1", "Ne10"]]
    for comp in brems_comps:
        for g in GAUNTS:
            for integ in INTEGRATORS:
                for wi in range(len(BREMS_WINDOWS)):
                    for b in bins:
                        nions = sum(1 for l in comp if parse_label(l)[1] > 0)
                        out.append({"kind": "lat-brems", "model": "brems", "comp": comp, "gaunt": g, "integ": integ, "win": wi, "bins": b,
                                    "alpha": alpha if nions <= 3 else "q", "label": "lat:brems"})
    # --- material path -----------------------------------------------------------------------------------------
    for m in ("exc", "rec", "cx", "trp", "brems", "radfn"):
        for variant in range(4 if tier == "quick" else 8):
            out.append({"kind": "slab", "model": m, "variant": variant, "label": "slab:" + m})
    out += _seq_cases(tier)
    return out


SEQ_MODELS = ["exc", "rec", "cx", "trp", "brems"]
# per-species densities in the two half-spaces (x < 0: region A, x >= 0: region B); every variant keeps ne, te > 0
SEQ_VARIANTS = {
    "B-zero:D0": {"D0": 0.0}, "B-zero:D1": {"D1": 0.0}, "B-zero:C5": {"C5": 0.0}, "B-zero:C6": {"C6": 0.0}, "B-neg:C6": {"C6": -2e16},
    "B-zero:all-ions": {"D1": 0.0, "C5": 0.0, "C6": 0.0, "He2": 0.0}, "B-different": {"D0": 4e16, "D1": 5e17, "C5": 2e16, "C6": 7e16, "He2": 1e16},
}
# "A" / "B": evaluate at the point of that region; "~": with another spectral window (300-900 nm, 5 bins instead of 420-700 nm, 6 bins);
# "provider-exchange": model.atomic_data = a provider with another free-free Gaunt factor (same rates)
SEQ_STEPS = ["A", "B", "A", "B", "A~", "A", "B~", "notify", "B", "A", "replace-donor", "A", "B", "add-species", "B", "A~",
             "provider-exchange", "A", "B~", "B"]


def _seq_cases(tier):
    out = []
    for m in SEQ_MODELS:
        for v in sorted(SEQ_VARIANTS):
            out.append({"kind": "seq", "model": m, "variant": v, "label": "seq:" + m})
    return out


def _run_seq(case, acc):
    """Engine-H style family inside this lattice check: ONE model instance is evaluated at points of two regions in
    an order, across a plasma notification and across composition changes; every evaluation must equal that of a
    freshly built model (same final plasma state) evaluated at that point only.  Catches buffers that keep values of
    the previous point and cache fields that survive a reset."""
    from raysect.core import Vector3D
    from scipy.constants import atomic_mass, electron_mass
    from cherab.core import Plasma, Species, Maxwellian
    from cherab.core.atomic import Line
    from cherab.core.model import ExcitationLine, RecombinationLine, ThermalCXLine, TotalRadiatedPower, Bremsstrahlung
    from mc.refs import passive_mock as M
    L = M.lib()
    kind, variant = case["model"], case["variant"]
    name = MODEL_NAME[kind]
    baseA = {"D0": 2e16, "D1": 8e17, "C5": 1e16, "C6": 3e16, "He2": 2e16}
    tempA = {"D0": 3.0, "D1": 300.0, "C5": 150.0, "C6": 200.0, "He2": 250.0}
    over = SEQ_VARIANTS[variant]
    zero = Vector3D(0, 0, 0)

    def step(a, b):
        return lambda x, y, z: a if x < 0 else b

    def species(label, nA, nB, tA, tB):
        el_name, q = {"D0": ("deuterium", 0), "D1": ("deuterium", 1), "C5": ("carbon", 5), "C6": ("carbon", 6), "He2": ("helium", 2), "He1": ("helium", 1)}[label]
        el = M.element(el_name)
        return Species(el, q, Maxwellian(step(nA, nB), step(tA, tB), zero, el.atomic_weight * atomic_mass))

    def make_state(extra):
        """list of Species for the composition after the changes in `extra`"""
        sp = []
        for lab in ("D0", "D1", "C5", "C6", "He2"):
            nA = baseA[lab] * (3.0 if ("replace:" + lab) in extra else 1.0)
            sp.append(species(lab, nA, over.get(lab, baseA[lab] * 0.5), tempA[lab], tempA[lab] * 1.5))
        if "add:He1" in extra:
            sp.append(species("He1", 5e15, 7e15, 40.0, 60.0))
        return sp

    def make_plasma(extra):
        pl = Plasma()
        pl.b_field = zero
        pl.electron_distribution = Maxwellian(step(1e18, 6e17), step(120.0, 80.0), zero, electron_mass)
        pl.composition = make_state(extra)
        return pl

    state = {"gaunt": "mock"}

    def make_model(pl):
        prov = L["Provider"](gaunt=state["gaunt"])
        if kind == "exc":
            return ExcitationLine(Line(M.element("deuterium"), 0, (3, 2)), plasma=pl, atomic_data=prov)
        if kind == "rec":
            return RecombinationLine(Line(M.element("carbon"), 5, (8, 7)), plasma=pl, atomic_data=prov)
        if kind == "cx":
            return ThermalCXLine(Line(M.element("carbon"), 5, (8, 7)), plasma=pl, atomic_data=prov)
        if kind == "trp":
            return TotalRadiatedPower(M.element("carbon"), 5, plasma=pl, atomic_data=prov)
        return Bremsstrahlung(plasma=pl, atomic_data=prov)

    PTS = {"A": (-0.4, 0.1, 0.2), "B": (0.3, -0.2, 0.1)}
    lo, hi, bins = 420.0, 700.0, 6
    extra = set()
    plasma = make_plasma(extra)
    model = make_model(plasma)
    hist = []
    acc.classes += ["seq", "seq:" + kind, "seq:" + variant.split(":")[0]]
    for st in SEQ_STEPS:
        if st == "notify":
            plasma.b_field = zero                      # same value: a pure notification
            hist.append(st)
            continue
        if st == "replace-donor":
            plasma.composition.add(species("D0", baseA["D0"] * 3.0, over.get("D0", baseA["D0"] * 0.5), tempA["D0"], tempA["D0"] * 1.5))
            extra.add("replace:D0")
            hist.append(st)
            continue
        if st == "provider-exchange":
            state["gaunt"] = "default"
            model.atomic_data = L["Provider"](gaunt="default")
            hist.append(st)
            continue
        if st == "add-species":
            plasma.composition.add(species("He1", 5e15, 7e15, 40.0, 60.0))
            extra.add("add:He1")
            hist.append(st)
            continue
        acc.n += 1
        acc.transitions += 1
        w = (300.0, 900.0, 5) if st.endswith("~") else (lo, hi, bins)
        live = _observe(model, PTS[st[0]], *w)
        fresh = _observe(make_model(make_plasma(extra)), PTS[st[0]], *w)
        hist.append(st)
        acc.nontrivial.append(("seq", kind, variant, len(hist)))
        same = (live[0] == fresh[0]) and (live[1:] == fresh[1:] if live[0] == "exc" else
                                          all(_close(a, b, 1e-12) or (a == b) for a, b in zip(live[1], fresh[1])))
        if not same:
            after = [h for h in hist[:-1] if h[0] not in ("A", "B")]
            if not after and len(hist) > 1 and st.endswith("~") != hist[-2].endswith("~"):
                after = ["another-spectral-window"]
            cause = (after[-1] if after else ("previous-point" if len(hist) > 1 else "first-evaluation"))
            acc.v("%s:sequence:after-%s:differs-from-a-fresh-model-at-the-same-point" % (name, cause),
                  "%s, variant %s, history %s: the model evaluated at point %s" % (name, variant, hist, PTS[st[0]]),
                  fresh[1] if fresh[0] == "ok" else list(fresh), live[1] if live[0] == "ok" else list(live))
            break
    acc.out(("seq", kind, variant, len(hist)))


def crash_label(case):
    return case.get("label", "case")


# ------------------------------------------------------------------------------------------------------------
# helpers
# ------------------------------------------------------------------------------------------------------------
class Acc:
    def __init__(self):
        self.viol, self.classes, self.nontrivial = [], [], []
        self.n = 0
        self.calls = 0          # number of violations raised, duplicates of a signature within the case included
        self.transitions = 0
        self.outcomes = {}
        self._seen = set()

    def v(self, sig, what, expected, observed):
        sig = "C03:" + sig
        self.calls += 1
        if sig in self._seen:
            return
        self._seen.add(sig)
        self.viol.append({"sig": sig, "what": what, "expected": expected, "observed": observed})

    def out(self, key):
        self.outcomes[key] = self.outcomes.get(key, 0) + 1

    def result(self, case):
        # 'states' is not reported: every evaluation is a distinct lattice point by construction, the runner then counts
        # states = evaluations (a 9 M element set in the parent would cost memory for no information)
        return {"viol": self.viol, "classes": self.classes, "outcome": (case.get("label"), tuple(sorted(self.outcomes.items())), len(self.viol)),
                "n": max(self.n, 1), "transitions": max(self.transitions, 1), "nontrivial": self.nontrivial}


def _close(a, b, rtol):
    return abs(a - b) <= rtol * max(abs(a), abs(b))


def _observe(model, p, lo, hi, bins):
    """-> ('ok', samples list) | ('exc', TypeName, message)"""
    from raysect.optical import Spectrum, Point3D, Vector3D
    spec = Spectrum(lo, hi, bins)
    try:
        r = model.emission(Point3D(*p), Vector3D(*DIRECTION), spec)
    except Exception as e:  # noqa
        return ("exc", type(e).__name__, str(e)[:200])
    if r is not spec:
        return ("exc", "ReturnedOtherSpectrum", "")
    return ("ok", [float(x) for x in spec.samples])


def _order(comp, rev):
    return list(reversed(comp)) if rev else list(comp)


def _make_line_model(kind, target, plasma, provider, ls):
    from cherab.core.atomic import Line
    from cherab.core.model import ExcitationLine, RecombinationLine, ThermalCXLine, GaussianLine, MultipletLineShape
    from mc.refs import passive_mock as M, passive_ref as R
    L = M.lib()
    el, q, tr = target[0], target[1], tuple(target[2])
    line = Line(M.element(el), q, tr)
    cls = {"exc": ExcitationLine, "rec": RecombinationLine, "cx": ThermalCXLine}[kind]
    wl = R.wavelength(el, q, tr)
    if ls == "rec":
        kw = dict(lineshape=L["RecorderLine"], lineshape_args=[7, "a"], lineshape_kwargs={"tag": "t"})
    elif ls == "gauss":
        kw = dict(lineshape=(GaussianLine if q % 2 else None))   # explicit class and the documented default
    else:
        kw = dict(lineshape=MultipletLineShape, lineshape_args=[[[wl * 0.999, wl * 1.001], [0.25, 0.75]]])
    return cls(line, plasma=plasma, atomic_data=provider, **kw), line, wl


def _lineshape_factor(ls, wl, el, t_target, lo, hi):
    """Fraction of the documented radiance that must appear inside [lo, hi]."""
    from mc.refs import passive_ref as R
    if ls == "rec":
        return 1.0
    if t_target <= 0:
        return 0.0
    sigma = R.thermal_sigma(wl, t_target, R.WEIGHT_OF[el])
    comps = [(wl, 1.0)] if ls == "gauss" else [(wl * 0.999, 0.25), (wl * 1.001, 0.75)]
    return R.gaussian_fraction(comps, sigma, lo, hi)


def _line_expected(kind, target, dens, temp, ne, te):
    from mc.refs import passive_ref as R
    el, q, tr = target[0], target[1], tuple(target[2])
    if kind == "exc":
        return R.excitation_radiance(el, q, tr, ne, te, dens)
    if kind == "rec":
        return R.recombination_radiance(el, q, tr, ne, te, dens)
    return R.thermal_cx_radiance(el, q, tr, ne, te, dens, temp)


def _gclass_line(kind, target, ls, dens, temp, ne, te):
    """Class label of the inputs (first failing guard in documented order) and the number of non-positive relevant inputs."""
    from mc.refs import passive_ref as R
    el, q = target[0], target[1]
    tkey = (el, q) if kind == "exc" else (el, q + 1)
    labels = []
    if ne <= 0:
        labels.append("ne<=0")
    if te <= 0:
        labels.append("te<=0")
    if dens[tkey] <= 0:
        labels.append("n-target<=0")
    if ls != "rec" and temp[tkey] <= 0:
        labels.append("T-target<=0")
    if kind == "cx":
        donors = R.thermal_cx_donors(el, q, dens.keys())
        if any(dens[d] < 0 for d in donors):
            labels.append("donor-n<0")
        if any(dens[d] > 0 and temp[d] <= 0 for d in donors):
            labels.append("donor-T<=0")
        if any(dens[d] == 0 for d in donors):
            labels.append("donor-n=0")
    return (labels[0] if labels else "all-positive"), len(labels)


def _comp_label(kind, target, comp):
    from mc.refs import passive_ref as R
    if kind in ("exc", "rec"):
        return "minimal" if len(comp) == 1 else "mixed"
    if kind == "cx":
        el, q = target[0], target[1]
        sp = [R.parse_label(l) for l in comp]
        if not R.thermal_cx_donors(el, q, sp):
            return "donors=0" if not any(R.is_bare(l) and R.parse_label(l) != (el, q + 1) for l in comp) else "bare-other"
        return "bare-other" if any(R.is_bare(l) and R.parse_label(l) != (el, q + 1) for l in comp) else "no-bare-other"
    if kind == "trp":
        return "hyd>0" if any(l in ("H0", "D0", "T0") for l in comp) else "hyd=0"
    ions = [l for l in comp if R.parse_label(l)[1] > 0]
    if not ions:
        return "ions=0"
    return "with-neutrals" if len(ions) < len(comp) else "ions-only"


def _check_samples(acc, name, gclass, clabel, what, expected_total, samples, lo, hi, rtol, uniform):
    """Common oracle for one evaluation.  Returns the observed window integral.
    For the two ThermalCX donor classes (a donor with n < 0; a donor with n > 0 and T <= 0) the three ways in which an
    un-zeroed donor term shows (negative total / non-zero where zero is due / wrong total) share one aspect name, so that one
    defect gives one signature per input class."""
    merged = "donor-term-not-zeroed" if gclass in ("donor-n<0", "donor-T<=0") else None
    bins = len(samples)
    dl = (hi - lo) / bins
    total = sum(samples) * dl
    suffix = gclass + ((":" + clabel) if gclass == "all-positive" else "")
    bad = [s for s in samples if not (s == s) or math.isinf(s)]
    if bad:
        acc.v("%s:non-finite:%s" % (name, suffix), what, expected_total, samples)
        return total
    if min(samples) < 0.0:
        acc.v("%s:%s:%s" % (name, merged or "negative", suffix), what + " - emission is negative although every coefficient is positive", expected_total, samples)
    elif expected_total == 0.0:
        if any(s != 0.0 for s in samples):
            acc.v("%s:%s:%s" % (name, merged or "nonzero", suffix), what + " - emission must be exactly zero", 0.0, samples)
    elif not _close(total, expected_total, rtol):
        acc.v("%s:%s:%s" % (name, merged or "total", suffix), what + " - window integral differs from the documented expression", expected_total, total)
    if uniform and max(samples) - min(samples) > 1e-12 * max(abs(max(samples)), abs(min(samples))):
        acc.v("%s:not-uniform:%s" % (name, suffix), what + " - not spread uniformly over the bins", "equal bins", samples)
    return total


def _values_at(comp_vals, ne0, te0, p, xdep=True):
    from mc.refs import passive_ref as R
    f = R.profile(p, xdep)
    dens = {R.parse_label(l): n * f for l, n, t in comp_vals}
    temp = {R.parse_label(l): t * f for l, n, t in comp_vals}
    return ne0 * f, te0 * f, dens, temp


def _linearity(acc, name, table, axes_n, lin_tol):
    """table: {(fixed_key, tuple of axis densities): total}.  For each axis (all other axis densities >= 0), three-point additivity test
    (E(b) - E(0)) * a == (E(a) - E(0)) * b  on every line of the lattice where all three points were evaluated."""
    done = 0
    for (fk, ns), e_a in table.items():
        for j in axes_n:
            if ns[j] != LIN_A or any(ns[k] < 0 for k in range(len(ns)) if k != j):
                continue      # linearity is claimed for physical (non-negative) densities of the other species: with a negative
                              # partner the documented total hydrogen density n_hyd = sum(n) changes sign along the line
            kb = (fk, ns[:j] + (LIN_B,) + ns[j + 1:])
            k0 = (fk, ns[:j] + (0.0,) + ns[j + 1:])
            if kb not in table or k0 not in table:
                continue
            e_b, e_0 = table[kb], table[k0]
            scale = LIN_B * max(abs(e_a), abs(e_b), abs(e_0))
            done += 1
            if abs((e_b - e_0) * LIN_A - (e_a - e_0) * LIN_B) > lin_tol * scale:
                acc.v("%s:linearity:axis%d" % (name, j), "emission is not linear in the density of species #%d of the case's composition" % j,
                      {"E(0)": e_0, "E(1e16)": e_a, "E(3e17)": e_b, "expected E(3e17)-E(0)": (e_a - e_0) * LIN_B / LIN_A}, e_b - e_0)
    if done:
        acc.classes.append("linearity:" + name)
    return done


# ------------------------------------------------------------------------------------------------------------
# case runners
# ------------------------------------------------------------------------------------------------------------
def run_case(case):
    acc = Acc()
    kind = case["kind"]
    if kind == "selftest":
        _run_selftest(case, acc)
    elif kind == "gaunt-table":
        _run_gaunt_table(case, acc)
    elif kind == "route":
        if case["model"] in ("exc", "rec", "cx"):
            _run_route_line(case, acc)
        elif case["model"] == "trp":
            _run_route_trp(case, acc)
        else:
            _run_brems(case, acc, route=True)
    elif kind == "lat-line":
        _run_lat_line(case, acc)
    elif kind == "lat-cx":
        _run_lat_cx(case, acc)
    elif kind == "lat-trp":
        _run_lat_trp(case, acc)
    elif kind == "lat-brems":
        _run_brems(case, acc, route=False)
    elif kind == "slab":
        _run_slab(case, acc)
    elif kind == "seq":
        _run_seq(case, acc)
    else:
        raise ValueError(kind)
    r = acc.result(case)
    if "harness_error" in acc.__dict__:
        r["harness_error"] = acc.harness_error
    return r


def _run_selftest(case, acc):
    """Cross-check the reference model against independent routes on canonical cases (harness error if it fails)."""
    from scipy.integrate import quad
    from mc.refs import passive_ref as R
    errs = []
    # 1. distinct coefficient parameters and wavelengths over every key the check can request
    keys = set()
    els = R.ELEMENT_ORDER
    for e in els:
        for q in range(R.Z_OF[e] + 1):
            keys |= {("plt", e, q), ("prb", e, q), ("prc", e, q)}
            for tr in R.TRANSITIONS:
                keys |= {("exc", e, q, tr), ("rec", e, q, tr)}
                for d in els:
                    for dq in range(R.Z_OF[d] + 1):
                        keys.add(("cx", d, dq, e, q, tr))
    ps = {}
    for k in keys:
        p = tuple(round(x, 9) if i else round(math.log10(x), 9) for i, x in enumerate(R.params(k)))
        if p in ps:
            errs.append("coefficient parameters collide: %r %r" % (k, ps[p]))
        ps[p] = k
    wls = sorted(R.wavelength(e, q, tr) for e in els for q in range(R.Z_OF[e]) for tr in R.TRANSITIONS)
    if any(b / a < 1.0199 for a, b in zip(wls, wls[1:])):
        errs.append("wavelengths closer than 2%")
    # 2. the 10-sigma support of the hottest, lightest line fits in the +-0.8 % window together with the multiplet offsets
    s = R.thermal_sigma(1.0, 300.0 * 1.3125, R.WEIGHT_OF["hydrogen"])
    if not (10 * s + 0.001 < 0.008):
        errs.append("window too narrow: 10 sigma = %g" % (10 * s))
    # 3. composite Gauss-Legendre vs scipy quad on the bremsstrahlung integrand
    for te in (5.0, 500.0 * 1.3125):
        for lo, hi in BREMS_WINDOWS + [(400.0, 460.0)]:
            f = lambda w: R.brems_emissivity(w, 1e19, te, [(1, 1e19), (6, 1e17)], R.mock_gaunt)  # noqa
            a, b = R.integral(f, lo, hi), quad(f, lo, hi, epsabs=0, epsrel=1e-13, limit=200)[0]
            if not _close(a, b, 1e-11):
                errs.append("reference integral differs from quad: %r %r" % (a, b))
            acc.n += 1
    # 4. Hutchinson constant against the widely quoted practical form  eps(lambda) = 1.89e-28 g ne ni Z^2 / (sqrt(Te) lambda^2) exp(-12400/(lambda Te))
    #    [erg.. W cm^-3 A^-1 -> SI]: only an order-of-magnitude guard (1 %) against unit slips in the reference
    ne = ni = 1e19
    te, wl = 100.0, 500.0
    ref = R.brems_emissivity(wl, ne, te, [(1, ni)], lambda z, t, w: 1.0) * R.FOUR_PI          # W m^-3 nm^-1
    # NRL formulary: dP/dlambda [W cm^-3 A^-1]... = 1.9e-28 ne ni Z^2 /(sqrt(Te) lambda_A^2) exp(-12400/(lambda_A Te)), ne in cm^-3
    nrl = 1.9e-28 * (ne * 1e-6) * (ni * 1e-6) / (math.sqrt(te) * (wl * 10.0) ** 2) * math.exp(-12400.0 / (wl * 10.0 * te))  # W cm^-3 A^-1
    nrl_si = nrl * 1e6 * 10.0   # -> W m^-3 nm^-1
    if not _close(ref, nrl_si, 0.02):
        errs.append("Hutchinson reference %r vs practical formula %r" % (ref, nrl_si))
    if errs:
        acc.harness_error = "selftest of the reference model failed: " + "; ".join(errs[:5])
    acc.classes.append("selftest")
    acc.out("selftest")
    acc.nontrivial.append(("selftest",))


def _run_gaunt_table(case, acc):
    """InterpolatedFreeFreeGauntFactor with a table that is linear in (log10 u, log10 gamma^2): the documented
    parametrisation u = h nu/kT, gamma^2 = Z^2 Ry/kT, classical limit 1 above the table, Born limit below, 0 for Z = 0."""
    import numpy as np
    from cherab.core.atomic import InterpolatedFreeFreeGauntFactor
    from mc.refs import passive_ref as R
    lu = np.linspace(-3.0, 2.0, 11)
    lg = np.linspace(-4.0, 3.0, 15)
    a0, a1, a2 = 1.3, 0.11, -0.07
    table = a0 + a1 * lu[:, None] + a2 * lg[None, :]
    g = InterpolatedFreeFreeGauntFactor(10.0 ** lu, 10.0 ** lg, table)
    for z in (0.0, 1.0, 2.0, 6.5, 40.0):
        for te in (0.05, 0.5, 5.0, 500.0, 5e4, 5e7):
            for wl in (0.01, 10.0, 500.0, 5000.0, 1e7):
                acc.n += 1
                acc.transitions += 1
                obs = g.evaluate(z, te, wl)
                if z == 0:
                    exp, cls = 0.0, "z=0"
                else:
                    u, g2 = R.gaunt_u_gamma2(z, te, wl)
                    if u >= 10.0 ** lu[-1] or g2 >= 10.0 ** lg[-1]:
                        exp, cls = 1.0, "classical"
                    elif u < 10.0 ** lu[0] or g2 < 10.0 ** lg[0]:
                        exp, cls = R.gaunt_born(u), "born"
                    else:
                        exp, cls = a0 + a1 * math.log10(u) + a2 * math.log10(g2), "table"
                acc.out(cls)
                acc.nontrivial.append(("gaunt", z, te, wl))
                if abs(obs - exp) > 1e-8 * max(1.0, abs(exp)):
                    acc.v("InterpolatedFreeFreeGauntFactor:value:%s" % cls, "g_ff(z=%g, te=%g, wl=%g) with a table linear in log u, log gamma2" % (z, te, wl), exp, obs)
    if set(acc.outcomes) >= {"z=0", "classical", "born", "table"}:
        acc.classes.append("gaunt-table")


def _check_recorder(acc, name, rec, line, wl, target_species, plasma, provider):
    info = rec.info
    if info["line"] is not line or info["plasma"] is not plasma or info["atomic_data"] is not provider:
        acc.v("%s:lineshape-ctor:objects" % name, "line shape constructed with other line/plasma/atomic_data objects", "the model's own", repr(info))
    if info["target_species"] is not target_species:
        acc.v("%s:lineshape-ctor:target-species" % name, "line shape constructed with another target species", repr(target_species), repr(info["target_species"]))
    if info["wavelength"] != wl:
        acc.v("%s:lineshape-ctor:wavelength" % name, "line shape constructed with another wavelength", wl, info["wavelength"])
    if tuple(info["args"]) != (7, "a") or info["kwargs"] != {"tag": "t"}:
        acc.v("%s:lineshape-ctor:args" % name, "lineshape_args / lineshape_kwargs not passed through", [[7, "a"], {"tag": "t"}], [list(info["args"]), info["kwargs"]])


def _run_route_line(case, acc):
    from mc.refs import passive_mock as M, passive_ref as R
    L = M.lib()
    kind, target = case["model"], case["target"]
    name = MODEL_NAME[kind]
    comp = _order(case["comp"], case["rev"])
    need = _needed(kind, target)
    missing = [l for l in need if l not in comp]
    comp_vals = [(l,) + FIXED[l] for l in comp]
    clabel = _comp_label(kind, target, comp)
    el, q, tr = target[0], target[1], tuple(target[2])
    for ne0, te0 in POSITIVE_NETE:
        plasma = M.build_plasma(ne0, te0, comp_vals)
        provider = L["Provider"]()
        del L["RecorderLine"].instances[:]
        model, line, wl = _make_line_model(kind, target, plasma, provider, "rec")
        lo, hi = wl * 0.992, wl * 1.008
        for ip, p in enumerate(POINTS):
            acc.n += 1
            acc.transitions += 1
            bins = 1 + 4 * ip
            obs = _observe(model, p, lo, hi, bins)
            if missing:
                acc.classes.append(name + ":missing-species")
                acc.out("missing")
                acc.nontrivial.append(("route-missing", kind, el, q, str(tr), tuple(comp)))
                if obs[0] != "exc" or obs[1] != "RuntimeError":
                    acc.v("%s:missing-species:%s" % (name, "no-error" if obs[0] == "ok" else "raises:" + obs[1]),
                          "composition %s lacks %s" % (comp, missing), "RuntimeError", obs[1:] if obs[0] == "exc" else obs[1])
                continue
            what = "%s %s%d+ %s in composition %s, ne0=%g te0=%g, point %s, recorder line shape" % (name, el, q, tr, comp, ne0, te0, p)
            if obs[0] == "exc":
                acc.v("%s:raises:%s" % (name, obs[1]), what, "a spectrum", obs[1:])
                continue
            ne, te, dens, temp = _values_at(comp_vals, ne0, te0, p)
            exp = _line_expected(kind, target, dens, temp, ne, te)
            _check_samples(acc, name, "all-positive", clabel, what, exp, obs[1], lo, hi, RTOL, True)
            acc.classes += [name + ":all-positive", "lineshape:rec"]
            if kind == "cx":
                acc.classes.append(name + ":comp:" + clabel)
            acc.out("value")
            acc.nontrivial.append(("route", kind, el, q, str(tr), tuple(comp), ne0, ip))
            recs = L["RecorderLine"].instances
            if len(recs) != 1:
                acc.v("%s:lineshape-ctor:count" % name, what, 1, len(recs))
            else:
                tkey = (M.element(el), q if kind == "exc" else q + 1)
                _check_recorder(acc, name, recs[0], line, wl, plasma.composition.get(*tkey), plasma, provider)
                call = recs[0].calls[-1] if recs[0].calls else None
                if exp != 0 and (call is None or call[1] != tuple(p) or any(abs(a - b) > 1e-15 for a, b in zip(call[2], DIRECTION))):
                    acc.v("%s:add_line:point-or-direction" % name, what, [p, DIRECTION], call)
    del L["RecorderLine"].instances[:]


def _trp_gclass(target, dens, ne, te):
    el, q = target
    labels = []
    if ne <= 0:
        labels.append("ne<=0")
    if te <= 0:
        labels.append("te<=0")
    if dens[(el, q)] <= 0:
        labels.append("ni<=0")
    if dens[(el, q + 1)] <= 0:
        labels.append("ni_upper<=0")
    hyd = [dens[(h, 0)] for h in ("hydrogen", "deuterium", "tritium") if (h, 0) in dens]
    if sum(hyd) <= 0:
        labels.append("nhyd<=0")
    return (labels[0] if labels else "all-positive"), len(labels)


def _make_trp(target, plasma, provider):
    from cherab.core.model import TotalRadiatedPower
    from mc.refs import passive_mock as M
    return TotalRadiatedPower(M.element(target[0]), target[1], plasma=plasma, atomic_data=provider)


def _trp_eval(acc, model, target, comp_vals, ne0, te0, p, lo, hi, bins, clabel, what):
    from mc.refs import passive_ref as R
    name = "TotalRadiatedPower"
    obs = _observe(model, p, lo, hi, bins)
    ne, te, dens, temp = _values_at(comp_vals, ne0, te0, p)
    gclass, nbad = _trp_gclass(tuple(target), dens, ne, te)
    acc.n += 1
    acc.transitions += 1
    if obs[0] == "exc":
        acc.v("%s:raises:%s" % (name, obs[1]), what, "a spectrum", obs[1:])
        return None, gclass, nbad
    t1, t2, t3 = R.total_power_terms(target[0], target[1], ne, te, dens)
    exp = (t1 + t2 + t3) / R.FOUR_PI      # window integral of (sum / (4 pi dlambda)) spread uniformly
    total = _check_samples(acc, name, gclass, clabel, what, exp, obs[1], lo, hi, RTOL, True)
    acc.classes.append(name + ":" + gclass)
    return total, gclass, nbad


def _run_route_trp(case, acc):
    from mc.refs import passive_mock as M
    L = M.lib()
    target = case["target"]
    name = "TotalRadiatedPower"
    comp = _order(case["comp"], case["rev"])
    need = _needed("trp", target)
    missing = [l for l in need if l not in comp]
    comp_vals = [(l,) + FIXED[l] for l in comp]
    clabel = _comp_label("trp", target, comp)
    for i, (ne0, te0) in enumerate(POSITIVE_NETE):
        plasma = M.build_plasma(ne0, te0, comp_vals)
        model = _make_trp(target, plasma, L["Provider"]())
        lo, hi = TRP_WINDOWS[i]
        for ip, p in enumerate(POINTS):
            bins = 1 + 4 * ip
            if missing:
                acc.n += 1
                acc.transitions += 1
                obs = _observe(model, p, lo, hi, bins)
                acc.classes.append(name + ":missing-species")
                acc.out("missing")
                acc.nontrivial.append(("route-missing", "trp", tuple(target), tuple(comp)))
                if obs[0] != "exc" or obs[1] != "RuntimeError":
                    which = "both" if len(missing) == 2 else ("lower" if missing[0] == need[0] else "upper")
                    acc.v("%s:missing-species=%s:%s" % (name, which, "no-error" if obs[0] == "ok" else "raises:" + obs[1]),
                          "composition %s lacks %s" % (comp, missing), "RuntimeError", obs[1:] if obs[0] == "exc" else obs[1])
                continue
            what = "%s %s%d+ in composition %s, ne0=%g te0=%g, point %s, window %s x %d" % (name, target[0], target[1], comp, ne0, te0, p, (lo, hi), bins)
            _trp_eval(acc, model, target, comp_vals, ne0, te0, p, lo, hi, bins, clabel, what)
            acc.classes.append(name + ":comp:" + clabel)
            acc.out("value")
            acc.nontrivial.append(("route", "trp", tuple(target), tuple(comp), ne0, ip))


def _nete(alpha):
    return [(a, b) for a in VALUES[alpha]["ne"] for b in VALUES[alpha]["te"]]


def _run_lat_line(case, acc):
    from mc.refs import passive_mock as M
    L = M.lib()
    kind, target, comp, ls, bins = case["model"], case["target"], case["comp"], case["ls"], case["bins"]
    name = MODEL_NAME[kind]
    V = VALUES[case["alpha"]]
    need = _needed(kind, target)[0]
    el, q, tr = target[0], target[1], tuple(target[2])
    clabel = _comp_label(kind, target, comp)
    table = {}
    for ne0, te0 in _nete(case["alpha"]):
        for nt in V["n"]:
            for tt in V["T"]:
                comp_vals = [(l, nt, tt) if l == need else ((l,) + FIXED[l] if case["others"] == "pos" else (l, -1.0, 0.0)) for l in comp]
                plasma = M.build_plasma(ne0, te0, comp_vals)
                model, line, wl = _make_line_model(kind, target, plasma, L["Provider"](), ls)
                lo, hi = wl * 0.992, wl * 1.008
                for ip, p in enumerate(POINTS):
                    acc.n += 1
                    acc.transitions += 1
                    obs = _observe(model, p, lo, hi, bins)
                    ne, te, dens, temp = _values_at(comp_vals, ne0, te0, p)
                    gclass, nbad = _gclass_line(kind, target, ls, dens, temp, ne, te)
                    what = "%s %s%d+ %s, composition %s (others %s), ne0=%g te0=%g n_target0=%g T_target0=%g, point %s, line shape %s, %d bins" % (
                        name, el, q, tr, comp, case["others"], ne0, te0, nt, tt, p, ls, bins)
                    acc.classes += [name + ":" + gclass, "lineshape:" + ls]
                    acc.out(gclass)
                    if nbad <= 1:
                        acc.nontrivial.append(("lat", kind, el, q, tuple(comp), case["others"], ls, bins, ne0, te0, nt, tt, ip))
                    if obs[0] == "exc":
                        acc.v("%s:raises:%s" % (name, obs[1]), what, "a spectrum", obs[1:])
                        continue
                    tkey = (el, q) if kind == "exc" else (el, q + 1)
                    exp = _line_expected(kind, target, dens, temp, ne, te) * _lineshape_factor(ls, wl, el, temp[tkey], lo, hi)
                    total = _check_samples(acc, name, gclass, clabel, what, exp, obs[1], lo, hi, RTOL, ls == "rec")
                    table[((ne0, te0, tt, ip), (nt,))] = total
    _linearity(acc, name, table, [0], 1e-12)
    del L["RecorderLine"].instances[:]


def _run_lat_cx(case, acc):
    from mc.refs import passive_mock as M, passive_ref as R
    L = M.lib()
    kind, target, comp, ls, bins = "cx", case["target"], case["comp"], case["ls"], case["bins"]
    name = MODEL_NAME[kind]
    V = VALUES[case["alpha"]]
    ne0, te0 = _nete(case["alpha"])[case["inete"]]
    el, q, tr = target[0], target[1], tuple(target[2])
    rec_label = _needed(kind, target)[0]
    donors = [l for l in comp if l != rec_label and not R.is_bare(l)]
    others = [l for l in comp if l != rec_label and R.is_bare(l)]
    clabel = _comp_label(kind, target, comp)
    pairs = [(n, t) for n in V["n"] for t in V["T"]]
    table = {}
    axis_labels = [rec_label] + donors
    for rec_nt in pairs:
        for dvals in itertools.product(pairs, repeat=len(donors)):
            vals = dict(zip(axis_labels, (rec_nt,) + dvals))
            comp_vals = [(l,) + (vals[l] if l in vals else (FIXED[l] if (case["inete"] + bins) % 2 else (-1.0, 0.0))) for l in comp]
            plasma = M.build_plasma(ne0, te0, comp_vals)
            model, line, wl = _make_line_model(kind, target, plasma, L["Provider"](), ls)
            lo, hi = wl * 0.992, wl * 1.008
            for ip, p in enumerate(POINTS):
                acc.n += 1
                acc.transitions += 1
                obs = _observe(model, p, lo, hi, bins)
                ne, te, dens, temp = _values_at(comp_vals, ne0, te0, p)
                gclass, nbad = _gclass_line(kind, target, ls, dens, temp, ne, te)
                acc.classes += [name + ":" + gclass, "lineshape:" + ls, name + ":comp:" + clabel]
                acc.out(gclass)
                if nbad <= 1:
                    acc.nontrivial.append(("latcx", el, q, tuple(comp), ls, bins, ne0, te0, rec_nt, dvals, ip))
                what = "%s %s%d+ %s, composition %s, ne0=%g te0=%g, (n0,T0): %s, point %s, line shape %s, %d bins" % (
                    name, el, q, tr, comp, ne0, te0, {l: vals[l] for l in axis_labels}, p, ls, bins)
                if obs[0] == "exc":
                    acc.v("%s:raises:%s" % (name, obs[1]), what, "a spectrum", obs[1:])
                    continue
                exp = _line_expected(kind, target, dens, temp, ne, te) * _lineshape_factor(ls, wl, el, temp[(el, q + 1)], lo, hi)
                total = _check_samples(acc, name, gclass, clabel, what, exp, obs[1], lo, hi, RTOL, ls == "rec")
                fk = (ip, rec_nt[1], tuple(d[1] for d in dvals))
                table[(fk, (rec_nt[0],) + tuple(d[0] for d in dvals))] = total
    if ne0 > 0 and te0 > 0:
        _linearity(acc, name, table, list(range(len(axis_labels))), 1e-12)
    del L["RecorderLine"].instances[:]


def _run_lat_trp(case, acc):
    from mc.refs import passive_mock as M
    L = M.lib()
    target, comp, bins = case["target"], case["comp"], case["bins"]
    name = "TotalRadiatedPower"
    V = VALUES[case["alpha"]]
    lo, hi = TRP_WINDOWS[case["win"]]
    need = _needed("trp", target)
    hyd = [l for l in comp if l in ("H0", "D0", "T0") and l not in need]
    axes = need + hyd
    clabel = _comp_label("trp", target, comp)
    for ne0, te0 in _nete(case["alpha"]):
        table = {}
        for ns in itertools.product(V["n"], repeat=len(axes)):
            vals = dict(zip(axes, ns))
            comp_vals = [(l, vals[l], FIXED[l][1]) if l in vals else (l,) + FIXED[l] for l in comp]
            plasma = M.build_plasma(ne0, te0, comp_vals)
            model = _make_trp(target, plasma, L["Provider"]())
            for ip, p in enumerate(POINTS):
                what = "%s %s%d+, composition %s, ne0=%g te0=%g, n0: %s, point %s, window %s x %d" % (name, target[0], target[1], comp, ne0, te0, vals, p, (lo, hi), bins)
                total, gclass, nbad = _trp_eval(acc, model, target, comp_vals, ne0, te0, p, lo, hi, bins, clabel, what)
                acc.classes.append(name + ":comp:" + clabel)
                acc.out(gclass)
                if nbad <= 1:
                    acc.nontrivial.append(("lattrp", tuple(target), tuple(comp), case["win"], bins, ne0, te0, ns, ip))
                if total is not None:
                    table[((ip,), tuple(ns))] = total
        if ne0 > 0 and te0 > 0:
            _linearity(acc, name, table, list(range(len(axes))), 1e-12)


_BREMS_I = {}


def _brems_bin_integral(gname, gfun, z, te, lo, hi, order):
    """int_lo^hi  g(z, te, w) * kernel(w; te) dw  with unit densities (the emissivity is linear in n_e * n_i Z^2)."""
    from mc.refs import passive_ref as R
    key = (gname, z, te, lo, hi, order)
    v = _BREMS_I.get(key)
    if v is None:
        f = lambda w: R.brems_emissivity(w, 1.0, te, [(z, 1.0)], gfun)  # noqa
        v = R.integral(f, lo, hi) if order is None else R.gauss_legendre(f, lo, hi, order)
        if len(_BREMS_I) > 200000:
            _BREMS_I.clear()
        _BREMS_I[key] = v
    return v


def _gaunt_objects(gname):
    """-> (provider, explicit gaunt_factor argument or None, python callable for the reference)"""
    from cherab.core.atomic import MaxwellianFreeFreeGauntFactor
    from mc.refs import passive_mock as M, passive_ref as R
    L = M.lib()
    if gname == "mock":
        return L["Provider"]("mock"), None, R.mock_gaunt
    if gname == "default":
        if "maxw" not in L:
            L["maxw"] = MaxwellianFreeFreeGauntFactor()     # the documented default table is an *input* of the formula
        return L["Provider"]("default"), None, L["maxw"].evaluate
    return L["Provider"]("mock"), L["ConstGaunt"](1.0), (lambda z, t, w: 1.0)


def _make_brems(plasma, provider, gaunt_arg, integ, implicit_default=True):
    """integ 'default': integrator=None (the model builds GaussianQuadrature() itself) when implicit_default, otherwise one
    process-wide GaussianQuadrature() with the documented default parameters is passed explicitly (building the 50-order node
    cache costs 4 ms, too much for every lattice point; the implicit path is taken by every routing and slab case)."""
    from cherab.core.model import Bremsstrahlung
    from cherab.core.math.integrators import GaussianQuadrature
    from mc.refs import passive_mock as M
    L = M.lib()
    kw = {}
    if gaunt_arg is not None:
        kw["gaunt_factor"] = gaunt_arg
    if integ == "fixed4":
        if "gq4" not in L:
            L["gq4"] = GaussianQuadrature(min_order=4, max_order=4)
        kw["integrator"] = L["gq4"]
    elif not implicit_default:
        if "gqd" not in L:
            L["gqd"] = GaussianQuadrature()
        kw["integrator"] = L["gqd"]
    return Bremsstrahlung(plasma=plasma, atomic_data=provider, **kw)


def _brems_eval(acc, model, comp_vals, ne0, te0, p, lo, hi, bins, gname, gfun, integ, clabel, what, xdep=True):
    from mc.refs import passive_ref as R
    name = "Bremsstrahlung"
    obs = _observe(model, p, lo, hi, bins)
    ne, te, dens, temp = _values_at(comp_vals, ne0, te0, p, xdep)
    ions = [(c, dens[(e, c)]) for (e, c) in dens if c > 0]
    labels = []
    if ne <= 0:
        labels.append("ne<=0")
    if te <= 0:
        labels.append("te<=0")
    if any(n <= 0 for z, n in ions):
        labels.append("ion-n<=0")
    gclass = labels[0] if labels else "all-positive"
    acc.n += 1
    acc.transitions += 1
    acc.classes += [name + ":" + gclass, name + ":gaunt:" + gname, name + ":integrator:" + integ, name + ":comp:" + clabel]
    if obs[0] == "exc":
        acc.v("%s:raises:%s" % (name, obs[1]), what, "a spectrum", obs[1:])
        return None, gclass, len(labels)
    samples = obs[1]
    dl = (hi - lo) / bins
    order = 4 if integ == "fixed4" else None
    rtol = RTOL_BREMS_FIXED if integ == "fixed4" else RTOL_BREMS_DEFAULT
    exp_bins = []
    for i in range(bins):
        a, b = lo + dl * i, lo + dl * (i + 1)
        s = 0.0
        if ne > 0 and te > 0:
            for z, n in ions:
                if n > 0:
                    s += n * _brems_bin_integral(gname, gfun, z, te, a, b, order)
        exp_bins.append(ne * s / dl if s else 0.0)
    exp_total = sum(exp_bins) * dl
    # signature suffix: the gaunt variant only (composition class and integrator are in 'what'), so that one defect of the formula
    # gives one signature per gaunt variant and a gaunt-routing defect is told apart by which variants fail
    nv = acc.calls
    total = _check_samples(acc, name, gclass, "gaunt=" + gname, what, exp_total, samples, lo, hi, rtol, False)
    if exp_total != 0.0 and acc.calls == nv:
        scale = max(exp_bins)
        for i in range(bins):
            if abs(samples[i] - exp_bins[i]) > rtol * scale:
                acc.v("%s:bin-average:%s" % (name, gclass), what + " - total right, but bin %d is not the bin average of the documented formula" % i,
                      exp_bins, samples)
                break
    return total, gclass, len(labels)


def _run_brems(case, acc, route):
    from mc.refs import passive_mock as M, passive_ref as R
    gname, integ = case["gaunt"], case["integ"]
    provider0, garg, gfun = _gaunt_objects(gname)
    if route:
        comp = _order(case["comp"], case["rev"])
        comp_vals = [(l,) + FIXED[l] for l in comp]
        clabel = _comp_label("brems", None, comp)
        for i, (ne0, te0) in enumerate(POSITIVE_NETE):
            plasma = M.build_plasma(ne0, te0, comp_vals)
            prov, garg, gfun = _gaunt_objects(gname)
            model = _make_brems(plasma, prov, garg, integ)
            lo, hi = BREMS_WINDOWS[i]
            for ip, p in enumerate(POINTS):
                bins = 1 + 2 * ip
                what = "Bremsstrahlung, composition %s, gaunt %s, integrator %s, ne0=%g te0=%g, point %s, window %s x %d" % (comp, gname, integ, ne0, te0, p, (lo, hi), bins)
                _brems_eval(acc, model, comp_vals, ne0, te0, p, lo, hi, bins, gname, gfun, integ, clabel, what)
                if integ == "default":
                    acc.classes.append("Bremsstrahlung:integrator:default-implicit")
                acc.out("value")
                acc.nontrivial.append(("route", "brems", tuple(comp), gname, integ, ne0, ip))
        return
    comp, bins = case["comp"], case["bins"]
    V = VALUES[case["alpha"]]
    lo, hi = BREMS_WINDOWS[case["win"]]
    ions = [l for l in comp if R.parse_label(l)[1] > 0]
    clabel = _comp_label("brems", None, comp)
    for ne0, te0 in _nete(case["alpha"]):
        table = {}
        for ns in itertools.product(V["n"], repeat=len(ions)):
            vals = dict(zip(ions, ns))
            comp_vals = [(l, vals[l], FIXED[l][1]) if l in vals else (l,) + FIXED[l] for l in comp]
            plasma = M.build_plasma(ne0, te0, comp_vals)
            prov, garg, gfun = _gaunt_objects(gname)
            model = _make_brems(plasma, prov, garg, integ, implicit_default=False)
            for ip, p in enumerate(POINTS):
                what = "Bremsstrahlung, composition %s, gaunt %s, integrator %s, ne0=%g te0=%g, ion n0 %s, point %s, window %s x %d" % (
                    comp, gname, integ, ne0, te0, vals, p, (lo, hi), bins)
                total, gclass, nbad = _brems_eval(acc, model, comp_vals, ne0, te0, p, lo, hi, bins, gname, gfun, integ, clabel, what)
                acc.out(gclass)
                if nbad <= 1:
                    acc.nontrivial.append(("latbrems", tuple(comp), gname, integ, case["win"], bins, ne0, te0, ns, ip))
                if total is not None:
                    table[((ip,), tuple(ns))] = total
        if ne0 > 0 and te0 > 0 and ions:
            # the adaptive default integrator may stop at different orders for different density mixes: linear only to its tolerance
            _linearity(acc, "Bremsstrahlung", table, list(range(len(ions))), 1e-12 if integ == "fixed4" else RTOL_BREMS_DEFAULT)


def _run_slab(case, acc):
    """Material path: plasma attached to a World, models set through plasma.models, a ray along x through a box of length
    SLAB_L.  Profiles do not depend on x, the plasma node is translated in (y, z) and (odd variants) the geometry carries a
    geometry_transform, so the plasma-space point is world point minus the plasma translation."""
    from raysect.core import translate
    from raysect.optical import World, Ray, Point3D, Vector3D
    from raysect.primitive import Box
    from mc.refs import passive_mock as M, passive_ref as R
    L = M.lib()
    m, variant = case["model"], case["variant"]
    length = [1.0, 0.5, 2.0, 0.25][variant % 4]
    forward = (variant // 2) % 2 == 0
    use_gt = variant % 2 == 1
    bins = [1, 5, 3, 2][variant % 4]
    dy, dz = (0.3, -0.2) if variant < 4 else (-0.15, 0.35)
    gy, gz = (0.1, 0.2) if use_gt else (0.0, 0.0)
    y0, z0 = 0.25, 0.1
    world = World()
    name = {"radfn": "RadiationFunction"}.get(m, MODEL_NAME.get(m))
    acc.n += 1
    acc.transitions += 1
    acc.nontrivial.append(("slab", m, variant))
    p_plasma = (0.0, y0 - dy, z0 - dz)
    if forward:
        origin, direction = Point3D(-1.0, y0, z0), Vector3D(1, 0, 0)
    else:
        origin, direction = Point3D(length + 1.0, y0, z0), Vector3D(-1, 0, 0)
    if m == "radfn":
        from cherab.tools.emitters import RadiationFunction
        amp = [3.7e5, 1.0, 0.0, 2.5e3][variant % 4]
        lo, hi = TRP_WINDOWS[variant % 3]
        fn = amp * L["PROFILE_YZ"]
        Box(Point3D(0, -1, -1), Point3D(length, 1, 1), parent=world, transform=translate(0, dy, dz), material=RadiationFunction(fn, step=0.05))
        spec = Ray(origin=origin, direction=direction, min_wavelength=lo, max_wavelength=hi, bins=bins).trace(world)
        samples = [float(s) for s in spec.samples]
        exp = amp * R.profile(p_plasma, False) * length / R.FOUR_PI
        what = "RadiationFunction(%g*(1+y/4+z/8)) in a box of length %g, window %s x %d" % (amp, length, (lo, hi), bins)
        _check_samples(acc, name, "amp=0" if amp == 0 else "all-positive", "slab", what, exp, samples, lo, hi, RTOL_SLAB, True)
        acc.classes.append("slab:RadiationFunction")
        acc.out(("radfn", amp == 0))
        return
    comp = {"exc": ["D1", "D0", "H0"], "rec": ["D0", "D1", "C6"], "cx": ["D0", "C6", "He1", "Ne10"], "trp": ["C5", "D0", "C6", "T0"],
            "brems": ["D0", "D1", "C6"]}[m]
    target = {"exc": LINES["quick"][0], "rec": LINES["quick"][0], "cx": LINES["quick"][1], "trp": TRP_TARGETS["quick"][1], "brems": None}[m]
    ne0, te0 = POSITIVE_NETE[variant % 2]
    comp_vals = [(l,) + FIXED[l] for l in comp]
    plasma = M.build_plasma(ne0, te0, comp_vals, xdep=False, parent=world, transform=translate(0, dy, dz))
    if use_gt:
        plasma.geometry_transform = translate(0, gy, gz)
    plasma.geometry = Box(Point3D(0, -1, -1), Point3D(length, 1, 1))
    gname = GAUNTS[variant % 3]
    provider, garg, gfun = _gaunt_objects(gname) if m == "brems" else (L["Provider"](), None, None)
    plasma.atomic_data = provider
    del L["RecorderLine"].instances[:]
    if m in ("exc", "rec", "cx"):
        model, line, wl = _make_line_model(m, target, None, None, "rec")
        lo, hi = wl * 0.992, wl * 1.008
    elif m == "trp":
        from cherab.core.model import TotalRadiatedPower
        model = TotalRadiatedPower(M.element(target[0]), target[1])
        lo, hi = TRP_WINDOWS[variant % 3]
    else:
        model = _make_brems(None, None, garg, INTEGRATORS[variant % 2])
        lo, hi = BREMS_WINDOWS[0]
    if variant % 2:
        plasma.models.add(model)
    else:
        plasma.models = [model]
    spec = Ray(origin=origin, direction=direction, min_wavelength=lo, max_wavelength=hi, bins=bins).trace(world)
    samples = [float(s) for s in spec.samples]
    ne, te, dens, temp = _values_at(comp_vals, ne0, te0, p_plasma, xdep=False)
    what = "%s through plasma.models, slab length %g, ray %s, plasma translate(0,%g,%g), geometry_transform %s, window %s x %d" % (
        name, length, "+x" if forward else "-x", dy, dz, use_gt, (lo, hi), bins)
    if m in ("exc", "rec", "cx"):
        exp = _line_expected(m, target, dens, temp, ne, te) * length
        _check_samples(acc, name, "all-positive", "slab", what, exp, samples, lo, hi, RTOL_SLAB, True)
    elif m == "trp":
        exp = sum(R.total_power_terms(target[0], target[1], ne, te, dens)) / R.FOUR_PI * length
        _check_samples(acc, name, "all-positive", "slab", what, exp, samples, lo, hi, RTOL_SLAB, True)
    else:
        integ = INTEGRATORS[variant % 2]
        what += ", gaunt %s, integrator %s" % (gname, integ)
        order = 4 if integ == "fixed4" else None
        rtol = RTOL_SLAB if integ == "fixed4" else RTOL_BREMS_DEFAULT
        dl = (hi - lo) / bins
        ions = [(c, dens[(e, c)]) for (e, c) in dens if c > 0]
        exp_bins = [ne * sum(n * _brems_bin_integral(gname, gfun, z, te, lo + dl * i, lo + dl * (i + 1), order) for z, n in ions) / dl * length for i in range(bins)]
        nv = acc.calls
        _check_samples(acc, name, "all-positive", "slab", what, sum(exp_bins) * dl, samples, lo, hi, rtol, False)
        if acc.calls == nv and any(abs(a - b) > rtol * max(exp_bins) for a, b in zip(samples, exp_bins)):
            acc.v("%s:bin-average:slab" % name, what, exp_bins, samples)
    acc.classes.append("slab:" + name)
    acc.out(("slab", m))
    del L["RecorderLine"].instances[:]
