"""C01 plasma driver: mount Node -> Plasma (Box/Sphere geometry) + passive emission models."""
import copy

NAME = "plasma"

SLOTS = {
    "bfield": [1.0, 2.5],
    "edist": ["base", "hot", "none"],
    "comp": ["base", "alt"],
    "comp_add": ["c6hot", "d0thin"],
    "comp_clear": [None, "assign-empty"],      # composition.clear()  /  plasma.composition = []  (an electrons-only plasma, both ways)
    "geometry": ["box", "sphere"],
    "gtr": [None, 0.3],
    "integ": [0.1, 0.07],
    "ad": ["A", "B", "C"],
    "models": [["exc", "rec"], ["tcx", "brem", "trp"], ["excz"], []],
    "models_add": ["brem", "tcx", "exc"],
    "models_clear": [None],
    "ptr": [0.0, 0.8],
    "pparent": ["world", "mount"],
    "mtr": [0.0, 0.5],
    "brem_gaunt": ["provider", "own"],
    "brem_integ": ["o1", "o2"],
}

DEFAULT = dict(bfield=1.0, edist="base", comp="base", comp_over={}, geometry="box", gtr=None, integ=0.1, ad="A",
               models=["exc", "rec"], ptr=0.0, pparent="world", mtr=0.0, brem_gaunt="provider", brem_integ="o1")


def _start(**kw):
    c = copy.deepcopy(DEFAULT)
    c.update(kw)
    return c


STARTS = [
    _start(),
    _start(models=["tcx", "brem", "trp"], pparent="mount", mtr=0.5, ad="B", geometry="sphere", gtr=0.3),
    _start(models=[], comp="alt", edist="hot", ptr=0.8),
    _start(models=["excz", "brem"], bfield=2.5, integ=0.07, brem_gaunt="own", brem_integ="o2"),
]

GROUPS = {
    "placement": ["ptr", "pparent", "mtr", "gtr", "geometry", "models", "models_clear"],
    "rates": ["ad", "comp", "comp_add", "comp_clear", "edist", "bfield", "models", "models_add"],
    "brems": ["brem_gaunt", "brem_integ", "models", "models_add", "ad", "integ", "comp"],
}

_G = {}
AMU = 1.66053906660e-27


def _globals():
    if _G:
        return _G
    from raysect.core import Vector3D, Point3D
    from raysect.core.math.function.float import Arg3D, Exp3D
    from cherab.core.atomic import deuterium, carbon, Line
    from mc.refs.mockatomic import MockAD
    _G["ADS"] = {"A": MockAD(1.0), "B": MockAD(2.5),
                 "C": MockAD(1.7, raise_for=("impact_excitation_pec", "thermal_cx_pec", "continuum_radiated_power_rate", "free_free_gaunt_factor"))}
    x, y = Arg3D("x"), Arg3D("y")
    _G["dens"] = 1e19 * Exp3D(-(x * x) - 0.5 * (y * y))
    _G["DA"] = Line(deuterium, 0, (3, 2))
    _G["C87"] = Line(carbon, 5, (8, 7))
    _G["RAYS"] = [(Point3D(-5, 0.1, 0.2), Vector3D(1, 0, 0)), (Point3D(0.3, -5, -0.1), Vector3D(0, 1, 0)),
                  (Point3D(-4, -3.2, 0.4), Vector3D(0.8, 0.6, 0)), (Point3D(1.1, 0.2, -5), Vector3D(0, 0, 1))]
    _G["PTS"] = [(0.1, 0.2, 0.0), (0.7, -0.3, 0.4)]
    return _G


class Scene:
    pass


def _species_table(kind):
    """name -> (element, charge, density factor, temperature, velocity)"""
    if kind == "base":
        return {"d0": ("D", 0, 0.01, 5.0, (0, 0, 0)), "d1": ("D", 1, 0.9, 1e3, (0, 0, 0)),
                "c5": ("C", 5, 0.004, 700.0, (1e4, 0, 0)), "c6": ("C", 6, 0.012, 800.0, (2e4, 0, 1e4))}
    return {"d0": ("D", 0, 0.03, 8.0, (0, 0, 0)), "d1": ("D", 1, 0.7, 1.5e3, (0, 1e4, 0)),
            "c6": ("C", 6, 0.03, 600.0, (0, 0, 0)), "he2": ("He", 2, 0.05, 900.0, (0, 0, 0))}


_OVER = {"c6hot": ("c6", ("C", 6, 0.02, 2000.0, (0, 0, 3e4))), "d0thin": ("d0", ("D", 0, 0.002, 3.0, (0, 0, 0)))}


def _mkspecies(spec):
    from raysect.core import Vector3D
    from cherab.core import Species, Maxwellian
    from cherab.core.atomic import deuterium, carbon, helium
    el = {"D": deuterium, "C": carbon, "He": helium}[spec[0]]
    g = _globals()
    return Species(el, spec[1], Maxwellian(g["dens"] * spec[2], spec[3], Vector3D(*spec[4]), el.atomic_weight * AMU))


def _species_list(cfg):
    if cfg["comp"] == "cleared":
        tab = {}
    else:
        tab = dict(_species_table(cfg["comp"]))
    for k in sorted(cfg["comp_over"]):
        name, spec = _OVER[k]
        tab[name] = spec
    return [tab[k] for k in tab]  # insertion order: table order, then added species in order of addition


def _edist(kind):
    from raysect.core import Vector3D
    from cherab.core import Maxwellian
    g = _globals()
    if kind == "none":
        return None
    if kind == "base":
        return Maxwellian(g["dens"], 1e3, Vector3D(0, 0, 0), 9.1093837015e-31)
    return Maxwellian(g["dens"] * 1.3, 2.5e3, Vector3D(0, 0, 0), 9.1093837015e-31)


def _geometry(kind):
    from raysect.primitive import Box, Sphere
    from raysect.core import Point3D
    if kind == "box":
        return Box(Point3D(-1.5, -1.2, -1.0), Point3D(1.5, 1.2, 1.0))
    return Sphere(1.1)


def _gtr(v):
    from raysect.core import translate
    return None if v is None else translate(v, 0.1, 0)


def _mkmodel(n, cfg):
    from cherab.core.model import ExcitationLine, RecombinationLine, ThermalCXLine, Bremsstrahlung, TotalRadiatedPower
    from cherab.core.atomic import carbon
    g = _globals()
    if n == "exc":
        return ExcitationLine(g["DA"])
    if n == "excz":
        from cherab.core.model import ZeemanTriplet
        return ExcitationLine(g["DA"], lineshape=ZeemanTriplet)
    if n == "rec":
        return RecombinationLine(g["DA"])
    if n == "tcx":
        return ThermalCXLine(g["C87"])
    if n == "trp":
        return TotalRadiatedPower(carbon, 5)
    if n == "brem":
        from cherab.core.math.integrators import GaussianQuadrature
        o = 1 if cfg["brem_integ"] == "o1" else 2
        # (integrator passed to the constructor: the default GaussianQuadrature() precomputes 50 orders, 14 ms)
        m = Bremsstrahlung(integrator=GaussianQuadrature(min_order=o, max_order=o))
        _brem_apply(m, cfg)
        return m
    raise KeyError(n)


def _brem_apply(m, cfg):
    from cherab.core.math.integrators import GaussianQuadrature
    from cherab.core.atomic.gaunt import MaxwellianFreeFreeGauntFactor
    if cfg["brem_gaunt"] == "own":
        m.gaunt_factor = MaxwellianFreeFreeGauntFactor()


def build(cfg):
    from raysect.core import translate, Vector3D
    from raysect.core.scenegraph import Node
    from raysect.optical import World
    from raysect.optical.material.emitter.inhomogeneous import NumericalIntegrator
    from cherab.core import Plasma
    g = _globals()
    s = Scene()
    s.world = World()
    s.mount = Node(parent=s.world, transform=translate(cfg["mtr"], 0.05, 0))
    p = Plasma(parent=s.world if cfg["pparent"] == "world" else s.mount, transform=translate(cfg["ptr"], 0, 0.1))
    p.b_field = Vector3D(0.2 * cfg["bfield"], 0.3 * cfg["bfield"], cfg["bfield"])
    p.electron_distribution = _edist(cfg["edist"])
    p.composition = [_mkspecies(sp) for sp in _species_list(cfg)]
    p.geometry = _geometry(cfg["geometry"])
    p.geometry_transform = _gtr(cfg["gtr"])
    p.integrator = NumericalIntegrator(step=cfg["integ"])
    p.atomic_data = g["ADS"][cfg["ad"]]
    s.models = [_mkmodel(n, cfg) for n in cfg["models"]]
    p.models = s.models
    s.plasma = p
    return s


def enabled(cfg, slot, v):
    if slot == "models_add":
        return v not in cfg["models"]
    if slot in ("brem_gaunt", "brem_integ"):
        # model-level setters exist only on an attached Bremsstrahlung model; "back to provider/default" is
        # expressed by assigning None, which the setters document
        return "brem" in cfg["models"]
    if slot == "comp_add":
        return True
    return True


def apply(s, cfg, slot, v):
    from raysect.core import translate, Vector3D
    from raysect.optical.material.emitter.inhomogeneous import NumericalIntegrator
    g = _globals()
    p = s.plasma
    if slot == "bfield":
        p.b_field = Vector3D(0.2 * v, 0.3 * v, v)
        cfg[slot] = v
    elif slot == "edist":
        p.electron_distribution = _edist(v)
        cfg[slot] = v
    elif slot == "comp":
        cfg2 = dict(cfg, comp=v, comp_over={})
        p.composition = [_mkspecies(sp) for sp in _species_list(cfg2)]
        cfg["comp"], cfg["comp_over"] = v, {}
    elif slot == "comp_add":
        name, spec = _OVER[v]
        p.composition.add(_mkspecies(spec))
        cfg["comp_over"][v] = 1
    elif slot == "comp_clear":
        if v is None:
            p.composition.clear()
        else:
            p.composition = []
        cfg["comp"], cfg["comp_over"] = "cleared", {}
    elif slot == "geometry":
        p.geometry = _geometry(v)
        cfg[slot] = v
    elif slot == "gtr":
        p.geometry_transform = _gtr(v)
        cfg[slot] = v
    elif slot == "integ":
        p.integrator = NumericalIntegrator(step=v)
        cfg[slot] = v
    elif slot == "ad":
        p.atomic_data = g["ADS"][v]
        cfg[slot] = v
    elif slot == "models":
        s.models = [_mkmodel(n, cfg) for n in v]
        p.models = s.models
        cfg[slot] = list(v)
    elif slot == "models_add":
        m = _mkmodel(v, cfg)
        p.models.add(m)
        s.models = s.models + [m]
        cfg["models"] = cfg["models"] + [v]
    elif slot == "models_clear":
        p.models.clear()
        s.models = []
        cfg["models"] = []
    elif slot == "ptr":
        p.transform = translate(v, 0, 0.1)
        cfg[slot] = v
    elif slot == "pparent":
        p.parent = s.world if v == "world" else s.mount
        cfg[slot] = v
    elif slot == "mtr":
        s.mount.transform = translate(v, 0.05, 0)
        cfg[slot] = v
    elif slot == "brem_gaunt":
        from cherab.core.atomic.gaunt import MaxwellianFreeFreeGauntFactor
        for m, n in zip(s.models, cfg["models"]):
            if n == "brem":
                m.gaunt_factor = MaxwellianFreeFreeGauntFactor() if v == "own" else None
        cfg[slot] = v
    elif slot == "brem_integ":
        from cherab.core.math.integrators import GaussianQuadrature
        for m, n in zip(s.models, cfg["models"]):
            if n == "brem":
                o = 1 if v == "o1" else 2
                m.integrator = GaussianQuadrature(min_order=o, max_order=o)
        cfg[slot] = v
    else:
        raise KeyError(slot)


def observe(s):
    from raysect.optical import Ray
    g = _globals()
    p = s.plasma
    zeff, nion = [], []
    for pt in g["PTS"]:
        try:
            zeff.append(p.z_effective(*pt))
        except Exception as e:  # noqa
            zeff.append("EXC:" + type(e).__name__)
        try:
            nion.append(p.ion_density(*pt))
        except Exception as e:  # noqa
            nion.append("EXC:" + type(e).__name__)
    out = [("zeff", zeff), ("iondensity", nion)]
    for i, (o, d) in enumerate(g["RAYS"]):
        try:
            sp = Ray(origin=o, direction=d, min_wavelength=420, max_wavelength=580, bins=8).trace(s.world)
            out.append(("ray%d" % i, [float(x) for x in sp.samples]))
        except Exception as e:  # noqa
            out.append(("ray%d" % i, ["EXC:" + type(e).__name__]))
    return out
