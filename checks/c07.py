"""C07 - OpenADAS provider: rates reproduce the stored tables (after the documented unit conversion), are
non-negative, vanish for non-positive arguments, honour permit_extrapolation / missing_rates_return_null /
wavelength_element_fallback, and isotopes use their element's rates (engine L).

Every case builds a private scratch repository through cherab.openadas.repository.update_*, instantiates
OpenADAS(data_path=...) for all 8 flag combinations, calls one accessor for every element/isotope combination of
its species arguments and evaluates the returned rate on the whole lattice of mc/refs/c07_ref.lattice().
"""
import copy
import itertools
import math
import os
import shutil
import tempfile

from mc.refs import c07_ref as R

PROPERTY = "C07"
DRIVER = ("scratch repository (repository.update_*) -> OpenADAS(data_path, permit_extrapolation, missing_rates_return_null, "
          "wavelength_element_fallback) -> accessor(species...) -> rate(args)")

# ------------------------------------------------------------------------------------------------ alphabet
# kind: 2d (ne,te) | pec2d (ne,te)*hc/lambda | pec3d (ne,te,td)*hc/lambda | beam (e,n,t) sen*st/sref |
#       beampec (beam * hc/lambda) | beamcx (eb,ti,ni,z,b) | wavelength
# roles: species arguments in call order; 'ion' = carbon / carbon13, 'beam' = hydrogen / deuterium
ACC = {
    "ionisation_rate":               {"kind": "2d", "roles": ("ion",), "scale": 3.1e-15},
    "recombination_rate":            {"kind": "2d", "roles": ("ion",), "scale": 4.3e-19},
    "thermal_cx_rate":               {"kind": "2d", "roles": ("beam", "ion"), "scale": 2.7e-14},
    "line_radiated_power_rate":      {"kind": "2d", "roles": ("ion",), "scale": 5.9e-32},
    "continuum_radiated_power_rate": {"kind": "2d", "roles": ("ion",), "scale": 7.7e-35},
    "cx_radiated_power_rate":        {"kind": "2d", "roles": ("ion",), "scale": 1.3e-30},
    "impact_excitation_pec":         {"kind": "pec2d", "roles": ("ion",), "scale": 6.1e-15, "wl_role": 0},
    "recombination_pec":             {"kind": "pec2d", "roles": ("ion",), "scale": 8.3e-19, "wl_role": 0},
    "thermal_cx_pec":                {"kind": "pec3d", "roles": ("beam", "ion"), "scale": 2.9e-14, "wl_role": 1},
    "beam_stopping_rate":            {"kind": "beam", "roles": ("beam", "ion"), "scale": 9.1e-14},
    "beam_population_rate":          {"kind": "beam", "roles": ("beam", "ion"), "scale": 3.7e-3},
    "beam_emission_pec":             {"kind": "beampec", "roles": ("beam", "ion"), "scale": 4.1e-15, "wl_role": 0},
    "beam_cx_pec":                   {"kind": "beamcx", "roles": ("beam", "ion"), "scale": 5.3e-15, "wl_role": 1},
    "wavelength":                    {"kind": "wavelength", "roles": ("ion",), "wl_role": 0},
}
NOT_RATE_ACCESSORS = {"data_path"}

CHARGE, OTHER_CHARGE = 2, 3          # ion charge for the (ion, charge) families
RQ, OTHER_RQ = 6, 5                  # receiver / target charge
DQ = 0                               # donor charge
META, OTHER_META = 2, 1              # beam metastable (population); beam-CX stores both
TRANS = {"int": {"ion": (5, 3), "cx": (8, 7), "beam": (3, 2), "other": (4, 2)},
         "str": {"ion": ("2s1 3P4.0", "2S1 3s1"), "cx": ("n=8", "N=7"), "beam": ("3D", "2p"), "other": ("x", "y")}}
WL = {"ion": {"E": 529.05, "I": 541.7}, "beam": {"E": 656.28, "I": 656.10}}   # nm; element / isotope deliberately differ
DECOY = 3.0                          # isotope tables = element tables * 3 (must never be returned)

STATES_RATE = ["present", "file-absent", "key-absent", "iso-only"]
STATES_WL = ["wl-none", "wl-elem-only", "wl-iso-only"]

SHAPES = {
    "quick": {
        "2d": [(3, 4), (2, 2), (1, 3), (3, 1), (1, 1)],
        "pec3d": [(3, 4, 2), (2, 2, 2), (1, 3, 2), (3, 1, 2), (2, 2, 1), (1, 1, 1)],
        "beam": [(3, 4, 3), (2, 2, 2), (1, 3, 2), (3, 1, 2), (1, 1, 2), (2, 2, 1), (1, 1, 1)],
        "beamcx": [(3, 3, 3, 3, 3)] + [s for s in itertools.product((2, 1), repeat=5)],
    },
    "thorough": {
        "2d": [(3, 4), (2, 2), (1, 3), (3, 1), (1, 1), (2, 3), (4, 2), (5, 4), (1, 2), (2, 1), (5, 1), (1, 5)],
        "pec3d": [(3, 4, 2), (2, 2, 2), (1, 3, 2), (3, 1, 2), (2, 2, 1), (1, 1, 1), (2, 3, 3), (4, 3, 3), (1, 1, 2), (1, 2, 1),
                  (2, 1, 1), (3, 3, 4), (5, 2, 2)],
        "beam": [(3, 4, 3), (2, 2, 2), (1, 3, 2), (3, 1, 2), (1, 1, 2), (2, 2, 1), (1, 1, 1), (2, 3, 3), (4, 2, 2), (5, 4, 4),
                 (1, 2, 3), (2, 1, 3), (1, 1, 3), (3, 3, 1), (1, 5, 2), (5, 1, 2)],
        "beamcx": [(3, 3, 3, 3, 3)] + [s for s in itertools.product((2, 1), repeat=5)]
                  + [s for s in itertools.product((3, 2, 1), repeat=5) if 3 in s and s != (3, 3, 3, 3, 3)] + [(4, 4, 4, 4, 4)],
    },
}
VARIANTS = {"quick": ["awk", "ulp"], "thorough": ["awk", "ulp", "dec", "tight"]}
TRVARS = {"quick": ["int"], "thorough": ["int", "str"]}

ALPHABET = {
    "accessors": sorted(ACC),
    "flags": "(permit_extrapolation, missing_rates_return_null, wavelength_element_fallback) in {F,T}^3",
    "species": "every species argument in {element, isotope}: ion role carbon/carbon13, beam/donor role hydrogen/deuterium",
    "repository states": STATES_RATE + STATES_WL + ["(wavelength accessor) present/file-absent/wl-*"],
    "table shapes": {t: {k: [list(s) for s in v] if k != "beamcx" else "%d shapes over axis lengths" % len(v) for k, v in SHAPES[t].items()} for t in SHAPES},
    "grids": {"awk": "awkward mantissas", "dec": "exact decades", "tight": "nodes 1-5% apart",
              "ulp": "awk with end nodes moved to values where numpy.log10 and libm log10 differ by 1 ulp in the outward direction"},
    "evaluation points": "every node; geometric cell midpoints; each density/temperature/energy argument in {0,-1}; each multi-point "
                         "axis at min/10, min/1.001, max*1.001, max*10; single-point axes a decade off their node",
    "isotope decoys": "in state 'present' every isotope-keyed slot holds the element table * 3 (must never be returned)",
}
BOUND = {"quick": "all accessors x 8 flag triples x all element/isotope combinations x quick shapes x grid 'awk' x all repository states (complete)",
         "thorough": "as quick with the thorough shape lists (beam CX: every shape over axis lengths {1,2,3}), grids awk/dec/tight, "
                     "integer and string transitions (complete)"}
RULE = ("one case per (accessor, table shape, grid variant, transition style, repository state); inside a case every flag triple x species "
        "combination is one accessor call whose result is evaluated on the whole lattice; a sub-case is non-trivial when the accessor was "
        "really invoked against a populated scratch repository and its outcome class (rate / null / exception) was compared with the model: "
        "key = (accessor, shape, grid variant, transition style, state, flags, species combination, expected class, observed class)")
ASSUMPTIONS = [
    "repository.update_* stores what it is given (that is C06); payloads carry both 'rate' and 'rates' keys for the ADF11-like families because "
    "_update_and_write_adf11 reads 'rates' while its docstring says 'rate'",
    "h = 6.62607015e-34 J s, c = 299792458 m/s (exact SI); grid-point tolerance rel 1e-9 (log10 / 10** round trip costs < 1e-13 for |log10 v| < 60)",
    "range policy is demanded on axes with >= 2 nodes; on a single-point axis (beam / beam-CX classes treat the rate as independent of that "
    "argument) a value off the node may either raise ValueError or return a finite non-negative value",
    "when only the wavelength is missing and null rates were requested, RuntimeError and an all-zero rate are both accepted (the statement does "
    "not say whether a wavelength is 'data'); without null rates RuntimeError is demanded",
    "z_effective and b_field are not density/temperature/energy arguments: no zero-guard is demanded for them",
]
REQUIRED_CLASSES = (["acc:" + a for a in sorted(ACC)] + ["state:" + s for s in STATES_RATE + STATES_WL]
                    + ["rate-built", "rate-built:isotope-request", "missing:raised-RuntimeError", "missing:null-rate-zero", "grid-point:ok",
                       "inside:ok", "nonpositive:zero", "outside:raised-ValueError", "outside:extrapolated-finite", "offnode:evaluated",
                       "wavelength:fallback-to-element", "wavelength:isotope-own", "wl-missing:raised-RuntimeError",
                       "shape:2d:NxN", "shape:beam:1xNxN", "shape:beamcx:1x1x1x1x1", "accessor-list-complete"])
BUDGET_S = {"quick": 150, "thorough": 1200}
CHUNK = 2
STATES_MEANING = "distinct (accessor, shape, grid, transition style, state, flags, species combination) lattice points"

ARGNAMES = {
    "2d": ("density", "temperature"), "pec2d": ("density", "temperature"),
    "pec3d": ("electron_density", "electron_temperature", "donor_temperature"),
    "beam": ("energy", "density", "temperature"), "beampec": ("energy", "density", "temperature"),
    "beamcx": ("energy", "temperature", "density", "z_effective", "b_field"),
}
POSITIVE_ARGS = {"2d": (0, 1), "pec2d": (0, 1), "pec3d": (0, 1, 2), "beam": (0, 1, 2), "beampec": (0, 1, 2), "beamcx": (0, 1, 2)}


def _single_label(kind, shape):
    """class label of a table shape for construction failures: which call site handles (or not) a single-point axis.
    The (ne,te[,td]) families hand all axes to one raysect InterpolatorND; the beam families treat (e,n) and t separately."""
    if all(s > 1 for s in shape):
        return "multi-point-axes"
    if kind in ("beam", "beampec"):
        return "single-point-axis:t" if shape[2] == 1 else "single-point-axis:e/n"
    return "single-point-axis"


def _shape_kind(kind):
    return {"pec2d": "2d", "beampec": "beam"}.get(kind, kind)


# ------------------------------------------------------------------------------------------------ cases
def cases(tier):
    out = []
    for tr in TRVARS[tier]:
        for var in VARIANTS[tier]:
            for acc in sorted(ACC):
                spec = ACC[acc]
                kind = spec["kind"]
                if kind == "wavelength":
                    if var != VARIANTS[tier][0]:
                        continue
                    for st in ["present", "file-absent"] + STATES_WL:
                        out.append({"acc": acc, "shape": [], "var": var, "tr": tr, "state": st, "label": acc + ":" + st})
                    continue
                shapes = SHAPES[tier][_shape_kind(kind)]
                # the outcome of the missing-data / wavelength states does not depend on the table shape: multi-point shapes only
                multi = [sh for sh in shapes if all(x > 1 for x in sh)]
                nshort = 1 if tier == "quick" else 3
                for sh in shapes:
                    out.append({"acc": acc, "shape": list(sh), "var": var, "tr": tr, "state": "present", "label": acc + ":present"})
                for st in STATES_RATE[1:]:
                    for sh in multi[:nshort]:
                        out.append({"acc": acc, "shape": list(sh), "var": var, "tr": tr, "state": st, "label": acc + ":" + st})
                if "wl_role" in spec:
                    for st in STATES_WL:
                        for sh in multi[:nshort + 1]:
                            out.append({"acc": acc, "shape": list(sh), "var": var, "tr": tr, "state": st, "label": acc + ":" + st})
    return out


def crash_label(case):
    return "%s:%s" % (case["acc"], case["state"])


# ------------------------------------------------------------------------------------------------ driver helpers
def _species():
    from cherab.core.atomic import elements as em
    return {"ion": {"E": em.carbon, "I": em.carbon13}, "beam": {"E": em.hydrogen, "I": em.deuterium}}


def _payload(kind, shape, var, scale, factor, salt=0):
    if kind in ("2d", "pec2d"):
        p = R.payload_2d(shape, var, scale, factor, salt)
    elif kind == "pec3d":
        p = R.payload_3d(shape, var, scale, factor, salt)
    elif kind in ("beam", "beampec"):
        p = R.payload_beam(shape, var, scale, factor, salt)
    else:
        p = R.payload_beamcx(shape, var, scale, factor, salt)
    return p


def _grids(kind, p):
    if kind in ("2d", "pec2d"):
        return [p["ne"], p["te"]]
    if kind == "pec3d":
        return [p["ne"], p["te"], p["td"]]
    if kind in ("beam", "beampec"):
        return [p["e"], p["n"], p["t"]]
    return [p["eb"], p["ti"], p["ni"], p["z"], p["b"]]


def _expected(kind, p, idx, conv):
    if kind in ("2d", "pec2d", "pec3d"):
        return R.expected_2d(p, idx, conv)
    if kind in ("beam", "beampec"):
        return R.expected_beam(p, idx, conv)
    return R.expected_beamcx(p, idx, conv)


def _copy(p):
    """fresh deep copy (update_* functions convert the caller's lists in place)"""
    out = copy.deepcopy(p)
    if "rate" in out:
        out["rates"] = out["rate"]   # see ASSUMPTIONS
    return out


def _write(acc, repo, sp, payload, tr, key="req"):
    """store `payload` for accessor family `acc` under species objects sp (tuple in role order);
    key='req' -> the key the check will request, 'other' -> a sibling key in the same file / directory"""
    from cherab.openadas import repository as rp
    t = TRANS[tr]
    other = key == "other"
    q = OTHER_CHARGE if other else CHARGE
    rq = OTHER_RQ if other else RQ
    if acc == "ionisation_rate":
        rp.update_ionisation_rates({sp[0]: {q: _copy(payload)}}, repository_path=repo)
    elif acc == "recombination_rate":
        rp.update_recombination_rates({sp[0]: {q: _copy(payload)}}, repository_path=repo)
    elif acc == "thermal_cx_rate":
        rp.update_thermal_cx_rates({sp[0]: {DQ: {sp[1]: {rq: _copy(payload)}}}}, repository_path=repo)
    elif acc == "line_radiated_power_rate":
        rp.update_line_power_rates({sp[0]: {q: _copy(payload)}}, repository_path=repo)
    elif acc == "continuum_radiated_power_rate":
        rp.update_continuum_power_rates({sp[0]: {q: _copy(payload)}}, repository_path=repo)
    elif acc == "cx_radiated_power_rate":
        rp.update_cx_power_rates({sp[0]: {q: _copy(payload)}}, repository_path=repo)
    elif acc == "impact_excitation_pec":
        rp.update_pec_rates({"excitation": {sp[0]: {CHARGE: {(t["other"] if other else t["ion"]): _copy(payload)}}}}, repository_path=repo)
    elif acc == "recombination_pec":
        rp.update_pec_rates({"recombination": {sp[0]: {CHARGE: {(t["other"] if other else t["ion"]): _copy(payload)}}}}, repository_path=repo)
    elif acc == "thermal_cx_pec":
        rp.update_pec_thermal_cx_rates({sp[0]: {DQ: {sp[1]: {RQ: {(t["other"] if other else t["cx"]): _copy(payload)}}}}}, repository_path=repo)
    elif acc == "beam_stopping_rate":
        rp.update_beam_stopping_rates({sp[0]: {sp[1]: {rq: _copy(payload)}}}, repository_path=repo)
    elif acc == "beam_population_rate":
        rp.update_beam_population_rates({sp[0]: {(OTHER_META if other else META): {sp[1]: {RQ: _copy(payload)}}}}, repository_path=repo)
    elif acc == "beam_emission_pec":
        rp.update_beam_emission_rates({sp[0]: {sp[1]: {RQ: {(t["other"] if other else t["beam"]): _copy(payload)}}}}, repository_path=repo)
    elif acc == "beam_cx_pec":
        # payload is {metastable: rate}
        rp.update_beam_cx_rates({sp[0]: {sp[1]: {RQ: {(t["other"] if other else t["cx"]): {m: _copy(r) for m, r in payload.items()}}}}}, repository_path=repo)
    else:
        raise AssertionError(acc)


def _wl_line(acc, tr):
    """(role, charge, transition) of the line whose wavelength converts photons to watts"""
    t = TRANS[tr]
    return {"impact_excitation_pec": ("ion", CHARGE, t["ion"]), "recombination_pec": ("ion", CHARGE, t["ion"]),
            "thermal_cx_pec": ("ion", RQ - 1, t["cx"]), "beam_cx_pec": ("ion", RQ - 1, t["cx"]),
            "beam_emission_pec": ("beam", 0, t["beam"]), "wavelength": ("ion", CHARGE, t["ion"])}[acc]


def _call(acc, ad, sp, tr):
    t = TRANS[tr]
    if acc in ("ionisation_rate", "recombination_rate", "line_radiated_power_rate", "continuum_radiated_power_rate", "cx_radiated_power_rate"):
        return getattr(ad, acc)(sp[0], CHARGE)
    if acc == "thermal_cx_rate":
        return ad.thermal_cx_rate(sp[0], DQ, sp[1], RQ)
    if acc in ("impact_excitation_pec", "recombination_pec"):
        return getattr(ad, acc)(sp[0], CHARGE, t["ion"])
    if acc == "thermal_cx_pec":
        return ad.thermal_cx_pec(sp[0], DQ, sp[1], RQ, t["cx"])
    if acc == "beam_stopping_rate":
        return ad.beam_stopping_rate(sp[0], sp[1], RQ)
    if acc == "beam_population_rate":
        return ad.beam_population_rate(sp[0], META, sp[1], RQ)
    if acc == "beam_emission_pec":
        return ad.beam_emission_pec(sp[0], sp[1], RQ, t["beam"])
    if acc == "beam_cx_pec":
        return ad.beam_cx_pec(sp[0], sp[1], RQ, t["cx"])
    if acc == "wavelength":
        return ad.wavelength(sp[0], CHARGE, t["ion"])
    raise AssertionError(acc)


def _scratch():
    base = os.environ.get("VERIF_SCRATCH")
    if not base or not os.path.isdir(base):
        base = "/dev/shm" if os.path.isdir("/dev/shm") else None
    return tempfile.mkdtemp(prefix="c07_", dir=base)


def _close(a, b, rtol=1e-9):
    return abs(a - b) <= rtol * max(abs(a), abs(b))


# ------------------------------------------------------------------------------------------------ the check
def run_case(case):
    repo = _scratch()
    try:
        return _run(case, repo)
    finally:
        shutil.rmtree(repo, ignore_errors=True)


def _run(case, repo):
    from cherab.openadas import OpenADAS
    from cherab.openadas import repository as rp

    acc, shape, var, tr, state = case["acc"], tuple(case["shape"]), case["var"], case["tr"], case["state"]
    spec = ACC[acc]
    kind, roles = spec["kind"], spec["roles"]
    SP = _species()
    viol, classes, states, nontrivial = [], [], [], []
    cnt = {"n": 0, "tr": 0}
    outcome = []

    def V(sig, what, expected, observed):
        viol.append({"sig": "C07:" + sig, "what": what, "expected": expected, "observed": observed})

    classes.append("acc:" + acc)
    if state in STATES_RATE + STATES_WL:
        classes.append("state:" + state)

    # the accessor list of the implementation is covered completely (a new accessor must get a spec)
    public = sorted(m for m in vars(OpenADAS) if not m.startswith("_") and m not in NOT_RATE_ACCESSORS)
    if public == sorted(ACC):
        classes.append("accessor-list-complete")
    else:
        V("accessor-list:not-covered", "public OpenADAS methods differ from the check's accessor table", sorted(ACC), public)

    combos = list(itertools.product("EI", repeat=len(roles)))
    allE = tuple("E" for _ in roles)

    # ---------------------------------------------------------------- populate the scratch repository
    wl_present = {}        # (role, 'E'|'I') -> stored wavelength of the accessor's line
    if "wl_role" in spec:
        wrole, wq, wtr = _wl_line(acc, tr)
        have = {"present": "EI", "file-absent": "" if kind == "wavelength" else "EI", "key-absent": "EI", "iso-only": "EI",
                "wl-none": "", "wl-elem-only": "E", "wl-iso-only": "I"}[state]
        for c in "EI":
            o = SP[wrole][c]
            if c in have:
                rp.update_wavelengths({o: {wq: {wtr: WL[wrole][c]}}}, repository_path=repo)
                wl_present[c] = WL[wrole][c]
            elif not (kind == "wavelength" and state == "file-absent"):
                # the file exists but holds another transition only
                rp.update_wavelengths({o: {wq: {TRANS[tr]["other"]: 111.1}}}, repository_path=repo)
        # decoys: wavelengths of the *other* role's species for the same charge/transition must never be used
        for r2 in set(roles) - {wrole}:
            for c in "EI":
                if wq <= SP[r2][c].atomic_number:
                    rp.update_wavelengths({SP[r2][c]: {wq: {wtr: 987.6}}}, repository_path=repo)

    payload = None
    if kind != "wavelength":
        scale = spec["scale"]
        if kind == "beamcx":
            payload = {m: _payload(kind, shape, var, scale, 1.0, salt=m) for m in (1, 2)}
            decoy = {m: _payload(kind, shape, var, scale, DECOY, salt=m) for m in (1, 2)}
            otherp = {1: _payload(kind, shape, var, scale, 7.0, salt=9)}
        else:
            payload = _payload(kind, shape, var, scale, 1.0)
            decoy = _payload(kind, shape, var, scale, DECOY)
            otherp = _payload(kind, shape, var, scale, 7.0, salt=9)
        data_state = "present" if state in STATES_WL else state
        for combo in combos:
            sp = tuple(SP[r][c] for r, c in zip(roles, combo))
            if combo == allE:
                if data_state == "present":
                    _write(acc, repo, sp, payload, tr)
                    _write(acc, repo, sp, otherp, tr, key="other")
                elif data_state == "key-absent":
                    _write(acc, repo, sp, otherp, tr, key="other")
            else:
                if data_state in ("present", "iso-only"):
                    _write(acc, repo, sp, decoy, tr)

    # ---------------------------------------------------------------- model of the expected outcome
    def model(combo, w):
        """-> ('missing',) | ('wl-missing',) | ('rate', conv, other_conv, wavelength source) | ('wavelength', value, source)"""
        if kind != "wavelength" and state in ("file-absent", "key-absent", "iso-only"):
            return ("missing",)
        lam, src = None, None
        if "wl_role" in spec:
            c = combo[spec["wl_role"]]
            if c in wl_present:
                lam = wl_present[c]
                src = "wavelength:isotope-own" if c == "I" else "wavelength:element-own"
            elif c == "I" and w and "E" in wl_present:
                lam = wl_present["E"]
                src = "wavelength:fallback-to-element"
            else:
                return ("wl-missing",)
        if kind == "wavelength":
            return ("wavelength", lam, src)
        if lam is None:
            return ("rate", 1.0, None, None)
        wrole = _wl_line(acc, tr)[0]
        other = WL[wrole]["I" if lam == WL[wrole]["E"] else "E"]
        return ("rate", R.photon_to_watt(lam), R.photon_to_watt(other), src)

    shcls = "shape:%s:%s" % (_shape_kind(kind), R.shape_class(shape)) if kind != "wavelength" else "shape:none"
    classes.append(shcls)

    def evaluate(rate, args):
        cnt["n"] += 1
        try:
            v = rate(*args)
        except Exception as e:  # noqa
            return None, type(e).__name__
        return float(v), None

    def check_null(rate, p, tag, sigkind):
        """a null rate returns exactly 0.0 on the whole lattice"""
        bad = None
        for k, lab, args, idx in R.lattice(_grids(kind, p), POSITIVE_ARGS[kind]):
            v, exc = evaluate(rate, args)
            if exc is not None or v != 0.0:
                bad = (k, list(args), exc if exc else v)
                break
        if bad:
            V("%s:%s:null-rate-not-zero" % (acc, sigkind), "%s: null rate evaluated at a %s point" % (tag, bad[0]), 0.0, {"args": bad[1], "observed": bad[2]})
            return False
        return True

    def check_rate(rate, p, conv, other_conv, extrap, combo, tag):
        grids = _grids(kind, p)
        names = ARGNAMES[kind]
        req = "isotope-request" if "I" in combo else "element-request"
        seen = set()
        for k, lab, args, idx in R.lattice(grids, POSITIVE_ARGS[kind]):
            v, exc = evaluate(rate, args)
            if k == "grid":
                exp = _expected(kind, p, idx, conv)
                if exc is not None:
                    edge = any(len(g) > 1 and i in (0, len(g) - 1) for g, i in zip(grids, idx))
                    ulp = any(len(g) > 1 and ((i == 0 and R.log10_class(g[i]) == "np>libm") or (i == len(g) - 1 and R.log10_class(g[i]) == "np<libm"))
                              for g, i in zip(grids, idx))
                    where = ("end-node:numpy-log10-differs-from-libm" if ulp else "end-node") if edge else "interior-node"
                    V("%s:grid-point:%s:raises:%s" % (acc, where, exc), "%s: evaluating at node %s" % (tag, list(args)), exp, exc)
                elif not (_close(v, exp)):
                    why = "value"
                    if exp > 0 and v > 0:
                        r = v / exp
                        if other_conv is not None and _close(r, other_conv / conv, 1e-7):
                            why = "converted-with-other-species-wavelength"
                        elif _close(r, DECOY, 1e-7):
                            why = "isotope-keyed-table-used"
                    V("%s:grid-point:%s:%s" % (acc, req, why), "%s: value at node %s" % (tag, list(args)), exp, v)
                else:
                    seen.add("grid-point:ok")
            elif k == "inside":
                if exc is not None:
                    V("%s:inside:raises:%s" % (acc, exc), "%s: cell midpoint %s" % (tag, list(args)), "finite value >= 0", exc)
                elif not math.isfinite(v) or v < 0:
                    V("%s:inside:%s" % (acc, "negative" if v < 0 else "nonfinite"), "%s: cell midpoint %s" % (tag, list(args)), "finite value >= 0", v)
                else:
                    seen.add("inside:ok")
            elif k == "nonpos":
                if exc is not None or v != 0.0:
                    V("%s:nonpositive:%s:not-zero" % (acc, names[lab]), "%s: %s = %r (args %s)" % (tag, names[lab], args[lab], list(args)), 0.0, exc if exc else v)
                else:
                    seen.add("nonpositive:zero")
            elif k == "outside":
                a, side, dist = lab
                where = "%s:%s" % (names[a], side)     # near/far (x1.001 / x10 beyond the end) is reported in `what` only
                tag_o = "%s: %s beyond the %s end, args %s" % (tag, "x1.001" if dist == "near" else "x10", "low" if side == "lo" else "high", list(args))
                if not extrap:
                    if exc is None:
                        V("%s:outside:%s:not-permitted:no-raise" % (acc, where), tag_o, "ValueError", v)
                    elif exc != "ValueError":
                        V("%s:outside:%s:not-permitted:raises:%s" % (acc, where, exc), tag_o, "ValueError", exc)
                    else:
                        seen.add("outside:raised-ValueError")
                else:
                    if exc is not None:
                        V("%s:outside:%s:permitted:raises:%s" % (acc, where, exc), tag_o, "finite value >= 0", exc)
                    elif not math.isfinite(v) or v < 0:
                        V("%s:outside:%s:permitted:%s" % (acc, where, "negative" if v < 0 else "nonfinite"), tag_o, "finite value >= 0", v)
                    else:
                        seen.add("outside:extrapolated-finite")
            else:  # offnode (single-point axis): see ASSUMPTIONS
                if exc is not None:
                    if exc != "ValueError" or extrap:
                        V("%s:offnode:%s:raises:%s" % (acc, names[lab], exc), "%s: args %s" % (tag, list(args)), "value or (not permitted) ValueError", exc)
                elif not math.isfinite(v) or v < 0:
                    V("%s:offnode:%s:%s" % (acc, names[lab], "negative" if v < 0 else "nonfinite"), "%s: args %s" % (tag, list(args)), "finite value >= 0", v)
                seen.add("offnode:evaluated")
        classes.extend(sorted(seen))

    # ---------------------------------------------------------------- exploration
    for e, n, w in itertools.product((False, True), repeat=3):
        ad = OpenADAS(data_path=repo, permit_extrapolation=e, missing_rates_return_null=n, wavelength_element_fallback=w)
        if ad.data_path != repo:
            V("data_path:not-honoured", "OpenADAS(data_path=...).data_path", "the scratch repository", "another path")
        for combo in combos:
            sp = tuple(SP[r][c] for r, c in zip(roles, combo))
            tag = "%s(%s) state=%s shape=%s e=%d n=%d w=%d" % (acc, ",".join(o.name for o in sp), state, "x".join(map(str, shape)), e, n, w)
            m = model(combo, w)
            cnt["tr"] += 1
            try:
                res, exc, msg = _call(acc, ad, sp, tr), None, None
            except Exception as ex:  # noqa
                res, exc, msg = None, type(ex).__name__, str(ex).replace(repo, "<repo>")[:200]
            states.append((acc, shape, var, tr, state, e, n, w, combo))
            okind = "raises:" + exc if exc else "returned"
            nontrivial.append((acc, shape, var, tr, state, e, n, w, combo, m[0], okind))
            outcome.append((combo, e, n, w, m[0], okind))

            if m[0] == "wavelength":
                if exc is not None:
                    V("wavelength:present:raises:%s" % exc, tag, m[1], exc + ": " + msg)
                elif res != m[1]:
                    why = "element-value-for-isotope" if combo == ("I",) and res == WL["ion"]["E"] else ("isotope-value-for-element" if res == WL["ion"]["I"] else "value")
                    V("wavelength:%s" % why, tag, m[1], res)
                else:
                    classes.append("wavelength-returned")
                    classes.append(m[2])
                continue

            if m[0] == "missing" or m[0] == "wl-missing":
                sigkind = "missing" if m[0] == "missing" else "wavelength-missing:" + ("isotope-request" if "I" in combo else "element-request")
                if kind == "wavelength" or not n:
                    if exc == "RuntimeError":
                        classes.append("missing:raised-RuntimeError" if m[0] == "missing" else "wl-missing:raised-RuntimeError")
                    elif exc is None:
                        V("%s:%s:no-raise" % (acc, sigkind), tag, "RuntimeError", repr(res)[:120])
                    else:
                        V("%s:%s:raises:%s" % (acc, sigkind, exc), tag, "RuntimeError", exc + ": " + msg)
                    continue
                # null rates requested
                if exc is not None:
                    if m[0] == "wl-missing" and exc == "RuntimeError":
                        classes.append("wl-missing:null-requested:raised-RuntimeError")
                        continue
                    V("%s:%s+null:raises:%s" % (acc, sigkind, exc), tag, "a rate that is zero everywhere", exc + ": " + msg)
                    continue
                ref_p = payload if kind != "beamcx" else payload[1]
                rates = res if kind == "beamcx" else [res]
                if kind == "beamcx" and (not isinstance(res, (list, tuple)) or len(res) < 1):
                    V("%s:%s+null:not-a-list-of-rates" % (acc, sigkind), tag, "list of null rates", repr(res)[:120])
                    continue
                if all([check_null(r, ref_p, tag, sigkind + "+null") for r in rates]):
                    classes.append("missing:null-rate-zero" if m[0] == "missing" else "wl-missing:null-requested:null-rate-zero")
                continue

            # m[0] == 'rate'
            _, conv, other_conv, src = m
            if exc is not None:
                req = "isotope-request" if "I" in combo else "element-request"
                if exc == "RuntimeError":
                    # the provider says 'data missing' although table and wavelength of the requested species are stored
                    V("%s:%s:data-present:state=%s:raises:RuntimeError" % (acc, req, state), tag, "a rate object", exc + ": " + msg)
                else:
                    V("%s:%s:construct:%s" % (acc, _single_label(kind, shape), exc), tag, "a rate object", exc + ": " + msg)
                continue
            classes.append("rate-built")
            if "I" in combo:
                classes.append("rate-built:isotope-request")
            if src:
                classes.append(src)
            if kind == "beamcx":
                got = {}
                ok = isinstance(res, (list, tuple))
                if ok:
                    for r in res:
                        got[getattr(r, "donor_metastable", None)] = r
                if not ok or sorted(got) != sorted(payload) or len(res) != len(payload):
                    V("beam_cx_pec:metastables:mismatch", tag, sorted(payload), sorted(map(repr, got)) if ok else repr(res)[:100])
                    continue
                for mm in sorted(payload):
                    check_rate(got[mm], payload[mm], conv, other_conv, e, combo, tag + " metastable=%d" % mm)
            else:
                check_rate(res, payload, conv, other_conv, e, combo, tag)

    return {"viol": viol, "classes": classes, "outcome": tuple(outcome), "n": max(cnt["n"] + cnt["tr"], 1), "states": states,
            "transitions": cnt["n"] + cnt["tr"], "nontrivial": nontrivial}
