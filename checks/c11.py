"""C11 - inversion solvers (engine L, with the SART iteration explored as a history of single steps).

SART / constrained SART: every call of the real (Cython) solver is compared with ``mc/refs/sart.py`` - a numpy
transcription of the *documented* update rule - after 1, 2, 3, ... iterations (the iteration count is driven through
``max_iterations`` and ``conv_tol``), including the convergence list and the stopping index.  NNLS / LSQ / SVD: the
returned vector is certified as a minimiser (KKT / normal equations / exact rational Moore-Penrose solution) and the
reported residual norm is recomputed from the returned vector.  See ``mc/refs/lsq_cert.py``.
"""
import itertools

PROPERTY = "C11"
DRIVER = ("inversions: every small integer geometry matrix x every measurement vector x solver parameters -> one call of "
          "invert_sart / invert_constrained_sart / invert_regularised_nnls / invert_regularised_lstsq / invert_svd each")

SHAPES_QUICK = [(1, 1), (1, 2), (2, 1), (2, 2), (2, 3), (3, 2)]
SHAPES_THOROUGH_EXTRA = [(1, 3), (3, 1)]
ENTRIES = {"quick": (0, 1, 2), "thorough": (0, 1, 2, 5)}
B_SART = (0, 1, 3)
B_LSQ = (0, 1, 3, -1)
X0_KINDS = ("none", "zero", "one", "array")
X0_ARRAY = (2.0, 0.0, 1.0)          # array initial guess (first n entries): distinct values, one exact zero
RELAX = {"quick": (0.5, 1.0), "thorough": (0.5, 1.0)}
RELAX_SMALL_EXTRA = {"quick": (), "thorough": (1.5,)}          # over-relaxation, only for W with <= 4 entries
MAX_ITER = {"quick": (1, 2, 3, 7), "thorough": (0, 1, 2, 3, 4, 7, 12)}
CONV_TOL = (1e-4, 1e-12)
# (beta_laplace, laplacian) pairs of the constrained solver
# ("1.5", "path"): a penalty strong enough to drive cells negative (x_j - beta (Lx)_j < 0), so that the zero clip is exercised
# for observed and for unobserved (zero column) cells alike
CONSTR = {"quick": (("0", "path"), ("0.1", "path"), ("0.1", "zeros"), ("1.5", "path")),
          "thorough": (("0", "path"), ("0.1", "path"), ("0.1", "zeros"), ("1.5", "path"), ("0", "zeros"))}
ALPHA = {"quick": (0.01, 1.0), "thorough": (0.01, 1.0, 10.0)}
UNIT_SCALE = 2.0 ** -40       # ~9.1e-13: geometry matrix and measurements in other units
TIKHONOV = ("identity(None)", "second-difference(singular)", "first-cell-only(diag(1,0,..), singular)", "forward-difference(non-symmetric, L^T L != L L^T)")
# reduced parameter product used only for the 3x3 matrices of the thorough tier
REDUCED = {"x0": ("none", "array"), "relax": (0.5, 1.0), "stops": ((1, 1e-4), (3, 1e-4), (7, 1e-4), (12, 1e-12)),
           "constr": (("0.1", "path"), ("1.5", "path"))}

ALPHABET = {
    "W": "all matrices of the listed shapes with entries in the listed set (zero rows/columns, rank deficiency included)",
    "shapes": {"quick": SHAPES_QUICK, "thorough": SHAPES_QUICK + SHAPES_THOROUGH_EXTRA + [(3, 3)]},
    "entries": {"quick": ENTRIES["quick"], "thorough": "%s (3x3: %s)" % (ENTRIES["thorough"], ENTRIES["quick"])},
    "b (SART family)": B_SART, "b (NNLS/LSQ/SVD)": B_LSQ,
    "initial_guess": {"none": "None (default seed, read back from a call with an all-zero matrix)", "zero": 0.0,
                      "one": "int 1", "array": X0_ARRAY, "fixed-point family": "x* in {0,1,2}^n \\ {0} with b = W x*"},
    "relaxation": {"all": RELAX, "extra for W with <= 4 entries": RELAX_SMALL_EXTRA}, "max_iterations": MAX_ITER, "conv_tol": CONV_TOL,
    "(beta_laplace, laplacian)": {"W with <= 4 entries": CONSTR, "larger W": CONSTR["quick"]}, "alpha": {"W with <= 6 entries": ALPHA, "3x3": ALPHA["quick"]}, "tikhonov_matrix": TIKHONOV,
    "3x3 (thorough) reduced product": REDUCED,
}
BOUND = {
    "quick": "all W of shapes <= 6 entries over {0,1,2}; full parameter product; SART followed for up to 7 iterations",
    "thorough": "all W of shapes <= 6 entries (plus 1x3, 3x1) over {0,1,2,5} with the full parameter product, max_iterations 0..12, "
                "all four (beta, L) pairs and relaxation 1.5 for W with <= 4 entries, alpha 10; all 3x3 W over {0,1,2} with the reduced "
                "product (SART family) / quick alpha set and all Tikhonov matrices (NNLS, LSQ, SVD)",
}
RULE = ("one case per (family, W); inside a case every measurement vector and every parameter combination is executed on the "
        "real solver.  A lattice point (family, W, b) is non-trivial when the solver has work to do: SART family - the first "
        "documented update moves the iterate for some parameter set; LSQ family - the certified minimiser is not the zero vector "
        "or the call raised")
STATES_MEANING = "distinct (family, W, b) lattice points; transitions = calls of the real solvers"
ASSUMPTIONS = [
    "docstring phrase 'normalised squared difference between the measurement and solution vectors' is read as "
    "(|b|^2-|Wx|^2)/|b|^2 and the stopping rule as |c_k-c_(k-1)| < conv_tol checked from the 2nd iteration on (same wording and "
    "formula in the OpenCL variant); the literal reading |b-Wx|^2/|b|^2 is not enforced",
    "0/0 forms of the documented SART formula: empty rays contribute nothing, cells crossed by no ray get no SART correction",
    "the undocumented default seed (initial_guess=None) is whatever the solver returns for an all-zero geometry matrix after one "
    "iteration (no cell is updated by the rule); it must be a finite uniform non-negative vector",
    "arrays are passed as C-contiguous float64 (dtype / layout coercion of the Cython memoryviews is not part of C11)",
    "float comparison: |x-x_ref| <= 1e-12*(1+scale of the trajectory), convergence values 1e-11*(1+|c|); gradients 1e-9 (see lsq_cert)",
    "measurements are non-negative for the SART family (the LSQ family also sees -1)",
    "numpy.linalg.lstsq returns an empty residual array for a rank-deficient stacked matrix: counted as class "
    "'lstsq:residual-not-reported', not as a violation (nothing is reported that could be inconsistent)",
]
REQUIRED_CLASSES = [
    "sart:weights-in-other-units", "sart:W=0", "sart:zero-col", "sart:zero-row", "sart:rank-deficient", "sart:full-rank", "sart:underdetermined",
    "sart:overdetermined", "sart:b=0", "sart:clip-active", "sart:stopped-early", "sart:ran-to-max", "sart:x0=none",
    "sart:x0=zero", "sart:x0=one", "sart:x0=array", "sart:fixed-point", "sart:fixed-point:laplacian-active",
    "csart:beta>0:L=path", "csart:beta=0", "csart:L=zeros", "csart:penalty-changes-iterate",
    "lsq:b<=0", "lsq:WTb=0", "lsq:b-mixed-sign", "lsq:b>=0", "lsq:C-rank-deficient", "lsq:C-full-rank", "nnls:constraint-active",
    "nnls:interior", "lstsq:negative-component", "lstsq:residual-reported", "lstsq:residual-not-reported",
    "svd:rank-deficient", "svd:full-rank",
]
# safety caps only (the machine is shared): nominal cost is ~0.4 k core-s (quick) / ~7 k core-s (thorough),
# i.e. ~30 s / ~7 min on 16 free cores
BUDGET_S = {"quick": 1800, "thorough": 7200}
CHUNK = 2

_K = {"quick": 7, "thorough": 12}


def _matrices(shape, entries):
    m, n = shape
    for flat in itertools.product(entries, repeat=m * n):
        yield [list(flat[i * n:(i + 1) * n]) for i in range(m)]


def cases(tier):
    out = []
    if tier == "quick":
        plan = [(s, ENTRIES["quick"], "full") for s in SHAPES_QUICK]
    else:
        plan = [(s, ENTRIES["thorough"], "full") for s in SHAPES_QUICK + SHAPES_THOROUGH_EXTRA]
        plan.append(((3, 3), ENTRIES["quick"], "reduced"))
    # expensive shapes first (longest-processing-time order keeps the 16 workers busy to the end)
    plan.sort(key=lambda p: -(3 ** p[0][0]) * p[0][0] * p[0][1] * (1 if p[2] == "full" else 0.2))
    for shape, entries, profile in plan:
        for W in _matrices(shape, entries):
            out.append({"kind": "sart", "W": W, "profile": profile, "tier": tier, "label": "sart"})
    for shape, entries, profile in plan:
        for W in _matrices(shape, entries):
            out.append({"kind": "lsq", "W": W, "tier": tier, "label": "lsq"})
    return out


def crash_label(case):
    return "%s:%dx%d" % (case["kind"], len(case["W"]), len(case["W"][0]))


# ---- the system under test (overridable by the detection demos) ---------------------------------------------------

def _solvers():
    from cherab.tools.inversions import (invert_sart, invert_constrained_sart, invert_regularised_nnls,
                                         invert_regularised_lstsq, invert_svd)
    return {"sart": invert_sart, "csart": invert_constrained_sart, "nnls": invert_regularised_nnls,
            "lstsq": invert_regularised_lstsq, "svd": invert_svd}


_SEED_CACHE = {}


def _default_seed(site, n, fn, viol):
    """Default initial guess of solver `site` for n cells, read back through an all-zero geometry matrix."""
    import numpy as np
    key = (site, n)
    if key not in _SEED_CACHE:
        Wz, bz = np.zeros((1, n)), np.array([1.0])
        try:
            if site == "sart":
                x, _ = fn(Wz, bz, max_iterations=1)
            else:
                x, _ = fn(Wz, np.zeros((n, n)), bz, max_iterations=1)
            x = np.array(x, dtype=float)
            ok = x.shape == (n,) and np.all(np.isfinite(x)) and np.all(x >= 0) and np.all(x == x[0])
        except Exception as e:  # noqa
            x, ok = type(e).__name__, False
        _SEED_CACHE[key] = (x, ok)
    x, ok = _SEED_CACHE[key]
    if not ok:
        _V(viol, "%s:x0=none:default-seed" % _site_name(site), "default seed read back through W=0 is not a finite uniform "
           "non-negative vector", "uniform finite vector >= 0", x)
        return None
    return x


def _site_name(site):
    return {"sart": "sart", "csart": "constrained_sart"}.get(site, site)


def _V(viol, sig, what, expected, observed):
    """viol: dict signature -> first entry of this case (one entry per signature and case keeps the IPC small)."""
    from mc.runner import jsonable
    sig = "C11:" + sig
    if sig not in viol:
        viol[sig] = {"sig": sig, "what": what, "expected": jsonable(expected), "observed": jsonable(observed)}


def _w_class(W):
    """Class label of a geometry matrix (priority order) + flags."""
    from mc.refs.lsq_cert import rank_int
    m, n = len(W), len(W[0])
    zr = any(all(v == 0 for v in row) for row in W)
    zc = any(all(W[i][j] == 0 for i in range(m)) for j in range(n))
    r = rank_int(W)
    if r == 0:
        lab = "W=0"
    elif zc:
        lab = "zero-col"
    elif zr:
        lab = "zero-row"
    elif r < min(m, n):
        lab = "rank-deficient"
    else:
        lab = "full-rank"
    return lab, zr, zc, r


def _laplacian(kind, n):
    import numpy as np
    L = np.zeros((n, n))
    if kind == "path":
        for i in range(n - 1):
            L[i, i] += 1.0
            L[i + 1, i + 1] += 1.0
            L[i, i + 1] -= 1.0
            L[i + 1, i] -= 1.0
    return L


def _bump(cl, key, k=1):
    cl[key] = cl.get(key, 0) + k


# ---- SART family ---------------------------------------------------------------------------------------------------

def _run_sart(case):
    import numpy as np
    from mc.refs import sart as ref
    S = _solvers()
    tier, profile = case["tier"], case["profile"]
    Wl = case["W"]
    W = np.array(Wl, dtype=float)
    W_orig = W.copy()
    m, n = W.shape
    wlab, zr, zc, rk = _w_class(Wl)
    viol, cl, states, nontrivial = {}, {}, [], set()
    ncalls = 0
    K = _K[tier]
    _bump(cl, "sart:shape=%dx%d" % (m, n))
    _bump(cl, "sart:" + wlab)
    # label used in signatures = the branch of the rule the matrix exercises
    wlab = "empty-cell" if zc else "empty-ray" if zr else "regular"
    if zr:
        _bump(cl, "sart:zero-row")
    if zc:
        _bump(cl, "sart:zero-col")
    if rk < min(m, n):
        _bump(cl, "sart:rank-deficient")
    _bump(cl, "sart:underdetermined" if m < n else "sart:overdetermined" if m > n else "sart:square")

    if profile == "full":
        x0_kinds, relaxes = X0_KINDS, RELAX[tier] + (RELAX_SMALL_EXTRA[tier] if m * n <= 4 else ())
        stops = [(mi, tol) for mi in MAX_ITER[tier] for tol in CONV_TOL if not (mi <= 1 and tol != CONV_TOL[0])]
        constr = CONSTR[tier] if m * n <= 4 else CONSTR["quick"]      # the 4th (beta=0, L=0) pair only for small W
    else:
        x0_kinds, relaxes, stops, constr = REDUCED["x0"], REDUCED["relax"], list(REDUCED["stops"]), REDUCED["constr"]

    bs = list(itertools.product(B_SART, repeat=m))
    nb = len(bs)
    Bm = np.array(bs, dtype=float).T.copy()                    # (m, nb)
    bvecs = [np.ascontiguousarray(Bm[:, i]) for i in range(nb)]
    b_orig = [v.copy() for v in bvecs]
    bzero = [not any(b) for b in bs]
    bzero_arr = np.array(bzero)
    moved_any = np.zeros(nb, dtype=bool)
    ns = len(stops)
    MI = np.array([mi for mi, _ in stops])

    sites = [("sart", None, None)] + [("csart", beta, lk) for beta, lk in constr]
    for site, beta_s, lkind in sites:
        fn = S[site]
        sname = _site_name(site)
        if site == "csart":
            beta = float(beta_s)
            L = _laplacian(lkind, n)
            L_orig = L.copy()
            _bump(cl, "csart:beta>0:L=path" if (beta > 0 and lkind == "path") else "csart:beta=0" if beta == 0 else "csart:L=zeros")
        else:
            beta, L = 0.0, None
        for x0k in x0_kinds:
            if x0k == "none":
                seed = _default_seed(site, n, fn, viol)
                if seed is None:
                    continue
                x0 = seed.copy()
            elif x0k == "zero":
                x0 = np.zeros(n)
            elif x0k == "one":
                x0 = np.ones(n)
            else:
                x0 = np.array(X0_ARRAY[:n], dtype=float)
            X0 = np.repeat(x0[:, None], nb, axis=1)
            ig_const = {"none": None, "zero": 0.0, "one": 1}.get(x0k)
            for relax in relaxes:
                Xs, C, clips = ref.trajectory(W, Bm, X0, relax, K, L, beta)
                Xarr = np.array(Xs)                                           # (K+1, n, nb)
                # Rounding errors of the two implementations (C loop / numpy) are propagated by the iteration map
                # x -> clip(M x + c), M = I - omega D^-1 F^T W - beta L, which is ||M||_inf-Lipschitz: after k iterations a rounding-level
                # difference may have grown by ||M||^(k-1).  For the documented parameter range ||M|| is ~1; with a strong Laplacian
                # penalty (beta_laplace 1.5) it reaches ~7 and the long iterates are compared correspondingly loosely (counted).
                _rl, _dn = W.sum(axis=1), W.sum(axis=0)
                _F = np.divide(W, _rl[:, None], out=np.zeros_like(W, dtype=float), where=(_rl[:, None] != 0))
                _M = np.eye(n) - relax * np.divide(_F.T @ W, _dn[:, None], out=np.zeros((n, n)), where=(_dn[:, None] > 0))
                if site == "csart" and L is not None:
                    _M = _M - beta * np.asarray(L, dtype=float)
                gM = max(1.0, float(np.abs(_M).sum(axis=1).max()))
                AMP = np.minimum(gM ** np.maximum(np.arange(K + 1) - 1, 0), 1e12)          # AMP[k]: after k iterations
                if gM > 1.5:
                    _bump(cl, "sart:expansive-iteration-map:tolerance-amplified")
                scale = 1.0 + np.maximum(np.abs(Xarr).max(axis=(0, 1)), np.abs(Bm).max(axis=0))     # (nb,)
                moved_any |= (Xarr[1] != Xarr[0]).any(axis=0)
                if site == "csart" and beta > 0 and lkind == "path":
                    Xp, _, _ = ref.trajectory(W, Bm, X0, relax, 1, None, 0.0)
                    if (np.abs(Xp[1] - Xarr[1]) > 1e-9).any():
                        _bump(cl, "csart:penalty-changes-iterate")

                # ---- execute the real solver on every (b, max_iterations, conv_tol); store raw results
                R = np.full((nb, ns, n), np.nan)
                CI = np.full((nb, ns, K), np.nan)
                NIT = np.full((nb, ns), -1, dtype=np.int64)
                exc = {}
                for bi in range(nb):
                    bvec = bvecs[bi]
                    for si, (mi, tol) in enumerate(stops):
                        ig = x0.copy() if x0k == "array" else ig_const       # the solver iterates in place on an array guess
                        try:
                            if site == "sart":
                                x, conv = fn(W, bvec, initial_guess=ig, max_iterations=mi, relaxation=relax, conv_tol=tol)
                            else:
                                x, conv = fn(W, L, bvec, initial_guess=ig, max_iterations=mi, relaxation=relax,
                                             beta_laplace=beta, conv_tol=tol)
                            nit = len(conv)
                            R[bi, si] = x
                            CI[bi, si, :min(nit, K)] = conv[:K]
                            NIT[bi, si] = nit
                        except Exception as e:  # noqa
                            exc[(bi, si)] = e
                            continue
                        if si == ns - 1 and not bzero[bi]:
                            # the update rule and the stopping rule are invariant under a common factor on W and b (weights in other units);
                            # the factor is a power of two, so every intermediate is scaled exactly and the result must be the same
                            ig2 = x0.copy() if x0k == "array" else ig_const
                            try:
                                if site == "sart":
                                    x2, conv2 = fn(W * UNIT_SCALE, bvec * UNIT_SCALE, initial_guess=ig2, max_iterations=mi, relaxation=relax, conv_tol=tol)
                                else:
                                    x2, conv2 = fn(W * UNIT_SCALE, L, bvec * UNIT_SCALE, initial_guess=ig2, max_iterations=mi, relaxation=relax,
                                                   beta_laplace=beta, conv_tol=tol)
                                _bump(cl, "sart:weights-in-other-units")
                                if len(conv2) != nit or not np.allclose(np.asarray(x2, dtype=float), np.asarray(x, dtype=float), rtol=1e-12, atol=1e-300):
                                    _V(viol, "%s:weights-in-other-units:result-differs" % sname,
                                       "%s with W and b multiplied by 2^-40 (W=%s, b=%s, initial_guess=%s, max_iterations=%d, relaxation=%g)" % (sname, Wl, list(bs[bi]), x0k, mi, relax),
                                       {"x": np.asarray(x, dtype=float), "iterations": nit}, {"x": np.asarray(x2, dtype=float), "iterations": len(conv2)})
                            except Exception as e:  # noqa
                                _V(viol, "%s:weights-in-other-units:raises:%s" % (sname, type(e).__name__), "%s with W and b multiplied by 2^-40" % sname, "a solution", repr(e)[:200])
                            ncalls += 1
                ncalls += nb * ns

                # ---- compare with the reference trajectory (vectorised over b and stop settings)
                valid = NIT >= 0
                # allowed iteration counts by the documented stopping rule
                EXP = np.empty((nb, ns), dtype=np.int64)
                amb_cols = {}
                if K >= 2:
                    Dc = np.abs(C[1:] - C[:-1])                                       # (K-1, nb); row r <-> after iteration r+2
                    Cs = np.abs(C[1:]) + np.abs(C[:-1])
                for tol in set(t for _, t in stops):
                    if K >= 2:
                        band = 1e-9 * tol + 4e-14 * (1.0 + Cs) * AMP[2:K + 1, None]
                        amb = np.abs(Dc - tol) <= band
                        stop = (Dc < tol) & ~amb
                        first = np.where(stop.any(axis=0), stop.argmax(axis=0) + 2, K + 1)   # iteration count at the first stop
                        amb_cols[tol] = amb
                    else:
                        first = np.full(nb, K + 1)
                    for si, (mi, t) in enumerate(stops):
                        if t == tol:
                            EXP[:, si] = np.minimum(first, mi)
                bad_nit = valid & (NIT != EXP)
                # |b| = 0: the documented normalisation of the convergence measure is undefined, so neither the values nor the
                # stopping index are prescribed - any iteration count 1..max_iterations is accepted (the iterate is still checked)
                bad_nit[bzero_arr] = (valid & ((NIT < np.minimum(1, MI)[None, :]) | (NIT > MI[None, :])))[bzero_arr]
                # rounding-ambiguous stop decisions (|dc| within the band around conv_tol): accept either branch
                for si, (mi, t) in enumerate(stops):
                    a = amb_cols.get(t)
                    if a is not None and mi >= 2 and a[:mi - 1].any():
                        for bi in np.nonzero(a[:mi - 1].any(axis=0))[0]:
                            allowed, _ = ref.allowed_lengths(C[:, bi], mi, t, band_abs=4e-14 * float(AMP[min(mi, K)]))
                            _bump(cl, "sart:stop-ambiguous")
                            if valid[bi, si]:
                                bad_nit[bi, si] = int(NIT[bi, si]) not in allowed
                NITc = np.clip(NIT, 0, K)
                XE = Xarr[NITc, :, np.arange(nb)[:, None]]                           # (nb, ns, n) expected iterate
                nonfinite = valid & ~np.isfinite(R).all(axis=2)
                negative = valid & (R < 0).any(axis=2)
                bad_x = valid & ~bad_nit & ~(np.abs(R - XE).max(axis=2) <= 1e-12 * scale[:, None] * AMP[NITc])
                CE = C.T[:, None, :]                                                  # (nb, 1, K) unstopped reference values
                inlist = np.arange(K)[None, None, :] < NITc[:, :, None]
                bad_c = (inlist & ~(np.abs(CI - CE) <= 1e-11 * (1.0 + np.abs(CE)) * AMP[None, None, 1:K + 1])).any(axis=2)
                bad_c &= valid & ~bad_nit & ~bzero_arr[:, None]
                early = valid & (NIT < MI[None, :])
                _bump(cl, "sart:stopped-early", int(early.sum()))
                _bump(cl, "sart:ran-to-max", int((valid & ~early).sum()))
                clip_cum = np.maximum.accumulate(clips, axis=0)                        # (K, nb)
                _bump(cl, "sart:clip-active", int((valid & clip_cum[np.maximum(NITc, 1) - 1, np.arange(nb)[:, None]]).sum()))

                def desc(bi, si):
                    return "%s(W=%s, b=%s, initial_guess=%s, max_iterations=%d, relaxation=%g%s, conv_tol=%g)" % (
                        sname, Wl, list(bs[bi]), x0k, stops[si][0], relax,
                        "" if site == "sart" else ", beta_laplace=%g, L=%s" % (beta, lkind), stops[si][1])

                for (bi, si), e in sorted(exc.items()):
                    k = int(EXP[bi, si])
                    _bump(cl, "sart:raised")
                    _V(viol, "%s:%s:raises:%s" % (sname, "b=0" if bzero[bi] else wlab, type(e).__name__),
                       "%s raised %s: %s" % (desc(bi, si), type(e).__name__, e),
                       {"x": Xarr[k][:, bi], "iterations": k}, "%s: %s" % (type(e).__name__, e))
                for label, mask in (("result-nonfinite", nonfinite), ("negative", negative), ("stop-rule", bad_nit),
                                    ("iterate", bad_x), ("convergence-list", bad_c)):
                    if mask.any():
                        for bi, si in zip(*np.nonzero(mask)):
                            bi, si = int(bi), int(si)
                            nit = int(NIT[bi, si])
                            if label == "stop-rule":
                                expd = {"iterations": int(EXP[bi, si]), "convergence(unstopped)": C[:stops[si][0], bi]}
                                obs = {"iterations": nit, "convergence": CI[bi, si, :min(nit, K)]}
                            elif label == "convergence-list":
                                expd, obs = C[:nit, bi], CI[bi, si, :nit]
                            else:
                                expd = {"x": XE[bi, si], "iterations": nit} if label == "iterate" else "finite x >= 0"
                                obs = {"x": R[bi, si], "iterations": nit}
                            _V(viol, "%s:%s:%s" % (sname, "b=0" if bzero[bi] else wlab, label),
                               "%s: %s differs from the documented rule" % (desc(bi, si), label), expd, obs)
                _bump(cl, "sart:x0=" + x0k, nb * len(stops))
        if site == "csart" and not np.array_equal(L, L_orig):
            _V(viol, "%s:input-mutated:laplacian" % sname, "laplacian matrix modified by the call", L_orig, L)

    # fixed points: an exact non-negative solution stays where it is (closed form, no reference iteration involved)
    for xs in itertools.product((0, 1, 2), repeat=n):
        if not any(xs):
            continue
        xstar = np.array(xs, dtype=float)
        b = W @ xstar
        if not b.any():
            continue
        for site, beta_s, lkind in sites:
            fn = S[site]
            sname = _site_name(site)
            if site == "csart":
                beta, L = float(beta_s), _laplacian(lkind, n)
                if beta != 0 and (L @ xstar).any():
                    continue                                  # not a fixed point of the penalised rule
                if beta != 0 and lkind == "path":
                    _bump(cl, "sart:fixed-point:laplacian-active")
            for relax in relaxes:
                for mi, tol in ((1, 1e-4), (3, 1e-12)):
                    ncalls += 1
                    try:
                        if site == "sart":
                            x, conv = fn(W, b, initial_guess=xstar.copy(), max_iterations=mi, relaxation=relax, conv_tol=tol)
                        else:
                            x, conv = fn(W, L, b, initial_guess=xstar.copy(), max_iterations=mi, relaxation=relax,
                                         beta_laplace=beta, conv_tol=tol)
                    except Exception as e:  # noqa
                        _V(viol, "%s:fixed-point:raises:%s" % (sname, type(e).__name__), "%s(W=%s, b=W x*, x0=x*=%s) raised %s" % (sname, Wl, list(xs), e),
                           xstar, type(e).__name__)
                        continue
                    exp_conv = [0.0] * min(mi, 2)
                    if not np.array_equal(np.asarray(x), xstar):
                        _V(viol, "%s:fixed-point:moved" % sname,
                           "%s(W=%s, b=W x*, initial_guess=x*=%s, max_iterations=%d, relaxation=%g): an exact non-negative solution is not a fixed point"
                           % (sname, Wl, list(xs), mi, relax), {"x": xstar, "convergence": exp_conv}, {"x": np.asarray(x), "convergence": list(conv)})
                    elif [float(c) for c in conv] != exp_conv:
                        _V(viol, "%s:fixed-point:convergence-list" % sname,
                           "%s(W=%s, b=W x*, initial_guess=x*=%s, max_iterations=%d, relaxation=%g): at a fixed point the convergence list must be zeros "
                           "and the iteration must stop after the 2nd pass" % (sname, Wl, list(xs), mi, relax), exp_conv, list(conv))
                    _bump(cl, "sart:fixed-point")

    if not np.array_equal(W, W_orig) or any(not np.array_equal(a, b) for a, b in zip(bvecs, b_orig)):
        _V(viol, "sart:input-mutated", "geometry matrix or measurement vector modified by a call (harness integrity)", "unchanged inputs", "changed")
    wkey = tuple(map(tuple, Wl))
    for bi in range(nb):
        states.append(("sart", wkey, bs[bi]))
        if bzero[bi]:
            _bump(cl, "sart:b=0")
        if moved_any[bi]:
            nontrivial.add(("sart", wkey, bs[bi]))
    return {"viol": list(viol.values()), "classes": cl, "n": ncalls, "transitions": ncalls, "states": states, "nontrivial": nontrivial,
            "outcome": ("sart", wkey, len(viol), cl.get("sart:stopped-early", 0), cl.get("sart:clip-active", 0))}


# ---- NNLS / LSQ / SVD ----------------------------------------------------------------------------------------------

def _run_lsq(case):
    import warnings
    import numpy as np
    from mc.refs import lsq_cert as cert
    S = _solvers()
    tier = case["tier"]
    Wl = case["W"]
    W = np.array(Wl, dtype=float)
    W_orig = W.copy()
    m, n = W.shape
    wlab, zr, zc, rk = _w_class(Wl)
    viol, cl, states, nontrivial = {}, {}, [], set()
    ncalls = 0
    wkey = tuple(map(tuple, Wl))
    P = cert.pinv_float(Wl)                                        # exact Moore-Penrose inverse, rounded once
    wlab = "rank-deficient" if rk < min(m, n) else "full-rank"     # label used in the svd signatures
    pn = float(np.sqrt((P * P).sum()))
    _bump(cl, "lsq:shape=%dx%d" % (m, n))
    _bump(cl, "svd:rank-deficient" if rk < min(m, n) else "svd:full-rank")
    alphas = ALPHA[tier] if m * n <= 6 else ALPHA["quick"]        # 3x3 (thorough only): the quick alpha set
    tiks = []
    for tname in TIKHONOV:
        if tname.startswith("identity"):
            T, targ = np.identity(n), None
        elif tname.startswith("forward"):
            T = np.zeros((n, n))                                   # (L x)_i = x_(i+1) - x_i, last row empty
            for i in range(n - 1):
                T[i, i], T[i, i + 1] = -1.0, 1.0
            targ = T.copy()
        elif tname.startswith("second"):
            T = _laplacian("path", n)                              # second-difference operator (singular: T 1 = 0)
            targ = T.copy()      # the caller's own array, passed to every call of this case (as in an alpha scan); T stays pristine for the reference
        else:
            T = np.zeros((n, n))                                   # regularises the first cell only: [W; T] is rank
            T[0, 0] = 1.0                                          # deficient whenever the other columns of W are dependent
            targ = T.copy()
        crank = cert.rank_int([list(r) for r in Wl] + [[int(v) for v in row] for row in T])
        tiks.append((tname, T, targ, crank))

    for bt in itertools.product(B_LSQ, repeat=m):
        b = np.array(bt, dtype=float)
        b_orig = b.copy()
        if max(bt) <= 0:
            bclass = "b<=0"
        elif not any(sum(Wl[i][j] * bt[i] for i in range(m)) for j in range(n)):
            bclass = "WTb=0"            # x = 0 is the minimiser and every dual variable vanishes (degenerate KKT point)
        elif min(bt) < 0:
            bclass = "b-mixed-sign"
        else:
            bclass = "b>=0"
        _bump(cl, "lsq:" + bclass)
        states.append(("lsq", wkey, bt))
        nontriv = False

        # -- SVD: x = W^+ b (exact rational pseudo-inverse); tolerance: backward-stable SVD, kappa(W) <~ 1e3 on this lattice
        ncalls += 1
        try:
            with warnings.catch_warnings():
                warnings.simplefilter("ignore")
                x = np.asarray(S["svd"](W, b), dtype=float)
            xe = P @ b
            if x.shape != (n,) or not np.all(np.isfinite(x)) or np.abs(x - xe).max() > 1e-10 * max(1.0, pn * float(np.sqrt(b @ b))):
                _V(viol, "svd:%s:pinv-solution" % wlab, "invert_svd(W=%s, b=%s) is not the Moore-Penrose solution W^+ b" % (Wl, list(bt)), xe, x)
            e2 = cert.normal_eq(W, b, x) if x.shape == (n,) else None
            if e2 is not None:
                _V(viol, "svd:%s:%s" % (wlab, e2[0]), "invert_svd(W=%s, b=%s) does not satisfy the normal equations" % (Wl, list(bt)), "W^T(Wx-b)=0", e2[1])
            if xe.any():
                nontriv = True
        except Exception as e:  # noqa
            _V(viol, "svd:%s:raises:%s" % (wlab, type(e).__name__), "invert_svd(W=%s, b=%s) raised %s" % (Wl, list(bt), e), P @ b, type(e).__name__)
            nontriv = True

        for alpha in alphas:
            for tname, T, targ, crank in tiks:
                C = np.vstack([W, alpha * T])
                d = np.concatenate([b, np.zeros(n)])
                cclass = "C-full-rank" if crank == n else "C-rank-deficient"
                _bump(cl, "lsq:" + cclass)
                resid_scale = float(np.sqrt(d @ d)) + float(np.sqrt((C * C).sum()))
                desc = "(W=%s, b=%s, alpha=%g, tikhonov_matrix=%s)" % (Wl, list(bt), alpha, tname)

                # -- NNLS: KKT certificate + residual norm
                ncalls += 1
                try:
                    with warnings.catch_warnings():
                        warnings.simplefilter("ignore")
                        x, norm = S["nnls"](W, b, alpha=alpha, tikhonov_matrix=targ)
                except Exception as e:  # noqa
                    exp = {"x": [0.0] * n, "norm": float(np.sqrt(b @ b))} if bclass == "b<=0" else "a minimiser"
                    _V(viol, "nnls:%s:raises:%s" % (bclass, type(e).__name__), "invert_regularised_nnls%s raised %s: %s" % (desc, type(e).__name__, e),
                       exp, "%s: %s" % (type(e).__name__, e))
                    nontriv = True
                else:
                    x = np.asarray(x, dtype=float)
                    if x.shape != (n,):
                        _V(viol, "nnls:%s:result-shape" % bclass, "invert_regularised_nnls%s" % desc, (n,), x.shape)
                    else:
                        bad = cert.kkt_nnls(C, d, x)
                        if bad is not None and _scipy_nnls_itself_wrong(C, d, float(b.max()), x, cert):
                            # attribution only (keeps the finding narrow): scipy.optimize.nnls, called directly on the documented
                            # stacked system normalised by max(b), returns this same vector and it fails the same certificate
                            _bump(cl, "nnls:scipy-nnls-itself-wrong")
                            _V(viol, "nnls:relays-scipy-nnls-result-that-is-not-a-minimiser",
                               "invert_regularised_nnls%s: returned x is not a minimiser (%s); scipy.optimize.nnls called directly on "
                               "[W; alpha L]/max(b), [b; 0]/max(b) returns the same vector" % (desc, bad[0]), "KKT conditions", bad[1])
                        elif bad is not None:
                            _V(viol, "nnls:%s:%s:%s" % (bclass, cclass, bad[0]), "invert_regularised_nnls%s: returned x is not a minimiser of |Wx-b|^2+alpha^2|Lx|^2 over x>=0" % desc,
                               "KKT conditions", bad[1])
                        else:
                            rn = float(np.sqrt(((C @ x - d) ** 2).sum()))
                            if not abs(float(norm) - rn) <= 1e-9 * (resid_scale * (1.0 + float(np.sqrt(x @ x)))):
                                if _scipy_nnls_itself_wrong(C, d, float(b.max()), x, cert, norm=float(norm)):
                                    # attribution only: scipy's own rnorm is inconsistent with scipy's own x (same x, same norm)
                                    _bump(cl, "nnls:scipy-nnls-itself-wrong")
                                    _V(viol, "nnls:relays-scipy-nnls-rnorm-that-is-inconsistent-with-x",
                                       "invert_regularised_nnls%s: reported norm != |Cx-d| for the returned (optimal) x; scipy.optimize.nnls called "
                                       "directly on [W; alpha L]/max(b), [b; 0]/max(b) returns the same x and the same inconsistent rnorm" % desc, rn, float(norm))
                                else:
                                    _V(viol, "nnls:%s:residual-norm" % bclass, "invert_regularised_nnls%s: reported norm != |Cx-d|" % desc, rn, float(norm))
                            g = C.T @ (C @ x - d)
                            if ((x == 0) & (g > cert.grad_tol(C, d, x) + 1e-12)).any():
                                _bump(cl, "nnls:constraint-active")
                            if (x > 0).all():
                                _bump(cl, "nnls:interior")
                            if x.any():
                                nontriv = True

                # -- LSQ: normal equations + reported residual (squared norm, array of size 1)
                ncalls += 1
                try:
                    x, res = S["lstsq"](W, b, alpha=alpha, tikhonov_matrix=targ)
                except Exception as e:  # noqa
                    _V(viol, "lstsq:%s:raises:%s" % (cclass, type(e).__name__), "invert_regularised_lstsq%s raised %s: %s" % (desc, type(e).__name__, e),
                       "a minimiser", "%s: %s" % (type(e).__name__, e))
                    nontriv = True
                else:
                    x = np.asarray(x, dtype=float)
                    res = np.asarray(res, dtype=float)
                    if x.shape != (n,):
                        _V(viol, "lstsq:%s:result-shape" % cclass, "invert_regularised_lstsq%s" % desc, (n,), x.shape)
                    else:
                        bad = cert.normal_eq(C, d, x)
                        if bad is not None:
                            _V(viol, "lstsq:%s:%s" % (cclass, bad[0]), "invert_regularised_lstsq%s: returned x is not a minimiser of |Wx-b|^2+alpha^2|Lx|^2" % desc,
                               "C^T(Cx-d)=0", bad[1])
                        else:
                            r2 = float(((C @ x - d) ** 2).sum())
                            if res.size == 0:
                                _bump(cl, "lstsq:residual-not-reported")
                                if crank == n:
                                    _V(viol, "lstsq:C-full-rank:residual-missing", "invert_regularised_lstsq%s: empty residual for a full-rank system" % desc, r2, res)
                            else:
                                _bump(cl, "lstsq:residual-reported")
                                # squared residual: absolute floor eps*|d|^2-scale, because r2 is a difference of O(|d|^2) terms
                                if res.size != 1 or not abs(float(res.ravel()[0]) - r2) <= 1e-9 * r2 + 1e-12 * (resid_scale * (1.0 + float(np.sqrt(x @ x)))) ** 2:
                                    _V(viol, "lstsq:%s:residual-norm" % cclass, "invert_regularised_lstsq%s: reported residual != |Cx-d|^2" % desc, r2, res)
                            if (x < 0).any():
                                _bump(cl, "lstsq:negative-component")
                            if x.any():
                                nontriv = True
                            # the same problem with the (integer-valued) geometry matrix and measurements passed as integer arrays:
                            # the three pure-python solvers must not depend on the dtype the numbers arrive in
                            if tname.startswith("second") or targ is None:
                                Wi, bi = np.array(Wl, dtype=np.int64), np.array([int(v) for v in b], dtype=np.int64)
                                for sname, call in (("lstsq", lambda: S["lstsq"](Wi, bi, alpha=alpha, tikhonov_matrix=targ)[0]),
                                                    ("nnls", lambda: S["nnls"](Wi, bi, alpha=alpha, tikhonov_matrix=targ)[0])):
                                    ncalls += 1
                                    try:
                                        xi = np.asarray(call(), dtype=float)
                                    except Exception as e:  # noqa
                                        _V(viol, "%s:integer-dtype-input:raises:%s" % (sname, type(e).__name__), "%s%s with int64 W and b" % (sname, desc), "same result as with float64 input", "%s: %s" % (type(e).__name__, e))
                                        continue
                                    _bump(cl, "lsq:integer-dtype-input")
                                    if sname == "lstsq":
                                        if not np.allclose(xi, x, rtol=1e-9, atol=1e-12 * (1.0 + float(np.abs(x).max()))):
                                            _V(viol, "lstsq:integer-dtype-input:differs-from-float64-input", "invert_regularised_lstsq%s with int64 W and b" % desc, x.tolist(), xi.tolist())
                                    else:
                                        badi = cert.kkt_nnls(C, d, xi)
                                        if badi is not None and not _scipy_nnls_itself_wrong(C, d, float(b.max()), xi, cert):
                                            _V(viol, "nnls:integer-dtype-input:%s" % badi[0], "invert_regularised_nnls%s with int64 W and b: not a minimiser" % desc, "KKT", badi[1])
        if not np.array_equal(b, b_orig):
            _V(viol, "lsq:input-mutated", "measurement vector modified by a call (harness integrity)", b_orig, b)
        if nontriv:
            nontrivial.add(("lsq", wkey, bt))
    if not np.array_equal(W, W_orig):
        _V(viol, "lsq:input-mutated", "geometry matrix modified by a call (harness integrity)", W_orig, W)
    for tname, T, targ, crank in tiks:
        if targ is not None and not np.array_equal(targ, T):
            _V(viol, "lsq:input-mutated:tikhonov_matrix", "the caller's tikhonov_matrix (%s) was modified by the solver calls it was passed to" % tname, T.tolist(), targ.tolist())
    return {"viol": list(viol.values()), "classes": cl, "n": ncalls, "transitions": ncalls, "states": states, "nontrivial": nontrivial,
            "outcome": ("lsq", wkey, len(viol), cl.get("nnls:constraint-active", 0), cl.get("lstsq:negative-component", 0))}


def _scipy_nnls_itself_wrong(C, d, vmax, x, cert, norm=None):
    """Attribution of a failed NNLS certificate (upstream solver vs. cherab wrapper); never used to obtain an expected value.
    scipy.optimize.nnls is called directly on the documented system ("w_matrix, b_vector and alpha*tikhonov_matrix are normalised
    by max(b_vector) before passing them to scipy.optimize.nnls").
    norm is None: True iff scipy returns the vector x that the wrapper returned and that vector fails the KKT certificate.
    norm given  : True iff scipy returns the same x and the same norm (rnorm*max(b)), and that norm is not |Cx-d|."""
    import math
    import numpy as np
    import scipy.optimize
    # the wrapper normalises the stacked system by a positive scale before calling scipy (max(b) in the original
    # code, the largest |d| rounded up to a power of two since the b <= 0 fix); the problem is scale invariant, so
    # the solver is tried on every such equivalent scaling
    amax = float(np.abs(d).max())
    scales = [1.0]
    if vmax > 0:
        scales.append(vmax)
    if amax > 0:
        scales += [amax, 2.0 ** math.ceil(math.log2(amax))]
    for sc in scales:
        try:
            xs, rs = scipy.optimize.nnls(C / sc, d / sc)
        except Exception:  # noqa
            continue
        if not np.allclose(xs, x, rtol=1e-9, atol=1e-12):
            continue
        if norm is None:
            if cert.kkt_nnls(C, d, xs) is not None:
                return True
            continue
        true = float(np.sqrt(((C @ xs - d) ** 2).sum()))
        if abs(rs * sc - norm) <= 1e-12 * (1.0 + abs(norm)) and abs(rs * sc - true) > 1e-9 * (1.0 + true):
            return True
    return False


def run_case(case):
    import numpy as np
    with np.errstate(all="ignore"):
        if case["kind"] == "sart":
            return _run_sart(case)
        return _run_lsq(case)
