"""C14 - caching functions (Caching1D/2D/3D) are history independent and interpolate the cached function.

Engine H.  Three kinds of cases, all executed on the real classes:

  hist : ALL evaluation sequences of the stated length over a role-named point alphabet; after every
         evaluation the value (or exception) is compared with the value a brand-new cache gives when it
         is evaluated at that point only (differential oracle, live object vs fresh object).
  perm : ALL injective sequences (orders of visit) over "one point per cell" sets, same oracle.
  abort: every history "evaluation aborted by an exception of the wrapped function (at every call it can fail on), then any
         cell, then the first cell again", and every three-step history over a wrapped function with a limited domain; same oracle.
  grid : a lattice of areas x resolutions x functions x no_boundary_error; each cache is swept over
         every sampling node, several points per cell, the edges and outside points, forwards and
         backwards, under every function_boundaries variant, and compared with the closed-form
         reference (node values, multilinear exactness, h^2 curvature bound, raise / pass-through
         outside, bounds do not change results).  The same reference oracles are applied to the
         fresh-cache values the hist/perm cases compare against.
"""
import itertools

from mc.refs import c14_funcs as R
from mc.engine_h import close

PROPERTY = "C14"
DRIVER = ("Caching{1,2,3}D(recording f, area, resolution, no_boundary_error, function_boundaries): every evaluation sequence "
          "vs a fresh cache evaluated at the same point only; sweeps of a geometry lattice vs closed forms")
STATES_MEANING = "distinct (configuration, set of lattice nodes the wrapped function has been called on, set of computed cells) reached"

# geometry = per axis (min, max, resolution)
HIST_GEOMS = {
    1: {"g4": [(0.0, 1.0, 0.25)], "g3": [(-0.3, 0.8, 0.3)], "g8": [(1.7, 3.7, 0.25)]},
    2: {"g43": [(0.0, 1.0, 0.25), (-0.3, 0.8, 0.3)]},
    3: {"g333": [(0.0, 1.0, 0.3), (-0.3, 0.8, 0.3), (2.0, 3.5, 0.5)]},
}
FB = {"none": None, "wide": (-3.0, 5.0), "point": (2.5, 2.5), "narrow": (0.25, 0.5), "inverted": (5.0, -3.0)}
FB_TIER = {"quick": ["none", "wide", "point", "narrow"], "thorough": ["none", "wide", "point", "narrow", "inverted"]}
HIST_F = ["smooth", "hash"]
GRID_F = ["const", "lin", "smooth", "hash"]

# role-named points (priority order: a tier uses a prefix of the list, so thorough is a superset of quick)
P2 = [("c0", "c0"), ("c1", "c0"), ("c1", "c1"), ("c0", "c1"), ("c3", "c2"), ("n1", "n1"), ("n2", "c1"), ("b1-", "c1"),
      ("b1+", "c1"), ("c1", "b1+"), ("min", "min"), ("max", "c1"), ("min-e", "c0"), ("c1", "max+e"), ("out-", "c1"), ("c0", "far+"),
      ("n0", "n0"), ("n2", "n1"), ("c1", "b1-"), ("b2+", "b2-"), ("max", "max"), ("c1", "max"), ("max+e", "max+e"), ("min+e", "min-e"),
      ("far+", "far+"), ("c0", "n3"),
      ("c2", "c1"), ("c2", "c2"), ("n3", "n2"), ("b1-", "b1-"), ("max-e", "max-e"), ("o-", "c0"), ("c1", "o+"), ("far-", "c1"),
      ("n4", "c0"), ("c3", "c0")]
P3 = [("c0", "c0", "c0"), ("c1", "c0", "c0"), ("c1", "c1", "c1"), ("c0", "c1", "c0"), ("c2", "c2", "c2"), ("n1", "n1", "n1"),
      ("n1", "c1", "n2"), ("b1-", "c1", "c1"), ("b1+", "c1", "c1"), ("c1", "b2+", "b1-"), ("min", "min", "min"), ("max", "c1", "max"),
      ("min-e", "c0", "c0"), ("c1", "c1", "max+e"), ("out-", "c1", "c1"), ("c0", "far+", "c0"),
      ("c0", "c0", "c1"), ("n0", "n0", "n0"), ("n2", "n2", "n1"), ("c1", "c1", "b1+"), ("max", "max", "max"), ("min+e", "min-e", "c1"),
      ("max+e", "max+e", "max+e"), ("max-e", "c2", "c2"), ("c1", "c1", "n3"), ("o-", "c0", "c0"), ("c1", "o+", "c1"),
      ("far-", "far-", "far-"), ("c2", "c0", "c1"), ("c1", "out+", "c2")]
G8_ROLES = ["c0", "c1", "c4", "c7", "n1", "n5", "b4-", "b4+", "min", "max", "max+e", "out-", "far+"]   # 8 cells: disjoint stencils exist
ROLE_ORDER_1D = ["n", "c", "b", "min", "max", "min-e", "min+e", "max-e", "max+e", "out-", "out+", "far-", "far+", "o-", "o+"]

# (dimension, tier) -> list of (sequence length, alphabet size, prefix length of a case)
HIST_PLAN = {
    (1, "quick"): [(3, None, 1)],
    (2, "quick"): [(3, 26, 1)],
    (3, "quick"): [(3, 16, 1)],
    (1, "thorough"): [(4, None, 2)],
    (2, "thorough"): [(3, 36, 1), (4, 16, 2)],
    (3, "thorough"): [(3, 30, 1), (4, 8, 2)],
}
# (dimension, tier) -> list of (cell set, sequence length)
PERM_PLAN = {
    (1, "quick"): [("all", 4)], (1, "thorough"): [("all", 5)],
    (2, "quick"): [("all", 4)], (2, "thorough"): [("all", 5)],
    (3, "quick"): [("block", 4)], (3, "thorough"): [("block", 5), ("all", 3)],
}
PERM_CFG = [("hash", False, "none"), ("hash", False, "wide"), ("smooth", False, "none"), ("smooth", True, "wide")]

ALPHABET = {
    "history geometries (min, max, resolution per axis)": HIST_GEOMS,
    "function_boundaries": {k: v for k, v in FB.items()},
    "no_boundary_error": [False, True],
    "functions": {"const": "2.5", "lin": "all multilinear monomials", "smooth": "sin 3x + .8 cos 2y + .3 exp z/2 + multilinear",
                  "hash": "frac(43758.5453 sin(12.9898 x + 78.233 y + 37.719 z + .3))"},
    "axis roles": "n<k> sampling nodes (read off the calls of f), c<k> cell centres, b<k>-/+ node -/+ 1e-9, min/max area edges, "
                  "min-e.. edges -/+ EPSILON/2, out-/+ between area and outer node, far-/+ beyond it, o-/+ the outer nodes",
    "points 1D": "every role of the axis (27 for 4 cells, 23 for 3 cells); 8-cell geometry: " + ", ".join(G8_ROLES),
    "points 2D": P2, "points 3D": P3,
    "grid lattice": "1D: min in {-2.5,-.3,0,1.7,1000} x width in {.5,1,1.1,3} x resolution in {.1,.25,.3,.7,1.5,5}; "
                    "2D: 3 x-axes x 3 y-axes; 3D: 4 geometries (thorough: 8); + large-magnitude axes (1e18..1e20, 2^31.., -2^31..) in 1D, 2D and 3D; each x {const,lin,smooth,hash} x no_boundary_error",
}
BOUND = {
    "quick": "hist: all sequences of length <= 3 (1D: every role point of the 4- and 3-cell areas, 13 points of the 8-cell area; 2D: 26 points; "
             "3D: 16 points) x 2 functions x nbe x 4 bounds; "
             "perm: 1D all injective sequences of <= 4 cells (4!, 3!, 8*7*6*5), 2D all injective 4-sequences over 12 cells, 3D all injective 4-sequences over a 2x2x2 block; "
             "abort: every (first cell, failing call k, second cell) and every (first, second, third cell) history over the cells of the 1D/2D areas and 9 cells of the 3D area; "
             "grid: full geometry lattice, forward and reverse sweeps",
    "thorough": "hist: 1D all sequences of length <= 4; perm 1D injective 5-sequences; 2D length <= 3 over 36 points and <= 4 over 16; 3D length <= 3 over 30 points and "
                "<= 4 over 8; x 5 bounds; perm: 2D injective 5-sequences, 3D injective 5-sequences over the block and 3-sequences over all "
                "27 cells; grid: extended 3D lattice",
}
RULE = ("hist/perm: one case per (configuration, sequence prefix); the case runs every continuation of the prefix on a new live cache and "
        "compares after every evaluation. A (cache state, point) pair is non-trivial when the live cache has already served at least one "
        "earlier evaluation (state = sampled nodes + computed cells + whether an outside point was seen); key = (configuration, state, point). "
        "grid: one case per (geometry, function, no_boundary_error); key = (geometry, function, nbe, bounds, point) for every reference comparison")
ASSUMPTIONS = [
    "sampling nodes are the coordinates the wrapped function is called on during line scans of a fresh cache (call log; not an oracle itself)",
    "EPSILON = 1e-7 edge tolerance documented in the module: points within 1.5e-7 (or two spacings of doubles, where that is larger) outside an edge may either evaluate or be rejected, consistently",
    "h^2 bound is decided for the stated smooth family with closed-form curvature (g(x)+h(y)+k(z)+multilinear), constant 1.0, h = largest observed node gap",
    "history independence threshold 1e-13*scale (bit-identical values are counted in the outcome); reference tolerances 1e-9*scale, "
    "scale = max |f| over the sampled nodes; justified for <= 50 cells per axis since a cubic in coordinates normalised to [0,1] "
    "loses at most ~ncells^3 ulp",
    "wrapped functions are finite (no NaN); they do not raise except in the abort family, where they raise a dedicated exception either once "
    "(transient) or whenever the first coordinate is beyond the last inner node (limited domain)",
]
REQUIRED_CLASSES = [
    "dim:1", "dim:2", "dim:3",
    "hist:first", "hist:revisit", "hist:new-cell:shared-nodes", "hist:new-cell:all-nodes-cached", "hist:new-cell:disjoint", "hist:raise", "hist:passthrough",
    "hist:inside-after-raise", "hist:inside-after-passthrough", "perm:1", "perm:2", "perm:3",
    "ref:node", "ref:multilinear", "ref:h2-bound", "ref:outside-raise", "ref:outside-passthrough", "ref:band", "ref:in",
    "ref:bounds:wide", "ref:bounds:point", "ref:bounds:narrow", "ref:geom:near", "ref:geom:far-offset", "ref:single-cell-axis",
    "grid:fwd-vs-rev", "abort:transient:propagated", "abort:transient:then-same-cell", "abort:transient:then-other-cell",
    "abort:domain:raising-cell-first", "abort:domain:working-cell-first",
]
BUDGET_S = {"quick": 300, "thorough": 2400}   # ~175 / ~3250 CPU-seconds: 11 s / 3.5 min on 16 idle cores
CHUNK = 4

_S = {}


def setup_worker(tier):
    from cherab.core.math import Caching1D, Caching2D, Caching3D
    _S["cls"] = {1: Caching1D, 2: Caching2D, 3: Caching3D}
    _S["lat"] = {}
    _S["ctx"] = {}
    _S["fresh"] = {}
    _S["tier"] = tier


# ----------------------------------------------------------------------------------------- helpers
def _build(d, geom, rec, nbe, fbname):
    area, res = R.area_args(geom)
    cls = _S["cls"][d]
    return cls(rec, area, res[0] if d == 1 else res, no_boundary_error=nbe, function_boundaries=FB[fbname])


def _prod(it):
    r = 1
    for x in it:
        r *= x
    return r


def _ev(c, p):
    try:
        return c(*p)
    except Exception as e:  # noqa
        return "EXC:" + type(e).__name__


def _lattice(geom):
    key = tuple(geom)
    lat = _S["lat"].get(key)
    if lat is None:
        d = len(geom)
        rec = R.Rec(R.make("smooth", d))
        c = _build(d, geom, rec, False, "none")
        for ax in range(d):
            for p in R.scan_points(geom, ax):   # all inside the area: every call f receives is a sampling node
                _ev(c, p)
        lat = R.Lattice(geom, rec.calls)
        _S["lat"][key] = lat
    return lat


def _scale(d, geom, fid, lat):
    f = R.make(fid, d)
    s = 0.0
    for c in itertools.product(*lat.all):
        s = max(s, abs(f(*c)))
    return s if s > 0 else 1.0


def _roles_1d(lat):
    r = R.axis_roles(lat, 0)
    names = []
    for pre in ROLE_ORDER_1D:
        if pre in ("n", "c", "b"):
            names += sorted((k for k in r if k[0] == pre and k[1].isdigit()), key=lambda k: (int("".join(ch for ch in k if ch.isdigit())), k))
        else:
            names.append(pre)
    return names


def _ctx(d, gname):
    key = (d, gname)
    cx = _S["ctx"].get(key)
    if cx is None:
        geom = HIST_GEOMS[d][gname]
        lat = _lattice(geom)
        roles = [R.axis_roles(lat, ax) for ax in range(d)]
        if d == 1:
            names = [(n,) for n in (G8_ROLES if gname == "g8" else _roles_1d(lat))]
        else:
            names = P2 if d == 2 else P3
        pts = [tuple(roles[ax][nm[ax]] for ax in range(d)) for nm in names]
        # "one point per cell" sets (off-centre, different fraction per axis)
        frac = (0.3, 0.6, 0.45)
        cells = list(itertools.product(*[range(n) for n in lat.ncells]))
        cpts = {}
        for cl in cells:
            cpts[cl] = tuple(lat.inn[ax][cl[ax]] + frac[ax] * (lat.inn[ax][cl[ax] + 1] - lat.inn[ax][cl[ax]]) for ax in range(d))
        cx = {"geom": geom, "lat": lat, "names": names, "pts": pts, "cells": cells, "cpts": cpts,
              "block": [cl for cl in cells if all(k < 2 for k in cl)], "scale": {}}
        _S["ctx"][key] = cx
    return cx


def _fresh(cfg, geom, p):
    """(value, number of calls of f) of a brand-new cache evaluated at p only."""
    key = (cfg, p)
    r = _S["fresh"].get(key)
    if r is None:
        d, gname, fid, nbe, fbname = cfg
        rec = R.Rec(R.make(fid, d))
        c = _build(d, geom, rec, nbe, fbname)
        r = (_ev(c, p), len(rec.calls))
        _S["fresh"][key] = r
    return r


class Acc:
    def __init__(self):
        self.viol, self.sigs = [], set()
        self.classes = {}
        self.states, self.nontrivial = set(), set()
        self.n = 0
        self.transitions = 0

    def cls(self, label, k=1):
        self.classes[label] = self.classes.get(label, 0) + k

    def V(self, sig, what, expected, observed):
        sig = "C14:" + sig
        if sig not in self.sigs:      # first instance per signature per case is enough for the evidence
            self.sigs.add(sig)
            self.viol.append({"sig": sig, "what": what, "expected": expected, "observed": observed})

    def result(self, outcome):
        return {"viol": self.viol, "classes": self.classes, "outcome": outcome, "n": max(self.n, 1), "states": self.states,
                "transitions": max(self.transitions, 1), "nontrivial": self.nontrivial}


# ----------------------------------------------------------------------------- reference oracles
def _ref_check(acc, d, lat, gclass, fid, f, nbe, scale, bound, p, v, mode):
    """Closed-form oracles (ii)-(v) on one observed value."""
    where = lat.where(p)
    name = "Caching%dD" % d
    acc.cls("ref:" + where)
    if isinstance(v, str):
        if where == "in":
            acc.V("%s:in-area-point-rejected:geom=%s" % (name, gclass), "%s: point %r inside the area gives %s" % (mode, p, v), "a value", v)
        elif nbe:
            acc.V("%s:no_boundary_error-but-raises:%s" % (name, where), "%s: point %r" % (mode, p), "f(p)", v)
        elif v != "EXC:ValueError":
            acc.V("%s:outside:wrong-exception" % name, "%s: point %r" % (mode, p), "ValueError", v)
        else:
            acc.cls("ref:outside-raise")
        return
    fv = f(*p)
    if where == "out":
        if not nbe:
            acc.V("%s:outside:no-error" % name, "%s: point %r outside the area (more than 1.5 EPSILON) returns a value" % (mode, p), "ValueError", v)
        elif v != fv:
            acc.V("%s:outside:passthrough-not-f(p)" % name, "%s: point %r outside the area, no_boundary_error=True" % (mode, p), fv, v)
        else:
            acc.cls("ref:outside-passthrough")
        return
    tol = 1e-9 * scale
    if lat.is_node(p):
        acc.cls("ref:node")
        # The documented algorithm evaluates one tensor cubic per cell in *global* coordinates normalised to [0, 1]:
        # 4^d monomials whose coefficients, for data varying by `scale` from node to node at normalised spacing 1/N_d,
        # reach scale * prod_d N_d^3, so cancellation of 4^d * ulp * prod_d N_d^3 * scale is inherent to it
        # (2.8e-8 for the 5x5x5-interval 3-D lattices, observed 3.4e-9 with the hash function); 1e-9 otherwise.
        ntol = scale * max(1e-9, 4 ** d * 2.2e-16 * _prod((len(a) - 1) ** 3 for a in lat.all))
        if not abs(v - fv) <= ntol:
            acc.V("%s:node-value:f=%s:geom=%s" % (name, "multilinear" if fid in R.MULTILINEAR else "nonlinear", gclass),
                  "%s: f=%s, value at sampling node %r differs from f(node) by more than %.1e (scale %.3g)" % (mode, fid, p, ntol, scale), fv, v)
    if fid in R.MULTILINEAR:
        acc.cls("ref:multilinear")
        if not abs(v - fv) <= tol:
            acc.V("%s:multilinear-not-reproduced:geom=%s" % (name, gclass),
                  "%s: f=%s linear in each coordinate, point %r, error above 1e-9*scale (scale %.3g)" % (mode, fid, p, scale), fv, v)
    elif fid == "smooth":
        acc.cls("ref:h2-bound")
        if not abs(v - fv) <= bound + tol:
            acc.V("%s:h2-curvature-bound:geom=%s" % (name, gclass),
                  "%s: |cache - f| at %r exceeds sum_d h_d^2 max|d_d^2 f| = %.3g" % (mode, p, bound), fv, v)


def _fb_check(acc, d, gclass, scale, p, fbname, v, v0, mode):
    acc.cls("ref:bounds:" + fbname)
    ok = (v == v0) if (isinstance(v, str) or isinstance(v0, str)) else close(v, v0, 1e-9, scale)
    if not ok:
        acc.V("Caching%dD:function_boundaries-change-result:geom=%s" % (d, gclass),
              "%s: point %r, function_boundaries=%r vs None" % (mode, p, FB[fbname]), v0, v)


# ------------------------------------------------------------------------------------ sequences
def _run_sequences(acc, cfg, cx, points, labels, seqs, tag):
    """Run every sequence (tuple of indices into points) on a new live cache; compare after every evaluation."""
    d, gname, fid, nbe, fbname = cfg
    geom, lat = cx["geom"], cx["lat"]
    f = R.make(fid, d)
    scale = cx["scale"].get(fid)
    if scale is None:
        scale = cx["scale"][fid] = _scale(d, geom, fid, lat)
    fresh = [_fresh(cfg, geom, p) for p in points]
    cellof = [lat.cell(p) for p in points]
    wh = [lat.where(p) for p in points]
    name = "Caching%dD" % d
    nonbit = 0
    nseq = 0
    for seq in seqs:
        nseq += 1
        rec = R.Rec(f)
        c = _build(d, geom, rec, nbe, fbname)
        calls = rec.calls
        computed = []
        mask = 0
        seen = 0
        had_raise = had_pass = False
        for step, i in enumerate(seq):
            p = points[i]
            state = (cfg, mask, tuple(computed), had_raise, had_pass)
            if step:
                acc.nontrivial.add((state, i, tag))
            try:
                v = c(*p)
            except Exception as e:  # noqa
                v = "EXC:" + type(e).__name__
            ncalls = len(calls)
            nnew = ncalls - seen
            for a in calls[seen:]:
                b = lat.node_bit(a)
                if b is not None:
                    mask |= 1 << b
            seen = ncalls
            fv, fn = fresh[i]
            cl = cellof[i]
            if isinstance(v, str):
                label = "raise"
                had_raise = True
            elif cl is None:
                label = "passthrough"
                had_pass = True
            else:
                if cl in computed:
                    label = "revisit"
                else:
                    if not computed:
                        label = "first"
                    elif nnew == 0:
                        label = "new-cell:all-nodes-cached"
                    elif nnew < fn:
                        label = "new-cell:shared-nodes"
                    else:
                        label = "new-cell:disjoint"
                    computed.append(cl)
                    computed.sort()
                if had_raise:
                    acc.cls("hist:inside-after-raise")
                if had_pass:
                    acc.cls("hist:inside-after-passthrough")
            acc.cls("hist:" + label)
            acc.n += 1
            if v != fv and not (v != v and fv != fv):      # (a NaN from both is the same observation)
                if isinstance(v, str) or isinstance(fv, str) or not close(v, fv, 1e-13, scale):
                    acc.V("%s:history:%s:pt=%s" % (name, label, wh[i]),
                          "%s f=%s nbe=%s bounds=%s: evaluation #%d of the sequence %s (point %r, %s) differs from a fresh cache evaluated there only"
                          % (gname, fid, nbe, fbname, step + 1, [labels[j] for j in seq], p, labels[i]), fv, v)
                else:
                    nonbit += 1
                    acc.cls("hist:equal-within-1e-13-but-not-bit-identical")
            acc.states.add((cfg, mask, tuple(computed)))
        acc.transitions += len(seq)
    return nseq, nonbit


def _run_hist(case):
    d, gname, fid, nbe, fbname = case["d"], case["geom"], case["f"], case["nbe"], case["fb"]
    cfg = (d, gname, fid, nbe, fbname)
    cx = _ctx(d, gname)
    npts = case["npts"] or len(cx["pts"])
    if d == 1 and len(cx["pts"]) != NPTS_1D[gname]:
        raise RuntimeError("1D alphabet of %s has %d points, cases() assumed %d" % (gname, len(cx["pts"]), NPTS_1D[gname]))
    points = cx["pts"][:npts]
    labels = ["/".join(nm) for nm in cx["names"][:npts]]
    prefix = tuple(case["prefix"])
    acc = Acc()
    acc.cls("dim:%d" % d)
    seqs = (prefix + t for t in itertools.product(range(npts), repeat=case["L"] - len(prefix)))
    nseq, nonbit = _run_sequences(acc, cfg, cx, points, labels, seqs, "h")
    return acc.result(("hist", cfg, case["L"], prefix, nseq, acc.n, nonbit, len(acc.viol)))


def _run_perm(case):
    d, gname, fid, nbe, fbname = case["d"], case["geom"], case["f"], case["nbe"], case["fb"]
    cfg = (d, gname, fid, nbe, fbname)
    cx = _ctx(d, gname)
    cells = cx["cells"] if case["set"] == "all" else cx["block"]
    points = [cx["cpts"][cl] for cl in cells]
    labels = ["cell" + "".join(str(k) for k in cl) for cl in cells]
    L = min(case["L"], len(cells))
    first = case["first"]
    rest = [i for i in range(len(cells)) if i != first]
    acc = Acc()
    acc.cls("dim:%d" % d)
    acc.cls("perm:%d" % d)
    seqs = ((first,) + t for t in itertools.permutations(rest, L - 1))
    nseq, nonbit = _run_sequences(acc, cfg, cx, points, labels, seqs, "p" + case["set"])
    # the fresh values the orders are compared with are themselves checked against the closed form
    lat = cx["lat"]
    f = R.make(fid, d)
    for p in points:
        _ref_check(acc, d, lat, "near", fid, f, nbe, cx["scale"][fid], R.h2_bound(lat), p, _fresh(cfg, cx["geom"], p)[0], "fresh cache")
    return acc.result(("perm", cfg, L, first, nseq, acc.n, nonbit, len(acc.viol)))


# ---------------------------------------------------------------------------------------- abort
def _run_abort(case):
    """Histories in which an evaluation is aborted by the wrapped function.

    transient : the wrapped function raises once, on its k-th call (every k an evaluation of the first point can reach); afterwards it
                works.  The aborted evaluation must leave no trace: every later evaluation (any second point, then the first point
                again) equals what a brand-new cache over the never-failing function returns there.
    domain    : the wrapped function raises whenever its first coordinate lies beyond the last inner node of the first axis (a wrapped
                interpolator without extrapolation asked for the outer sampling node).  The outcome at a point (value or exception)
                must be the outcome a brand-new cache over the same function gives when evaluated there only.
    """
    d, gname, nbe, fbname, first = case["d"], case["geom"], case["nbe"], case["fb"], case["first"]
    fid = "smooth"
    cfg = (d, gname, fid, nbe, fbname)
    cx = _ctx(d, gname)
    geom, lat = cx["geom"], cx["lat"]
    cells = cx["cells"] if d < 3 else cx["block"] + [cl for cl in cx["cells"] if all(k == n - 1 for k, n in zip(cl, lat.ncells))]
    points = [cx["cpts"][cl] for cl in cells]
    labels = ["cell" + "".join(str(k) for k in cl) for cl in cells]
    f = R.make(fid, d)
    scale = cx["scale"].get(fid)
    if scale is None:
        scale = cx["scale"][fid] = _scale(d, geom, fid, lat)
    name = "Caching%dD" % d
    acc = Acc()
    acc.cls("dim:%d" % d)
    p1 = points[first]

    def same(v, w):
        if isinstance(v, str) or isinstance(w, str):
            return v == w
        return v == w or close(v, w, 1e-13, scale)

    if case["mode"] == "transient":
        fresh = [_fresh(cfg, geom, p) for p in points]
        K = fresh[first][1]
        for k in range(K):
            for j, p2 in enumerate(points):
                rec = R.FailingRec(f, fail_at=k)
                c = _build(d, geom, rec, nbe, fbname)
                v1 = _ev(c, p1)
                if v1 != "EXC:Abort":
                    acc.V("%s:abort:exception-of-wrapped-function-not-propagated" % name,
                          "%s nbe=%s bounds=%s: the wrapped function raised on call #%d while %s was evaluated" % (gname, nbe, fbname, k, labels[first]), "EXC:Abort", v1)
                    continue
                acc.cls("abort:transient:propagated")
                state = (cfg, "transient", first, k)
                for step, (i, p) in enumerate(((j, p2), (first, p1))):
                    v = _ev(c, p)
                    acc.n += 1
                    acc.transitions += 1
                    acc.nontrivial.add((state, step, i))
                    if not same(v, fresh[i][0]):
                        acc.V("%s:history:after-aborted-evaluation:%s" % (name, "same-cell" if i == first else "other-cell"),
                              "%s nbe=%s bounds=%s: evaluation of %s aborted by an exception of the wrapped function (its call #%d); then %s evaluated "
                              "(evaluation #%d after the abort) differs from a fresh cache evaluated there only"
                              % (gname, nbe, fbname, labels[first], k, labels[i], step + 1), fresh[i][0], v)
                acc.states.add(state + (j,))
                acc.cls("abort:transient:then-same-cell" if j == first else "abort:transient:then-other-cell")
    else:
        beyond = lat.all[0][-2] + 1e-6 * (lat.all[0][-1] - lat.all[0][-2])
        fr = []
        for p in points:
            rec = R.FailingRec(f, beyond=beyond)
            fr.append(_ev(_build(d, geom, rec, nbe, fbname), p))
        if first == 0:
            if "EXC:Abort" not in fr or all(isinstance(v, str) for v in fr):
                raise RuntimeError("abort/domain: expected some cells to need the outer node and some not: %r" % (fr,))
        for j in range(len(points)):
            for i3 in range(len(points)):
                rec = R.FailingRec(f, beyond=beyond)
                c = _build(d, geom, rec, nbe, fbname)
                state = (cfg, "domain", first, j)
                for step, i in enumerate((first, j, i3, first)):
                    v = _ev(c, points[i])
                    acc.n += 1
                    acc.transitions += 1
                    if step:
                        acc.nontrivial.add((state, step, i))
                    if not same(v, fr[i]):
                        acc.V("%s:history:wrapped-function-with-limited-domain:%s" % (name, "fresh-raises" if isinstance(fr[i], str) else "fresh-returns"),
                              "%s nbe=%s bounds=%s: wrapped function raises beyond x=%r; evaluation #%d of the sequence %s differs from a fresh cache evaluated there only"
                              % (gname, nbe, fbname, beyond, step + 1, [labels[q] for q in (first, j, i3, first)]), fr[i], v)
                acc.states.add(state + (i3,))
        acc.cls("abort:domain:raising-cell-first" if isinstance(fr[first], str) else "abort:domain:working-cell-first")
    return acc.result(("abort", cfg, case["mode"], first, acc.n, len(acc.viol)))


# ----------------------------------------------------------------------------------------- grid
def _grid_points(lat):
    d = lat.d
    roles = [R.axis_roles(lat, ax) for ax in range(d)]
    pts = []
    # every product of in-area nodes, every product of two points per cell and axis
    pts += list(itertools.product(*lat.inn))
    per = []
    for ax in range(d):
        n = lat.inn[ax]
        per.append([n[k] + fr * (n[k + 1] - n[k]) for k in range(len(n) - 1) for fr in ((0.2, 0.7) if len(n) <= 8 else (0.35,))])
    pts += list(itertools.product(*per))
    # star: one axis runs over every role, the others stay in the first cell; diagonal of the roles common to all axes
    c0 = [roles[ax]["c0"] for ax in range(d)]
    for ax in range(d):
        for nm in sorted(roles[ax]):
            p = list(c0)
            p[ax] = roles[ax][nm]
            pts.append(tuple(p))
    for nm in sorted(set.intersection(*[set(r) for r in roles])):
        pts.append(tuple(roles[ax][nm] for ax in range(d)))
    seen, out = set(), []
    for p in pts:
        if p not in seen:
            seen.add(p)
            out.append(p)
    return out


def _run_grid(case):
    geom = [tuple(a) for a in case["geom"]]
    d, fid, nbe = len(geom), case["f"], case["nbe"]
    name = "Caching%dD" % d
    acc = Acc()
    acc.cls("dim:%d" % d)
    lat = _lattice(geom)
    gclass = R.geom_class(geom)
    acc.cls("ref:geom:" + gclass)
    if min(lat.ncells) == 1:
        acc.cls("ref:single-cell-axis")
    # the sampling lattice itself: covers the area, no coarser than twice the requested resolution
    for ax in range(d):
        lo, hi, res = geom[ax]
        if lat.ncells[ax] < 1 or lat.inn[ax][0] > lo or lat.inn[ax][-1] < hi:
            acc.V("%s:sampling:nodes-do-not-cover-area" % name, "axis %d of %r: in-area nodes %r" % (ax, geom, lat.inn[ax]), "first <= min, last >= max", lat.inn[ax])
            return acc.result(("grid", case["label"], "nolattice"))
        if lat.hmax[ax] > 2 * res + 4 * R.EPSILON:
            acc.V("%s:sampling:spacing>2*resolution" % name, "axis %d of %r" % (ax, geom), "<= %r" % (2 * res), lat.hmax[ax])
    f = R.make(fid, d)
    scale = _scale(d, geom, fid, lat)
    bound = R.h2_bound(lat)
    pts = _grid_points(lat)
    base = None
    nonbit = 0
    for fbname in FB_TIER[_S.get("tier", "quick")]:
        vals = {}
        for mode, order in (("forward sweep", pts), ("reverse sweep", pts[::-1])):
            rec = R.Rec(f)
            c = _build(d, geom, rec, nbe, fbname)
            vals[mode] = {p: _ev(c, p) for p in order}
            acc.transitions += len(order)
        fw, rv = vals["forward sweep"], vals["reverse sweep"]
        for p in pts:
            v, w = fw[p], rv[p]
            acc.n += 2
            acc.nontrivial.add((case["label"], fbname, p))
            acc.cls("grid:fwd-vs-rev")
            if v != w:
                if isinstance(v, str) or isinstance(w, str) or not close(v, w, 1e-13, scale):
                    acc.V("%s:history:sweep-order:pt=%s" % (name, lat.where(p)),
                          "%r f=%s nbe=%s bounds=%s: point %r in a forward sweep vs a reverse sweep over the grid" % (geom, fid, nbe, fbname, p), v, w)
                else:
                    nonbit += 1
            _ref_check(acc, d, lat, gclass, fid, f, nbe, scale, bound, p, v, "forward sweep, bounds=%s" % fbname)
            _ref_check(acc, d, lat, gclass, fid, f, nbe, scale, bound, p, w, "reverse sweep, bounds=%s" % fbname)
            if base is not None:
                _fb_check(acc, d, gclass, scale, p, fbname, v, base[p], "forward sweep")
        if base is None:
            base = fw
        acc.states.add((case["label"], fbname))
    # fresh-cache values of the history alphabet (what hist cases compare against) get the same reference oracles
    if case.get("hist_geom"):
        cx = _ctx(d, case["hist_geom"])
        for p in cx["pts"] + [cx["cpts"][cl] for cl in cx["cells"]]:
            v0 = None
            for fbname in FB_TIER[_S.get("tier", "quick")]:
                v = _fresh((d, case["hist_geom"], fid, nbe, fbname), geom, p)[0]
                acc.n += 1
                _ref_check(acc, d, lat, gclass, fid, f, nbe, scale, bound, p, v, "fresh cache, bounds=%s" % fbname)
                if fbname == "none":
                    v0 = v
                else:
                    _fb_check(acc, d, gclass, scale, p, fbname, v, v0, "fresh cache")
    return acc.result(("grid", case["label"], len(pts), acc.n, nonbit, len(acc.viol)))


def run_case(case):
    if not _S:
        setup_worker(case.get("tier", "quick"))
    k = case["kind"]
    if k == "hist":
        return _run_hist(case)
    if k == "perm":
        return _run_perm(case)
    if k == "abort":
        return _run_abort(case)
    return _run_grid(case)


# ---------------------------------------------------------------------------------------- cases
NCELLS = {"g4": (4,), "g3": (3,), "g8": (8,), "g43": (4, 3), "g333": (3, 3, 3)}
NPTS_1D = {"g4": 27, "g3": 23, "g8": len(G8_ROLES)}


def _grid_geoms(tier):
    out = []
    for lo in (-2.5, -0.3, 0.0, 1.7, 1000.0):
        for w in (0.5, 1.0, 1.1, 3.0):
            for res in (0.1, 0.25, 0.3, 0.7, 1.5, 5.0):
                out.append([(lo, lo + w, res)])
    # coordinates of large magnitude (a density or frequency axis; an area far from the origin): the module's EPSILON = 1e-7 is below
    # the spacing of doubles there
    out.append([(1.0e18, 1.0e20, 1.0e19)])
    out.append([(2.0 ** 31, 2.0 ** 31 + 64.0, 1.0)])
    out.append([(-2.0 ** 31 - 64.0, -2.0 ** 31, 4.0)])
    xs = [(0.0, 1.0, 0.25), (-0.3, 0.8, 0.3), (1000.0, 1001.0, 0.25)]
    ys = [(-0.3, 0.8, 0.3), (2.0, 3.5, 0.5), (0.0, 0.5, 1.5)]
    for x in xs:
        for y in ys:
            out.append([x, y])
    out.append([(0.0, 1.0, 0.25), (1.0e18, 1.0e20, 3.0e19)])
    out.append([(0.0, 1.0, 0.25), (2000.0, 2001.0, 0.1)])          # far offset on the SECOND axis (and finer there)
    out.append([(-0.3, 0.8, 0.3), (-2000.0, -1999.0, 0.25)])
    g3 = [[(0.0, 1.0, 0.3), (-0.3, 0.8, 0.3), (2.0, 3.5, 0.5)],
          [(0.0, 1.0, 0.3), (-0.3, 0.8, 0.3), (0.0, 0.5, 1.5)],
          [(1000.0, 1001.0, 0.3), (-0.3, 0.8, 0.3), (2.0, 3.5, 0.5)],
          [(-2.5, -2.0, 0.25), (1.7, 2.8, 0.7), (-0.3, 0.8, 0.3)],
          [(0.0, 1.0, 0.3), (1000.0, 1001.0, 0.3), (2.0, 3.5, 0.5)],
          [(0.0, 1.0, 0.3), (-0.3, 0.8, 0.3), (-1000.0, -999.0, 0.25)],
          [(2.0 ** 31, 2.0 ** 31 + 8.0, 4.0), (1.0e18, 1.0e20, 5.0e19), (2.0, 3.5, 0.5)]]      # (the smooth function has exp(z/2): z stays small)
    if tier == "thorough":
        # (6x6x7 intervals; z centred on the origin: with z in (2, 3.5) the raw-coordinate polynomial of the implementation
        #  already loses 6e-7 at the nodes of the hash function against 8e-8 for evaluation in normalised coordinates -
        #  the milder end of the registered far-offset finding; the lattice keeps to the two clear-cut classes)
        g3 += [[(0.0, 1.0, 0.25), (-0.3, 0.8, 0.25), (-0.75, 0.75, 0.3)],
               [(0.0, 0.5, 1.5), (0.0, 0.5, 1.5), (0.0, 0.5, 1.5)],
               [(1.7, 2.8, 0.3), (1000.0, 1001.0, 0.5), (2.0, 3.5, 0.7)],
               [(-0.3, 0.8, 0.1), (0.0, 1.0, 0.5), (2.0, 3.5, 0.5)]]
    return out + g3


def cases(tier):
    out = []
    fbs = FB_TIER[tier]
    # grid
    hist_geom_names = {tuple(g): (d, n) for d, gs in HIST_GEOMS.items() for n, g in gs.items()}
    for geom in _grid_geoms(tier):
        hg = hist_geom_names.get(tuple(geom))
        for fid in GRID_F:
            for nbe in (False, True):
                c = {"kind": "grid", "geom": [list(a) for a in geom], "f": fid, "nbe": nbe, "tier": tier,
                     "label": "grid:%dD:%s:%s:nbe=%d" % (len(geom), ";".join("%g,%g,%g" % a for a in geom), fid, nbe)}
                if hg:
                    c["hist_geom"] = hg[1]
                out.append(c)
    # hist
    for d in (1, 2, 3):
        for gname in HIST_GEOMS[d]:
            for (L, npts, plen) in HIST_PLAN[(d, tier)]:
                n = npts or NPTS_1D[gname]
                for fid in HIST_F:
                    for nbe in (False, True):
                        for fb in fbs:
                            for prefix in itertools.product(range(n), repeat=plen):
                                out.append({"kind": "hist", "d": d, "geom": gname, "f": fid, "nbe": nbe, "fb": fb, "L": L, "npts": npts,
                                            "prefix": list(prefix), "tier": tier, "label": "hist:%dD" % d})
    # perm
    for d in (1, 2, 3):
        for gname in HIST_GEOMS[d]:
            nc = NCELLS[gname]
            ncell_all = 1
            for k in nc:
                ncell_all *= k
            for (cset, L) in PERM_PLAN[(d, tier)]:
                ncell = ncell_all if cset == "all" else 2 ** d
                for (fid, nbe, fb) in PERM_CFG:
                    for first in range(ncell):
                        out.append({"kind": "perm", "d": d, "geom": gname, "f": fid, "nbe": nbe, "fb": fb, "set": cset, "L": L, "first": first,
                                    "tier": tier, "label": "perm:%dD" % d})
    # abort: evaluations aborted by an exception of the wrapped function
    for d in (1, 2, 3):
        gname = sorted(HIST_GEOMS[d])[0] if d > 1 else "g4"
        ncell = _prod(NCELLS[gname]) if d < 3 else 2 ** d + 1
        for mode in ("transient", "domain"):
            for nbe in (False, True):
                for fb in (("none", "wide") if tier == "quick" else fbs):
                    for first in range(ncell):
                        out.append({"kind": "abort", "d": d, "geom": gname, "mode": mode, "nbe": nbe, "fb": fb, "first": first, "tier": tier,
                                    "label": "abort:%dD:%s" % (d, mode)})
    return out


def crash_label(case):
    return case["label"] if case["kind"] != "grid" else "grid:%dD" % len(case["geom"])
