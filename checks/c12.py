"""C12 - EFITEquilibrium maps flux functions onto flux surfaces with an orthonormal flux basis (engine L).

Every (r, z) lattice point of every declared equilibrium is pushed through psi_normalised, inside_lcfs,
b_field, toroidal/poloidal/normal vectors, map2d/map3d (every profile kind x outside value x toroidal angle)
and map_vector2d/map_vector3d (every component weighting x kind rotation x outside vector x angle) and is
compared with reference values built from the raw arrays / closed forms in mc/refs/equilibrium.py.
"""
import json
import math
import os

from mc.refs import equilibrium as ref

PROPERTY = "C12"
DRIVER = ("EFITEquilibrium built from {bundled example, Generomak, synthetic Solov'ev/parabolic grids}; depth-1 histories "
          "construct -> map*/b_field/basis call at every lattice point")

# ---------------------------------------------------------------------------------------------------------
# alphabets
# ---------------------------------------------------------------------------------------------------------
_S2 = math.sqrt(0.5)
# toroidal directions (label, cos, sin); the first four are exact axis directions
ANGLES_Q = [("0", 1.0, 0.0), ("pi", -1.0, 0.0), ("-pi/2", 0.0, -1.0), ("pi/2", 0.0, 1.0),
            ("pi/4", _S2, _S2), ("-3pi/4", -_S2, -_S2), ("2.0rad", math.cos(2.0), math.sin(2.0)),
            ("-1.0rad", math.cos(-1.0), math.sin(-1.0))]
ANGLES_T = ANGLES_Q + [("3pi/4", -_S2, _S2), ("-pi/4", _S2, -_S2), ("1e-9rad", math.cos(1e-9), math.sin(1e-9)),
                       ("pi-1e-9", math.cos(math.pi - 1e-9), math.sin(math.pi - 1e-9)),
                       ("-pi+1e-9", math.cos(-math.pi + 1e-9), math.sin(-math.pi + 1e-9)),
                       ("0.1rad", math.cos(0.1), math.sin(0.1)), ("3.0rad", math.cos(3.0), math.sin(3.0)),
                       ("-2.5rad", math.cos(-2.5), math.sin(-2.5))]
OFFSETS_Q = [(0.0, 0.0), (0.5, 0.5)]  # nodes and cell centres
OFFSETS_T = [(a, b) for a in (0.0, 0.25, 0.5) for b in (0.0, 0.25, 0.5)] + [(0.75, 0.75), (0.0, 0.75), (0.75, 0.0)]
PROFILES_Q = ["fn1d", "pycall", "array-linear", "array-doc-list"]
PROFILES_T = PROFILES_Q + ["callable-object", "fn1d-interp"]
OUTSIDE_Q = [None, -7.5]  # None = argument omitted (documented default 0.0)
OUTSIDE_T = OUTSIDE_Q + [1e300]
WEIGHTS_Q = [(1, 0, 0), (0, 1, 0), (0, 0, 1), (1, 2, 3), (-1, -2, -3)]
WEIGHTS_T = WEIGHTS_Q + [(0, 0, 0), (3, -1, 2)]
KINDS = ["fn1d", "pycall", "array"]  # rotation k: component j (t, p, n) is given as KINDS[(j + k) % 3]
VOUT_Q = [None, (0.5, -1.5, 2.5)]  # None = argument omitted (documented default zero vector)
VOUT_T = VOUT_Q

ALPHABET = {
    "equilibria": {"quick": ["example", "generomak"] + [s["name"] for s in ref.synthetic_specs("quick")],
                   "thorough": ["example", "generomak"] + [s["name"] for s in ref.synthetic_specs("thorough")]},
    "lattice offsets within a grid cell (fraction of the cell in r, z); (0,0) = grid nodes incl. the domain edge": {"quick": OFFSETS_Q, "thorough": OFFSETS_T},
    "toroidal directions": {"quick": [a[0] for a in ANGLES_Q], "thorough": [a[0] for a in ANGLES_T]},
    "scalar profiles": {"quick": PROFILES_Q, "thorough": PROFILES_T,
                        "meaning": {"fn1d": "raysect Function1D expression 1+3p-2p^2", "pycall": "recording python lambda cos(2p)+p/2",
                                    "array-linear": "2x6 ndarray of 5-3p on non-uniform knots", "array-doc-list": "nested list of the map2d docstring",
                                    "callable-object": "instance with __call__", "fn1d-interp": "Interpolator1DArray object passed as Function1D"}},
    "value_outside_lcfs": {"quick": ["omitted", -7.5], "thorough": ["omitted", -7.5, 1e300]},
    "velocity weights (t,p,n)": {"quick": WEIGHTS_Q, "thorough": WEIGHTS_T},
    "velocity component kinds": "all 3 cyclic assignments of (Function1D 1+p, python callable 2-p^2, 2xN array 1.5-p/2) to (t,p,n)",
    "vector value_outside_lcfs": ["omitted", "Vector3D(0.5,-1.5,2.5)"],
}
BOUND = {"quick": "all grid nodes and all cell centres of 7 equilibria (2 bundled + 5 synthetic, both signs of psi_lcfs-psi_axis), 8 toroidal directions, "
                  "4 profiles x 2 outside values, 5 weightings x 3 kind rotations x 2 outside vectors",
         "thorough": "12-point sub-lattice of every grid cell (nodes, cell-edge points, interior points at quarter/half/three-quarter offsets) of 10 equilibria, 16 toroidal directions, "
                     "6 profiles x 3 outside values, 5 weightings x 3 kind rotations + 2 more weightings x 1 x 2 outside vectors"}
RULE = ("one case per (equilibrium, cell offset, r-row): all z of that row; every point is evaluated on the real object through every "
        "call site. Non-trivial sub-cases are keyed (equilibrium, point, family): 'basis' for every point with a field evaluation, "
        "'mask' for points inside the bounding box of the LCFS polygon, 'map' for points inside or on the LCFS")
ASSUMPTIONS = [
    "raysect's Interpolator1DArray/Interpolator2DArray (cubic) are trusted: reference interpolants are built by the check from the raw arrays; at grid nodes the reference is the raw datum itself",
    "B = grad(psi) x grad(phi): B_r = -(1/r) dpsi/dz, B_z = (1/r) dpsi/dr with second-order finite differences of the gridded psi (independently coded); for synthetic equilibria also against the closed-form gradient within the truncation error bound",
    "points closer than 1e-9 to the LCFS polygon or with |psi_n - 1| < 1e-9 inside it are 'on the LCFS': there the mapped value may be either the profile value or the outside value",
    "a vector value_outside_lcfs is interpreted in (r, phi, z) components, i.e. it is rotated with the toroidal angle by map_vector3d like the mapped velocity itself",
    "3-D points whose cylindrical radius rounds to outside the grid box (edge nodes at oblique angles) are not in the domain and are skipped",
    "where the poloidal field vanishes exactly the documented convention (zero poloidal/normal vectors) is the expected value; where it is below 1e-6 of the grid maximum the 3-D velocity direction is not compared (ill-conditioned), only its toroidal component and magnitude",
    "profiles passed as bare floats (docstring example v_normal = 0.0) are outside the quantifier (functions or 2xN arrays)",
]
REQUIRED_CLASSES = [
    "eq:example", "eq:generomak", "eq:solovev:dpsi+", "eq:solovev:dpsi-", "eq:parabolic:dpsi+",
    "pt:node", "pt:interior", "pt:domain-edge",
    "pt:inside", "pt:outside-polygon", "pt:in-polygon-psin>1", "pt:lcfs-boundary", "pt:psin-clamped", "pt:bpol-zero",
    "map2d:inside:fn1d", "map2d:inside:pycall", "map2d:inside:array-linear", "map2d:inside:array-doc-list",
    "map2d:outside:default", "map2d:outside:custom", "map3d:compared", "map3d:skipped-radius-rounds-outside-grid",
    "vec2d:inside", "vec2d:outside:default", "vec2d:outside:custom", "vec3d:compared", "vec3d:ill-conditioned",
    "bfield:fd-reference", "bfield:closed-form-reference", "basis:orthonormal-checked",
]
BUDGET_S = {"quick": 100, "thorough": 900}
STATES_MEANING = "distinct (equilibrium, r, z) lattice points"

BOUNDARY_MARGIN = 1e-9
_W = {}


# ---------------------------------------------------------------------------------------------------------
# case enumeration
# ---------------------------------------------------------------------------------------------------------
def _grid_shape(name, tier):
    if name == "example":
        return 33, 33
    if name == "generomak":
        return 57, 68
    for s in ref.synthetic_specs(tier):
        if s["name"] == name:
            return s["nr"], s["nz"]
    raise KeyError(name)


def cases(tier):
    offsets = OFFSETS_Q if tier == "quick" else OFFSETS_T
    out = []
    for name in ALPHABET["equilibria"][tier]:
        nr, nz = _grid_shape(name, tier)
        for fr, fz in offsets:
            for i in range(nr if fr == 0.0 else nr - 1):
                out.append({"eq": name, "fr": fr, "fz": fz, "i": i, "tier": tier, "label": "%s:row" % name})
    return out


def crash_label(case):
    return "%s:%s" % (case["eq"], "node-row" if (case["fr"] == 0.0 and case["fz"] == 0.0) else "interior-row")


# ---------------------------------------------------------------------------------------------------------
# per-worker equilibrium bundles
# ---------------------------------------------------------------------------------------------------------
class _Recorder:
    """python callable cos(2p)+p/2 that records the arguments it receives"""

    def __init__(self):
        self.args = []

    def __call__(self, p):
        self.args.append(p)
        return math.cos(2.0 * p) + 0.5 * p


class _CallableObject:
    def __call__(self, p):
        return math.cos(2.0 * p) + 0.5 * p


def _raw_bundled(name):
    import numpy as np
    import cherab.tools.equilibrium as te
    import cherab.generomak.equilibrium as ge
    if name == "example":
        with open(os.path.join(os.path.dirname(te.__file__), "example.json")) as f:
            d = json.load(f)
        poly = d["lcfs_polygon"]
    else:
        with open(os.path.join(os.path.dirname(ge.__file__), "data", "generomak_equilibrium.json")) as f:
            d = json.load(f)
        poly = d["lcfs_polygon"]
    psi = d["psi"] if "psi" in d else d["psi_grid"]
    return dict(r=np.array(d["r"], float), z=np.array(d["z"], float), psi=np.array(psi, float), psi_axis=float(d["psi_axis"]),
                psi_lcfs=float(d["psi_lcfs"]), polygon=np.array(poly, float), f_profile=np.array(d["f_profile"], float),
                b_vacuum_radius=float(d["b_vacuum_radius"]), b_vacuum_magnitude=float(d["b_vacuum_magnitude"]))


def _bundle(name, tier):
    key = (name, tier)
    if key in _W:
        return _W[key]
    import numpy as np
    from raysect.core import Point2D, Vector3D
    from raysect.core.math.function.float import Arg1D, Interpolator1DArray, Interpolator2DArray
    from cherab.tools.equilibrium import EFITEquilibrium

    b = {"name": name}
    syn = None
    if name in ("example", "generomak"):
        raw = _raw_bundled(name)
        if name == "example":
            from cherab.tools.equilibrium import example_equilibrium
            eq = example_equilibrium()
        else:
            from cherab.generomak.equilibrium import load_equilibrium
            eq = load_equilibrium()
        b["family"] = name
    else:
        spec = [s for s in ref.synthetic_specs(tier) if s["name"] == name][0]
        syn = ref.Synthetic(spec)
        raw = dict(r=syn.r, z=syn.z, psi=syn.psi_grid, psi_axis=syn.psi_axis, psi_lcfs=syn.psi_lcfs, polygon=syn.polygon,
                   f_profile=syn.f_profile, b_vacuum_radius=syn.b_vacuum_radius, b_vacuum_magnitude=syn.b_vacuum_magnitude)
        eq = EFITEquilibrium(syn.r.tolist(), syn.z.tolist(), syn.psi_grid, syn.psi_axis, syn.psi_lcfs, Point2D(syn.R0, 0.0), [], [],
                             syn.f_profile, syn.q_profile, syn.b_vacuum_radius, syn.b_vacuum_magnitude,
                             syn.polygon.T.copy(), None, 0.0)
        b["family"] = spec["kind"]
    sign = "dpsi+" if raw["psi_lcfs"] > raw["psi_axis"] else "dpsi-"
    b.update(eq=eq, syn=syn, raw=raw, sign=sign)
    b["eqclass"] = "eq:%s" % name if syn is None else "eq:%s:%s" % (b["family"], sign)
    r, z, psi = raw["r"], raw["z"], raw["psi"]
    b["psin_grid"] = (psi - raw["psi_axis"]) / (raw["psi_lcfs"] - raw["psi_axis"])
    b["psin_i"] = Interpolator2DArray(r, z, b["psin_grid"], "cubic", "none", 0, 0)
    gr, gz = ref.fd_gradient(r, z, psi)
    b["gr"], b["gz"] = gr, gz
    b["gr_i"] = Interpolator2DArray(r, z, gr, "cubic", "none", 0, 0)
    b["gz_i"] = Interpolator2DArray(r, z, gz, "cubic", "none", 0, 0)
    b["gmax"] = float(np.sqrt(gr * gr + gz * gz).max())
    b["f_i"] = Interpolator1DArray(raw["f_profile"][0], raw["f_profile"][1], "cubic", "none", 0)
    b["poly"] = ref.Polygon(raw["polygon"])
    pv = raw["polygon"] if raw["polygon"].shape[1] == 2 and raw["polygon"].shape[0] != 2 else raw["polygon"].T
    b["bbox"] = (pv[:, 0].min(), pv[:, 0].max(), pv[:, 1].min(), pv[:, 1].max())
    if syn is not None:
        hr, hz = (r[1] - r[0]), (z[1] - z[0])
        m3, m4 = syn.third_derivative_bound(), syn.fourth_derivative_bound()
        # truncation error of a 3-point first derivative is <= h^2/3 |f'''| (one-sided; h^2/6 central); the cubic interpolation
        # between nodes of the differentiated array adds O(h^3) |f''''|.  Factor 2 of slack on top; 1e-12*gmax for rounding.
        b["tol_g"] = 2.0 * ((hr * hr + hz * hz) / 3.0 * m3 + (hr ** 3 + hz ** 3) * m4) + 1e-12 * b["gmax"]
        # cubic (Catmull-Rom type) interpolation of psi itself between nodes: error <= c h^3 |f'''| with c < 1/8, + h^4 |f''''|
        b["tol_psin"] = 2.0 * ((hr ** 3 + hz ** 3) / 8.0 * m3 + (hr ** 4 + hz ** 4) * m4) / abs(raw["psi_lcfs"] - raw["psi_axis"]) + 1e-12
        # in the outermost ring of cells the interpolator has no neighbours for its derivative estimates and is only required to be
        # as good as (bi)linear interpolation: error <= h^2/8 |f''| per axis (factor 2 of slack)
        m2 = syn.second_derivative_bound()
        b["tol_psin_edge"] = b["tol_psin"] + 2.0 * (hr * hr + hz * hz) / 8.0 * m2 / abs(raw["psi_lcfs"] - raw["psi_axis"])

    # ---- mapped functions built once per worker -------------------------------------------------------
    tierx = tier
    profiles = PROFILES_Q if tierx == "quick" else PROFILES_T
    outs = OUTSIDE_Q if tierx == "quick" else OUTSIDE_T
    weights = WEIGHTS_Q if tierx == "quick" else WEIGHTS_T
    vouts = VOUT_Q if tierx == "quick" else VOUT_T
    linx = np.array(ref.LIN_X)
    quad_x = np.linspace(0.0, 1.0, 11)
    quad_y = 2.0 - quad_x + quad_x ** 2
    b["doc_i"] = Interpolator1DArray(np.array(ref.DOC_TE[0], float), np.array(ref.DOC_TE[1], float), "cubic", "none", 0)
    b["quad_i"] = Interpolator1DArray(quad_x, quad_y, "cubic", "none", 0)
    b["recorders"] = {}

    def impl_profile(pname, tag):
        if pname == "fn1d":
            return 1 + 3 * Arg1D() - 2 * Arg1D() * Arg1D()
        if pname == "pycall":
            rec = _Recorder()
            b["recorders"][tag] = rec
            return rec
        if pname == "array-linear":
            return np.array([linx, 5.0 - 3.0 * linx])
        if pname == "array-doc-list":
            return [list(ref.DOC_TE[0]), list(ref.DOC_TE[1])]
        if pname == "callable-object":
            return _CallableObject()
        if pname == "fn1d-interp":
            return Interpolator1DArray(quad_x, quad_y, "cubic", "none", 0)
        raise KeyError(pname)

    scal = []
    for pname in profiles:
        for ov in outs:
            tag2, tag3 = ("s2", pname, ov), ("s3", pname, ov)
            if ov is None:
                f2 = eq.map2d(impl_profile(pname, tag2))
                f3 = eq.map3d(impl_profile(pname, tag3))
                oval = 0.0
            else:
                f2 = eq.map2d(impl_profile(pname, tag2), ov)
                f3 = eq.map3d(impl_profile(pname, tag3), value_outside_lcfs=ov)
                oval = ov
            scal.append(dict(pname=pname, oclass="default" if ov is None else "custom", oval=oval, f2=f2, f3=f3,
                             rec2=b["recorders"].get(tag2), rec3=b["recorders"].get(tag3)))
    b["scal"] = scal

    def impl_component(kind, w):
        if kind == "fn1d":
            return w * (1 + Arg1D())
        if kind == "pycall":
            return lambda p, w=w: w * (2.0 - p * p)
        return np.array([linx, w * (1.5 - 0.5 * linx)])

    vecs = []
    for w in weights:
        for k in range(3 if w in WEIGHTS_Q else 1):
            kinds = [KINDS[(j + k) % 3] for j in range(3)]
            for vo in vouts:
                comps2 = [impl_component(kinds[j], float(w[j])) for j in range(3)]
                comps3 = [impl_component(kinds[j], float(w[j])) for j in range(3)]
                if vo is None:
                    v2 = eq.map_vector2d(*comps2)
                    v3 = eq.map_vector3d(*comps3)
                    ovec = (0.0, 0.0, 0.0)
                else:
                    v2 = eq.map_vector2d(comps2[0], comps2[1], comps2[2], Vector3D(*vo))
                    v3 = eq.map_vector3d(comps3[0], comps3[1], comps3[2], value_outside_lcfs=Vector3D(*vo))
                    ovec = tuple(float(c) for c in vo)
                vecs.append(dict(w=tuple(float(c) for c in w), kinds=kinds, oclass="default" if vo is None else "custom", ovec=ovec,
                                 v2=v2, v3=v3))
    b["vecs"] = vecs
    b["angles"] = ANGLES_Q if tierx == "quick" else ANGLES_T
    _W[key] = b
    return b


# ---------------------------------------------------------------------------------------------------------
# the check of one row of lattice points
# ---------------------------------------------------------------------------------------------------------
_PSCALE = {"fn1d": 8.0, "pycall": 4.0, "callable-object": 4.0, "array-linear": 8.0, "array-doc-list": 4000.0, "fn1d-interp": 4.0}
# value tolerance = 1e-12 * (|expected| + S) with S a bound of |profile| + |d profile/d psi_n| on [0,1]: the implementation's and the
# reference's psi_n are only required to agree to 1e-12, which the profile's slope carries into the mapped value.


def _call(fn, *a):
    try:
        return fn(*a), None
    except Exception as e:  # noqa
        return None, type(e).__name__


def run_case(case):
    import numpy as np
    b = _bundle(case["eq"], case["tier"])
    eq, raw, syn = b["eq"], b["raw"], b["syn"]
    r_arr, z_arr = raw["r"], raw["z"]
    nr, nz = len(r_arr), len(z_arr)
    fr, fz, i = case["fr"], case["fz"], case["i"]
    sign = b["sign"]
    viol, classes, states, nontrivial = [], [b["eqclass"]], [], []
    seen = set()
    counters = {"n": 0}

    def V(site, ptclass, failure, what, expected, observed, with_sign=True):
        # scalar maps do not depend on the sign of psi_lcfs - psi_axis beyond psi_n (which has its own oracle): no sign label there
        sig = ("C12:%s:%s:%s:%s" % (site, sign, ptclass, failure)) if with_sign else ("C12:%s:%s:%s" % (site, ptclass, failure))
        if sig in seen:
            return
        seen.add(sig)
        viol.append({"sig": sig, "what": "%s [%s] %s" % (b["name"], ptclass, what), "expected": expected, "observed": observed})

    def call(fn, *a):
        counters["n"] += 1
        return _call(fn, *a)

    r = r_arr[i] + fr * (r_arr[i + 1] - r_arr[i]) if fr else float(r_arr[i])
    r = float(r)
    rlo, rhi = float(r_arr[0]), float(r_arr[-1])
    is_node_r = (fr == 0.0)
    angles = b["angles"]
    summary = {}

    for j in range(nz if fz == 0.0 else nz - 1):
        z = float(z_arr[j] + fz * (z_arr[j + 1] - z_arr[j])) if fz else float(z_arr[j])
        node = is_node_r and fz == 0.0
        edge = (is_node_r and i in (0, nr - 1)) or (fz == 0.0 and j in (0, nz - 1))
        states.append((b["name"], r, z))
        pc = "node" if node else "interior"
        classes.append("pt:" + pc)
        if edge:
            classes.append("pt:domain-edge")

        # ---------------- reference classification of the point --------------------------------------
        praw = float(b["psin_grid"][i, j]) if node else float(b["psin_i"](r, z))
        psin_ref = praw if praw > 0.0 else 0.0
        clamped = praw < 0.0
        inpoly, dist = b["poly"].classify(r, z)
        boundary = dist < BOUNDARY_MARGIN or (inpoly and abs(praw - 1.0) < BOUNDARY_MARGIN)
        inside_ref = inpoly and psin_ref <= 1.0
        if boundary:
            lc = "lcfs-boundary"
        elif inside_ref:
            lc = "inside"
        elif inpoly:
            lc = "in-polygon-psin>1"
        else:
            lc = "outside-polygon"
        classes.append("pt:" + lc)
        if clamped:
            classes.append("pt:psin-clamped")
        bx = b["bbox"]
        if bx[0] <= r <= bx[1] and bx[2] <= z <= bx[3]:
            nontrivial.append((b["name"], r, z, "mask"))
        if lc in ("inside", "lcfs-boundary"):
            nontrivial.append((b["name"], r, z, "map"))

        # ---------------- psi, psi_n ------------------------------------------------------------------
        psin, exc = call(eq.psi_normalised, r, z)
        if exc:
            V("psi_normalised", pc, "raises-" + exc, "psi_normalised(r,z) raised inside the grid domain", "a value", exc)
            continue
        if not (psin >= 0.0):
            V("psi_normalised", pc + (":clamped" if clamped else ""), "negative", "psi_normalised < 0", ">= 0", psin)
        if abs(psin - psin_ref) > 1e-12 * max(1.0, abs(psin_ref)):
            V("psi_normalised", pc + (":clamped" if clamped else ""), "value-vs-normalised-grid",
              "psi_n differs from max(0, (psi-psi_axis)/(psi_lcfs-psi_axis)) of the raw grid (node datum / cubic interpolant)", psin_ref, psin)
        if node:
            pv, exc = call(eq.psi, r, z)
            if exc or abs(pv - raw["psi"][i, j]) > 1e-12 * max(1.0, abs(raw["psi"][i, j])):
                V("psi", pc, "node-value", "psi at a grid node is not the grid datum", float(raw["psi"][i, j]), exc or pv)
        if syn is not None:
            pa = syn.psin(r, z)
            pa = pa if pa > 0.0 else 0.0
            edge_cell = i in (0, nr - 2, nr - 1) or j in (0, nz - 2, nz - 1)
            if abs(psin - pa) > (b["tol_psin_edge"] if edge_cell else b["tol_psin"]):
                V("psi_normalised", pc + (":clamped" if clamped else ""), "value-vs-closed-form", "psi_n differs from the closed-form flux beyond the interpolation error bound",
                  pa, psin)

        # ---------------- LCFS mask ---------------------------------------------------------------------
        m, exc = call(eq.inside_lcfs, r, z)
        if exc:
            V("inside_lcfs", lc, "raises-" + exc, "inside_lcfs raised", "0.0 or 1.0", exc)
            continue
        if m not in (0.0, 1.0):
            V("inside_lcfs", lc, "not-0-or-1", "mask value", "0.0 or 1.0", m)
        if not boundary and (m == 1.0) != inside_ref:
            V("inside_lcfs", lc, "mask-vs-polygon-and-psin", "mask differs from (point in LCFS polygon) and (psi_n <= 1)",
              1.0 if inside_ref else 0.0, m)
        inside_eff = (m == 1.0) if boundary else inside_ref  # which of the two permitted values applies on the boundary

        # ---------------- magnetic field ---------------------------------------------------------------
        bv, exc = call(eq.b_field, r, z)
        if exc:
            V("b_field", pc, "raises-" + exc, "b_field raised", "a vector", exc)
            continue
        nontrivial.append((b["name"], r, z, "basis"))
        gr = float(b["gr"][i, j]) if node else float(b["gr_i"](r, z))
        gz = float(b["gz"][i, j]) if node else float(b["gz_i"](r, z))
        # the implementation and this reference use the same documented second-order stencil on the same data; 1e-9 of the largest
        # gradient on the grid leaves 6 orders of magnitude for rounding in two differently written evaluations
        tolB = 1e-9 * b["gmax"] / r
        classes.append("bfield:fd-reference")
        if abs(bv.x - (-gz / r)) > tolB or abs(bv.z - gr / r) > tolB:
            V("b_field", pc, "poloidal-field-vs-grad-psi", "(B_r, B_z) differs from (-dpsi/dz, dpsi/dr)/r of the gridded psi",
              [-gz / r, gr / r], [bv.x, bv.z])
        gn = math.hypot(gr, gz)
        if gn > 0.0 and abs(bv.x * gr + bv.z * gz) / gn > 2.0 * tolB:
            V("b_field", pc, "crosses-flux-surface", "B has a component along grad psi (the flux-surface normal)", 0.0,
              (bv.x * gr + bv.z * gz) / gn)
        if syn is not None:
            ar, az = syn.grad(r, z)
            classes.append("bfield:closed-form-reference")
            if abs(-bv.x * r - az) > b["tol_g"] or abs(bv.z * r - ar) > b["tol_g"]:
                V("b_field", pc, "poloidal-field-vs-closed-form", "(B_r, B_z) differs from the closed-form (-dpsi/dz, dpsi/dr)/r beyond the truncation bound",
                  [-az / r, ar / r], [bv.x, bv.z])
        if not boundary:
            bt_ref = float(b["f_i"](psin_ref)) / r if inside_ref else raw["b_vacuum_magnitude"] * raw["b_vacuum_radius"] / r
            if abs(bv.y - bt_ref) > 1e-11 * abs(bt_ref):
                V("b_field", lc, "toroidal-field", "B_phi differs from F(psi_n)/r inside / B0 R0 / r outside the LCFS", bt_ref, bv.y)

        # ---------------- flux basis ---------------------------------------------------------------------
        tv, e1 = call(eq.toroidal_vector, r, z)
        pvx, e2 = call(eq.poloidal_vector, r, z)
        nv, e3 = call(eq.surface_normal, r, z)
        if e1 or e2 or e3:
            V("basis", pc, "raises-" + (e1 or e2 or e3), "basis vector raised", "vectors", [e1, e2, e3])
            continue
        bpol = math.hypot(bv.x, bv.z)
        bzero = (bv.x == 0.0 and bv.z == 0.0)
        if (tv.x, tv.y, tv.z) != (0.0, 1.0, 0.0):
            V("toroidal_vector", pc, "not-unit-phi", "toroidal vector", [0, 1, 0], [tv.x, tv.y, tv.z])
        if bzero:
            classes.append("pt:bpol-zero")
            if (pvx.x, pvx.y, pvx.z) != (0.0, 0.0, 0.0) or (nv.x, nv.y, nv.z) != (0.0, 0.0, 0.0):
                V("basis", pc + ":bpol-zero", "zero-vector-convention", "poloidal/normal vectors where the poloidal field vanishes",
                  [[0, 0, 0], [0, 0, 0]], [[pvx.x, pvx.y, pvx.z], [nv.x, nv.y, nv.z]])
            px = pz = nx = nz_ = 0.0
        else:
            classes.append("basis:orthonormal-checked")
            e = 1e-12
            px, pz = bv.x / bpol, bv.z / bpol  # unit in-plane field
            nx, nz_ = -pz, px  # p x t for t = (0,1,0)
            if abs(pvx.length - 1.0) > e or abs(nv.length - 1.0) > e:
                V("basis", pc, "not-unit-length", "|poloidal|, |normal|", [1.0, 1.0], [pvx.length, nv.length])
            if abs(pvx.dot(nv)) > e or abs(pvx.dot(tv)) > e or abs(nv.dot(tv)) > e:
                V("basis", pc, "not-orthogonal", "p.n, p.t, n.t", [0, 0, 0], [pvx.dot(nv), pvx.dot(tv), nv.dot(tv)])
            c = pvx.cross(tv)
            if abs(c.x - nv.x) > e or abs(c.y - nv.y) > e or abs(c.z - nv.z) > e:
                V("surface_normal", pc, "not-poloidal-cross-toroidal", "normal vs poloidal x toroidal", [c.x, c.y, c.z], [nv.x, nv.y, nv.z])
            if abs(pvx.x - px) > e or abs(pvx.z - pz) > e or abs(pvx.y) > e:
                V("poloidal_vector", pc, "not-along-in-plane-field", "poloidal vector vs (B_r,0,B_z)/|.| (positive projection)",
                  [px, 0.0, pz], [pvx.x, pvx.y, pvx.z])
            if abs(bv.dot(nv)) > e * bv.length:
                V("surface_normal", pc, "field-has-normal-component", "B.n", 0.0, bv.dot(nv))
        illcond = bpol < 1e-6 * b["gmax"] / r

        # ---------------- 3-D sample positions -----------------------------------------------------------
        pts3 = []
        for lab, ca, sa in angles:
            x, y = r * ca, r * sa
            if y == 0.0 or x == 0.0:
                rp = abs(x) if y == 0.0 else abs(y)
            else:
                rp = math.hypot(x, y)
                lo, hi = min(rp, math.sqrt(x * x + y * y)), max(rp, math.sqrt(x * x + y * y))
                if lo - 4e-16 * lo < rlo or hi + 4e-16 * hi > rhi:
                    classes.append("map3d:skipped-radius-rounds-outside-grid")
                    continue
            pts3.append((lab, x, y, rp))

        # ---------------- scalar maps ----------------------------------------------------------------------
        for s in b["scal"]:
            pname = s["pname"]
            pref = None
            if (inside_ref or boundary) and (psin_ref <= 1.0 or pname in ("fn1d", "pycall", "callable-object")):
                pref = ref.scalar_ref(pname, psin_ref, b["doc_i"], b["quad_i"])
            scale = _PSCALE[pname]
            kcls = "array-profile" if pname.startswith("array") else "function-profile"

            def judge(val, site, detail):
                """None if val is acceptable"""
                if boundary:
                    ok_out = (val == s["oval"])
                    ok_in = pref is not None and abs(val - pref) <= 1e-12 * (abs(pref) + scale)
                    if not (ok_out or ok_in):
                        V(site, "%s:%s" % (kcls, lc), "neither-profile-nor-outside-value" + detail, "value on the LCFS (profile %s)" % pname,
                          {"profile": pref, "outside": s["oval"]}, val, False)
                elif inside_ref:
                    if abs(val - pref) > 1e-12 * (abs(pref) + scale):
                        V(site, "%s:%s" % (kcls, lc + (":clamped" if clamped else "")), "value-vs-profile-at-psin" + detail,
                          "mapped value differs from profile(psi_n(r,z)) inside the LCFS (profile %s)" % pname, pref, val, False)
                else:
                    if val != s["oval"]:
                        V(site, "%s:%s:outside=%s" % (kcls, lc, s["oclass"]), "not-the-outside-value" + detail,
                          "mapped value outside the LCFS (profile %s)" % pname, s["oval"], val, False)

            if s["rec2"] is not None:
                del s["rec2"].args[:]
            val, exc = call(s["f2"], r, z)
            if exc:
                V("map2d", "%s:%s" % (kcls, lc), "raises-" + exc, "map2d(profile %s)(r,z) raised" % pname, "a value", exc, False)
            else:
                judge(val, "map2d", "")
                if inside_ref and not boundary:
                    classes.append("map2d:inside:" + pname)
                    if s["rec2"] is not None:
                        a = s["rec2"].args
                        if not a or any(abs(x - psin_ref) > 1e-12 * max(1.0, psin_ref) for x in a):
                            V("map2d", "%s:%s" % (kcls, lc), "profile-argument", "the profile was not evaluated at psi_n(r,z)", psin_ref, list(a), False)
                elif not boundary:
                    classes.append("map2d:outside:" + s["oclass"])
            for lab, x, y, rp in pts3:
                val, exc = call(s["f3"], x, y, z)
                if exc:
                    V("map3d", "%s:%s" % (kcls, lc), "raises-" + exc, "map3d(profile %s)(x,y,z) raised (direction %s)" % (pname, lab), "a value", exc, False)
                    break
                before = len(viol)
                judge(val, "map3d", "")
                classes.append("map3d:compared")
                if len(viol) > before:
                    viol[-1]["what"] += " (toroidal direction %s)" % lab

        # ---------------- vector maps -----------------------------------------------------------------------
        for v in b["vecs"]:
            w, kinds = v["w"], v["kinds"]
            comp = None
            if (inside_ref or boundary) and psin_ref <= 1.0:
                comp = [w[jj] * ref.shape_ref(kinds[jj], psin_ref) for jj in range(3)]
            if comp is not None:
                vt, vp, vn = comp
                flux = (vp * px + vn * nx, vt, vp * pz + vn * nz_)
            else:
                flux = None
            exp2 = flux if (inside_ref and not boundary) else v["ovec"]
            mag = max(sum(abs(c) for c in (flux or (0.0,))), sum(abs(c) for c in v["ovec"]))
            # components shapes have |value| + |slope| <= 3 |w|; 1e-12 psi_n agreement and the 1e-12 basis tolerance
            tolv = 1e-11 * (mag + 3.0 * (abs(w[0]) + abs(w[1]) + abs(w[2]))) + 1e-300
            vsite = lc
            vwhat = " (weights (t,p,n)=%s given as %s)" % (list(w), kinds)
            val, exc = call(v["v2"], r, z)
            if exc:
                V("map_vector2d", vsite, "raises-" + exc, "map_vector2d(...)(r,z) raised" + vwhat, "a vector", exc)
                continue
            if boundary:
                # either the outside vector or the flux-coordinate vector
                ok = (val.x, val.y, val.z) == v["ovec"]
                if not ok and flux is not None:
                    ok = max(abs(val.x - flux[0]), abs(val.y - flux[1]), abs(val.z - flux[2])) <= tolv
                if not ok:
                    V("map_vector2d", vsite, "neither-flux-vector-nor-outside-value", "vector on the LCFS" + vwhat,
                      {"flux": list(flux) if flux else None, "outside": list(v["ovec"])}, [val.x, val.y, val.z])
            elif inside_ref:
                classes.append("vec2d:inside")
                if max(abs(val.x - exp2[0]), abs(val.y - exp2[1]), abs(val.z - exp2[2])) > tolv:
                    # name the component that is wrong in the flux basis
                    got = (val.y, val.x * px + val.z * pz, val.x * nx + val.z * nz_)
                    bad = [nm for nm, g, e_ in zip(("toroidal", "poloidal", "normal"), got, comp) if abs(g - e_) > tolv]
                    V("map_vector2d", vsite + (":bpol-zero" if bzero else ""), "components-in-flux-basis:" + ("+".join(bad) or "out-of-basis"),
                      "mapped velocity does not have the prescribed (toroidal, poloidal, normal) components" + vwhat, list(comp), list(got))
            else:
                classes.append("vec2d:outside:" + v["oclass"])
                if (val.x, val.y, val.z) != exp2:
                    V("map_vector2d", vsite + ":outside=" + v["oclass"], "not-the-outside-vector", "vector outside the LCFS" + vwhat, list(exp2), [val.x, val.y, val.z])
            if boundary:
                continue
            for lab, x, y, rp in pts3:
                val, exc = call(v["v3"], x, y, z)
                if exc:
                    V("map_vector3d", vsite, "raises-" + exc, "map_vector3d(...)(x,y,z) raised (direction %s)" % lab + vwhat, "a vector", exc)
                    break
                cr, sr = x / rp, y / rp
                e3 = (exp2[0] * cr - exp2[1] * sr, exp2[0] * sr + exp2[1] * cr, exp2[2])
                if illcond and inside_ref and not (y == 0.0 and x > 0.0):
                    classes.append("vec3d:ill-conditioned")
                    gt = -val.x * sr + val.y * cr
                    gm = math.sqrt(val.x * val.x + val.y * val.y + val.z * val.z)
                    em = math.sqrt(comp[0] ** 2 + comp[1] ** 2 + comp[2] ** 2)
                    if abs(gt - comp[0]) > tolv or gm > em + tolv:
                        V("map_vector3d", vsite + ":bpol~0", "toroidal-component-or-magnitude", "3-D velocity where the poloidal field (nearly) vanishes (direction %s)" % lab + vwhat,
                          {"toroidal": comp[0], "max |v|": em}, {"toroidal": gt, "|v|": gm})
                    continue
                classes.append("vec3d:compared")
                if max(abs(val.x - e3[0]), abs(val.y - e3[1]), abs(val.z - e3[2])) > tolv:
                    V("map_vector3d", vsite + (":outside=" + v["oclass"] if not inside_ref else ""), "not-the-2d-vector-rotated-by-phi",
                      "map_vector3d(x,y,z) differs from R_z(phi) applied to the (r,phi,z) vector at (hypot(x,y), z) (direction %s)" % lab + vwhat,
                      list(e3), [val.x, val.y, val.z])
        summary[lc] = summary.get(lc, 0) + 1

    n = counters["n"]
    return {"viol": viol, "classes": classes, "n": n, "transitions": n, "states": states, "nontrivial": nontrivial,
            "outcome": (case["eq"], fr, fz, i, tuple(sorted(summary.items())), n, tuple(sorted(v["sig"] for v in viol)))}
